"""Throw-away driver for the topo/queues/prune harness modules."""
import json
import sys
import time

import core

which = [a for a in sys.argv[1:] if not a.startswith("-")] or ["topo", "queues", "prune"]
tier = "thorough" if "--thorough" in sys.argv else "quick"
seed = next((int(a.split("=")[1]) for a in sys.argv if a.startswith("--seed=")), 0)
ctx = core.Ctx("SELFTEST", tier, seed)
t0 = time.time()
for w in which:
    if w == "topo":
        import topo_corr
        topo_corr.run_topo(ctx)
    elif w == "queues":
        import queues_corr
        queues_corr.run_queues(ctx)
    elif w == "prune":
        import prune_corr
        prune_corr.run_prune(ctx)
    print("%s done: cases=%d distinct=%d compared=%d broken=%d failures=%d (%.1fs)" % (
        w, ctx.evaluations, len(ctx.distinct), ctx.disagreements_checked, len(ctx.broken), len(ctx.failures), time.time() - t0))
print("REPO", core.REPO)
print("correspondences", ctx.corr_names)
print("broken", json.dumps(ctx.broken[:3], default=str)[:1500])
print("failure keys", sorted({f["key"] for f in ctx.failures}))
print("failures", json.dumps(ctx.failures[:2], default=str)[:1500])
if "-v" in sys.argv:
    print(json.dumps(ctx.dist, indent=1))
