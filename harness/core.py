"""Shared framework for every property check.

./check Cxx --tier quick|thorough
  1. full `make` of coq/ (under flock + timeout), forbidden-vernacular gate
  2. Props/Cxx.v: theorem names, compile status, `Print Assumptions` output
  3. harness/cxx.py:run(ctx)  -> correspondence (model vs /repo) + property monitors on /repo
  4. decision + evidence/Cxx.json + VIOLATION / KNOWN-FINDING lines
"""
import fcntl
import hashlib
import json
import os
import random
import re
import subprocess
import sys
import time
import threading as _threading

ROOT = os.path.dirname(os.path.dirname(os.path.abspath(__file__)))
COQ = os.path.join(ROOT, "coq")
THEORIES = os.path.join(COQ, "theories")
REPO = os.environ.get("VERIF_REPO", "/repo")
REPO_SRC = os.path.join(REPO, "src")
# from the first import on, `import uberjob` resolves to the tree under test (not to PYTHONPATH's /repo/src when VERIF_REPO is set,
# never to the copy installed in the venv)
while REPO_SRC in sys.path:
    sys.path.remove(REPO_SRC)
sys.path.insert(0, REPO_SRC)
# evidence/ describes /repo itself; a run against a scratch copy (VERIF_REPO, used to try seeded changes) writes elsewhere
EVID = os.path.join(ROOT, "evidence") if "VERIF_REPO" not in os.environ else \
    os.path.join(ROOT, "build", "scratch-evidence", re.sub(r"[^A-Za-z0-9]+", "_", os.environ["VERIF_REPO"]).strip("_"))
REPLAYS = os.path.join(EVID, "replays")
PY = "/venv/bin/python"
LOGICAL = "UJ"

FORBIDDEN = re.compile(
    r"\b(Admitted|admit|Axiom|Axioms|Parameter|Parameters|Conjecture|Conjectures|Abort All)\b"
    r"|Unset\s+Guard|Unset\s+Positivity|Unset\s+Universe\s+Checking|bypass_check|type-in-type|impredicative-set"
    r"|Admit\s+Obligations|native_compute"
)

ALLOWED_AXIOMS = set()  # the development is meant to be closed under the global context


def repo_env():
    env = dict(os.environ)
    env["PYTHONPATH"] = REPO_SRC
    env["PYTHONHASHSEED"] = "0"
    env["PIP_NO_INDEX"] = "1"
    return env


def use_repo():
    """Make `import uberjob` resolve to /repo's working tree in this process."""
    if REPO_SRC not in sys.path:
        sys.path.insert(0, REPO_SRC)
    for k in list(sys.modules):
        if k == "uberjob" or k.startswith("uberjob."):
            f = getattr(sys.modules[k], "__file__", "") or ""
            if not f.startswith(REPO_SRC):
                del sys.modules[k]
    import uberjob  # noqa

    assert uberjob.__file__.startswith(REPO_SRC), uberjob.__file__
    return uberjob


# ----------------------------------------------------------------------------------------------
# Coq build
# ----------------------------------------------------------------------------------------------
def _coq_files():
    out = []
    for d, _, fs in os.walk(THEORIES):
        for f in fs:
            if f.endswith(".v"):
                out.append(os.path.relpath(os.path.join(d, f), COQ))
    return sorted(out)


def write_coqproject():
    files = _coq_files()
    text = "-Q theories %s\n-arg -w -arg -notation-overridden,-deprecated-hint-without-locality,-deprecated-instance-without-locality\n" % LOGICAL
    text += "\n".join(files) + "\n"
    p = os.path.join(COQ, "_CoqProject")
    old = open(p).read() if os.path.exists(p) else None
    if old != text or not os.path.exists(os.path.join(COQ, "Makefile")):
        with open(p, "w") as f:
            f.write(text)
        subprocess.run(
            ["coq_makefile", "-f", "_CoqProject", "-o", "Makefile"],
            cwd=COQ, check=True, stdout=subprocess.DEVNULL, stderr=subprocess.DEVNULL,
        )


def build_coq(timeout=1500):
    """Full .vo build (never -vos). Returns (ok, log_tail)."""
    os.makedirs(COQ, exist_ok=True)
    lock = open(os.path.join(COQ, ".build.lock"), "w")
    fcntl.flock(lock, fcntl.LOCK_EX)
    try:
        write_coqproject()
        p = subprocess.run(
            ["timeout", str(timeout), "make", "-j16", "-k"],
            cwd=COQ, stdout=subprocess.PIPE, stderr=subprocess.STDOUT, text=True,
        )
        return p.returncode == 0, p.stdout[-6000:]
    finally:
        fcntl.flock(lock, fcntl.LOCK_UN)
        lock.close()


def gate():
    """Forbidden vernacular anywhere in the development (comments stripped)."""
    hits = []
    gen = [os.path.join("gen", f) for f in sorted(os.listdir(os.path.join(COQ, "gen"))) if f.endswith(".v")] if os.path.isdir(os.path.join(COQ, "gen")) else []
    for rel in list(_coq_files()) + gen:
        src = open(os.path.join(COQ, rel)).read()
        src = strip_comments(src)
        for i, line in enumerate(src.split("\n"), 1):
            if FORBIDDEN.search(line):
                hits.append("%s:%d: %s" % (rel, i, line.strip()[:120]))
    return hits


def strip_comments(src):
    out, depth, i = [], 0, 0
    while i < len(src):
        if src.startswith("(*", i):
            depth += 1
            i += 2
        elif src.startswith("*)", i) and depth:
            depth -= 1
            i += 2
        else:
            if depth == 0:
                out.append(src[i])
            elif src[i] == "\n":
                out.append("\n")
            i += 1
    return "".join(out)


def props_info(pid):
    """Theorems of Props/<pid>.v, whether each is accepted by coqc, and their assumptions."""
    path = os.path.join(THEORIES, "Props", pid + ".v")
    info = {"file": path, "theorems": [], "accepted": [], "assumptions": {}, "ok": False, "log": ""}
    if not os.path.exists(path):
        info["log"] = "missing " + path
        return info
    src = strip_comments(open(path).read())
    info["theorems"] = re.findall(r"^\s*(?:Theorem|Lemma|Corollary)\s+([A-Za-z0-9_']+)", src, re.M)
    # Props files may contain only Require/Import/Theorem..Proof. exact X. Qed./Print Assumptions
    body = re.sub(r"(?s)(Theorem|Lemma|Corollary)\s.*?Qed\.", "", src)
    body = re.sub(r"(?m)^\s*(From\s.*|Require\s.*|Import\s.*|Print Assumptions\s.*|Local Open Scope\s.*|Open Scope\s.*|Set Implicit Arguments\.|Section\s.*|End\s.*)$", "", body)
    if body.strip():
        info["log"] = "Props file contains more than theorems: %r" % body.strip()[:200]
        return info
    p = subprocess.run(
        ["timeout", "600", "coqc", "-Q", "theories", LOGICAL, "-w", "none", os.path.relpath(path, COQ)],
        cwd=COQ, stdout=subprocess.PIPE, stderr=subprocess.STDOUT, text=True,
    )
    out = p.stdout
    info["log"] = out[-3000:]
    if p.returncode == 0:
        info["accepted"] = list(info["theorems"])
        info["ok"] = True
    else:
        # conservative: nothing from a failing file counts
        info["accepted"] = []
    # Print Assumptions output: blocks "Closed under the global context" or "Axioms:\n name : type"
    printed = re.findall(r"Print Assumptions\s+([A-Za-z0-9_'.]+)\s*\.", src)
    blocks = re.split(r"(?=Closed under the global context|Axioms:)", out)
    blocks = [b for b in blocks if b.startswith("Closed under") or b.startswith("Axioms:")]
    for name, b in zip(printed, blocks):
        if b.startswith("Closed"):
            info["assumptions"][name] = []
        else:
            info["assumptions"][name] = re.findall(r"^([A-Za-z0-9_.']+)\s*:", b, re.M)
    info["unprinted"] = [t for t in info["theorems"] if t not in printed]
    return info


# ----------------------------------------------------------------------------------------------
# Evaluating the model inside Coq (vm_compute) on generated cases
# ----------------------------------------------------------------------------------------------
def coq_eval(header, terms, ty="bool", shard=400, jobs=12, tag="cases", timeout=600):
    """Evaluate Coq terms with vm_compute; returns list of printed normal forms (strings), one per term.

    Each term is evaluated as `Eval vm_compute in (<term> : ty).` in files of `shard` terms, run in parallel."""
    import concurrent.futures as cf
    import tempfile

    work = tempfile.mkdtemp(prefix="ujcases_", dir=os.path.join(ROOT, "build") if os.path.isdir(os.path.join(ROOT, "build")) else None)
    shards = [terms[i:i + shard] for i in range(0, len(terms), shard)]

    def run(si):
        fn = os.path.join(work, "%s_%d.v" % (tag, si))
        with open(fn, "w") as f:
            f.write(header + "\n")
            for k, t in enumerate(shards[si]):
                f.write('Definition c%d : %s := %s.\n' % (k, ty, t))
            f.write("Definition all_results := [%s].\n" % "; ".join("c%d" % k for k in range(len(shards[si]))))
            f.write("Eval vm_compute in all_results.\n")
        p = subprocess.run(
            ["timeout", str(timeout), "coqc", "-Q", os.path.join(COQ, "theories"), LOGICAL, "-w", "none", fn],
            stdout=subprocess.PIPE, stderr=subprocess.STDOUT, text=True,
        )
        return p.returncode, p.stdout

    results = []
    with cf.ThreadPoolExecutor(jobs) as ex:
        outs = list(ex.map(run, range(len(shards))))
    for si, (rc, out) in enumerate(outs):
        if rc != 0:
            raise RuntimeError("coqc failed on generated cases (%s shard %d):\n%s" % (tag, si, out[-3000:]))
        m = re.search(r"=\s*\[(.*)\]\s*:\s*list", out, re.S)
        if not m:
            raise RuntimeError("cannot parse coqc output: " + out[-2000:])
        body = m.group(1)
        items = split_top(body)
        if len(items) != len(shards[si]):
            raise RuntimeError("result count mismatch %d vs %d" % (len(items), len(shards[si])))
        results.extend(items)
    import shutil

    shutil.rmtree(work, ignore_errors=True)
    return results


def split_top(body, sep=";"):
    items, depth, cur = [], 0, []
    for ch in body:
        if ch in "([{":
            depth += 1
        elif ch in ")]}":
            depth -= 1
        if ch == sep and depth == 0:
            items.append(" ".join("".join(cur).split()))
            cur = []
        else:
            cur.append(ch)
    last = " ".join("".join(cur).split())
    if last or items:
        items.append(last)
    return items


def coq_list(xs, f=str):
    return "[" + "; ".join(f(x) for x in xs) + "]"


def coq_nat(n):
    return "%d" % n


def coq_Z(n):
    return "(%d)%%Z" % n


def coq_bool(b):
    return "true" if b else "false"


def coq_option(x, f=str):
    return "None" if x is None else "(Some %s)" % f(x)


# ----------------------------------------------------------------------------------------------
# Context / result
# ----------------------------------------------------------------------------------------------
class Ctx:
    def __init__(self, pid, tier, seed):
        self.pid, self.tier, self.seed = pid, tier, seed
        self.rng = random.Random(seed)
        self.t0 = time.time()
        self.evaluations = 0
        self.distinct = set()
        self.samples = []
        self._partial_keys = set()
        self.failures = []       # concrete property failures on the implementation: dict(key, what, replay)
        self.broken = []         # broken correspondence / sentinel / proof: dict(what, detail)
        self.notes = {}
        self.dist = {}
        self.assumptions = []
        self.programs = 0
        self.disagreements_checked = 0
        self.corr_names = []
        self.last_case = None

    @property
    def quick(self):
        return self.tier == "quick"

    def n(self, quick, thorough):
        return quick if self.quick else thorough

    def case(self, key, nontrivial=True, sample=None):
        alive()
        self.last_case = key
        self.evaluations += 1
        if nontrivial:
            h = hashlib.sha1(repr(key).encode()).hexdigest()[:16]
            self.distinct.add(h)
        if sample is not None and len(self.samples) < 6:
            self.samples.append(sample)

    def count(self, hist, key, k=1):
        alive()
        d = self.dist.setdefault(hist, {})
        d[str(key)] = d.get(str(key), 0) + k

    def fail(self, key, what, replay):
        """The property itself fails on the implementation for a concrete input (replayable)."""
        alive()
        self.failures.append({"key": key, "what": what, "replay": replay})
        # written through at once: if the interpreter itself crashes later while driving the code under test, harness/crashed.py still
        # reports the concrete failures observed up to then (first occurrence of each key)
        try:
            if key not in self._partial_keys:
                self._partial_keys.add(key)
                os.makedirs(REPLAYS, exist_ok=True)
                with open(os.path.join(REPLAYS, "%s-partial-%d.jsonl" % (self.pid, os.getpid())), "a") as f:
                    f.write(json.dumps({"key": key, "what": what, "replay": replay, "seed": self.seed, "tier": self.tier}, default=str) + "\n")
        except Exception:       # noqa
            pass

    def broke(self, what, detail):
        """A theorem, sentinel or model/implementation correspondence no longer checks."""
        self.broken.append({"what": what, "detail": detail})

    def compared(self, name, n=1):
        alive()
        self.disagreements_checked += n
        if name not in self.corr_names:
            self.corr_names.append(name)


def load_known():
    p = os.path.join(ROOT, "known_findings.json")
    if not os.path.exists(p):
        return []
    return json.load(open(p))["findings"]


def finish(ctx, pinfo, gate_hits, build_ok, build_log, trusted_base, rule):
    gen_cleanup()
    os.makedirs(REPLAYS, exist_ok=True)
    try:
        os.remove(os.path.join(REPLAYS, "%s-partial-%d.jsonl" % (ctx.pid, os.getpid())))     # the verdict below supersedes the write-through file
    except OSError:
        pass
    known = [k for k in load_known() if k["property"] == ctx.pid and k.get("status") == "known"]
    lines, viol = [], 0
    known_hit = {}
    unlisted = []
    for f in ctx.failures:
        k = next((k for k in known if k["key"] == f["key"]), None)
        if k:
            known_hit[k["key"]] = k
        else:
            unlisted.append(f)
    for k in known_hit.values():
        lines.append("KNOWN-FINDING: property=%s %s" % (ctx.pid, k["what"]))

    proof_problems = []
    if not build_ok:
        proof_problems.append({"what": "coq build failed", "detail": build_log[-1500:]})
    if gate_hits:
        proof_problems.append({"what": "forbidden vernacular", "detail": gate_hits[:10]})
    if not pinfo["ok"]:
        proof_problems.append({"what": "Props/%s.v does not check" % ctx.pid, "detail": pinfo["log"][-1500:]})
    for t, ax in pinfo["assumptions"].items():
        extra = [a for a in ax if a not in ALLOWED_AXIOMS]
        if extra:
            proof_problems.append({"what": "theorem %s depends on axioms" % t, "detail": extra})
    if pinfo.get("unprinted"):
        proof_problems.append({"what": "theorems without Print Assumptions", "detail": pinfo["unprinted"]})
    if pinfo["ok"] and not pinfo["theorems"]:
        proof_problems.append({"what": "no theorems in Props/%s.v" % ctx.pid, "detail": ""})

    n = 0
    if unlisted:
        # report each distinct key once
        seen = set()
        for f in unlisted:
            if f["key"] in seen:
                continue
            seen.add(f["key"])
            n += 1
            rp = os.path.join(REPLAYS, "%s-%d.json" % (ctx.pid, n))
            json.dump({"property": ctx.pid, "kind": "failing-input", "key": f["key"], "what": f["what"],
                       "seed": ctx.seed, "tier": ctx.tier, "replay": f["replay"],
                       "broken": ctx.broken[:5], "proof_problems": proof_problems}, open(rp, "w"), indent=1, default=str)
            lines.append("VIOLATION property=%s replay=%s" % (ctx.pid, rp))
            viol += 1
    elif proof_problems or ctx.broken:
        rp = os.path.join(REPLAYS, "%s-broken.json" % ctx.pid)
        json.dump({"property": ctx.pid, "kind": "no-failing-input-found", "seed": ctx.seed, "tier": ctx.tier,
                   "no_longer_checks": proof_problems + ctx.broken[:20]}, open(rp, "w"), indent=1, default=str)
        lines.append("VIOLATION property=%s replay=%s no-failing-input-found" % (ctx.pid, rp))
        viol += 1

    cov = {
        "obligations": len(pinfo["theorems"]),
        "discharged": len(pinfo["accepted"]),
        "checker_cmd": "make -C /verif/coq (full .vo build, coqc 8.16.1) && coqc -Q theories UJ theories/Props/%s.v" % ctx.pid,
        "trusted_base": trusted_base,
        "theorems": pinfo["theorems"],
        "print_assumptions": {k: (v or "Closed under the global context") for k, v in pinfo["assumptions"].items()},
        "refuted_or_partial": [t for t in pinfo["theorems"] if t.endswith("_refuted") or "_partial" in t or "_prefix" in t],
        "evaluations": ctx.evaluations,
        "distinct_nontrivial": len(ctx.distinct),
        "rule": rule,
        "samples": ctx.samples or ["(no samples recorded)"],
        "programs": ctx.programs or ctx.evaluations,
        "disagreements_checked": ctx.disagreements_checked,
        "correspondences": ctx.corr_names,
        "input_distribution": ctx.dist,
        "broken": ctx.broken[:20],
        "failures": [{"key": f["key"], "what": f["what"]} for f in ctx.failures[:20]],
        "known_findings_seen": sorted(known_hit),
    }
    cov.update(ctx.notes)
    ev = {
        "property_id": ctx.pid, "tier": ctx.tier, "seed": ctx.seed, "level": "proof",
        "coverage": cov, "assumptions": ctx.assumptions, "wall_s": round(time.time() - ctx.t0, 2),
        "violations": viol,
    }
    os.makedirs(EVID, exist_ok=True)
    with open(os.path.join(EVID, ctx.pid + ".json"), "w") as f:
        json.dump(ev, f, indent=1, default=str)
    for l in lines:
        print(l)
    print("%s tier=%s seed=%d theorems=%d/%d cases=%d distinct=%d compared=%d failures=%d broken=%d wall=%.1fs" % (
        ctx.pid, ctx.tier, ctx.seed, len(pinfo["accepted"]), len(pinfo["theorems"]), ctx.evaluations,
        len(ctx.distinct), ctx.disagreements_checked, len(ctx.failures), len(ctx.broken) + len(proof_problems), time.time() - ctx.t0))
    return 1 if viol else 0



_GEN_DIR = [None]


def gen_dir():
    """a directory private to this process for the Gallina text generated from /repo's source and its compiled link theorems: checks
    that run in parallel must not compile into one shared directory (coq/gen holds the committed sources only)"""
    if _GEN_DIR[0] is None:
        d = os.path.join(ROOT, "build", "genwork", "%d" % os.getpid())
        import shutil
        shutil.rmtree(d, ignore_errors=True)
        os.makedirs(d)
        _GEN_DIR[0] = d
    return _GEN_DIR[0]


def gen_cleanup():
    if _GEN_DIR[0] is not None:
        import shutil
        shutil.rmtree(_GEN_DIR[0], ignore_errors=True)
        _GEN_DIR[0] = None


T_LAST = [time.time()]


def alive():
    """a sign of life for the stall detector of main.py (called at every case / count / comparison and before every library run)"""
    T_LAST[0] = time.time()


class Hang(Exception):
    """raised by call_watched when the watched call did not return in time"""


HANGS = [0]          # number of watched calls that hung so far in this check (loops stop probing after a few)


def call_watched(fn, timeout=6.0):
    """fn() on a daemon thread: its value, or the exception it raised (re-raised here), or Hang after `timeout` seconds (the stuck
    thread is then asked to exit with an asynchronous SystemExit so that a busy loop does not keep a core for the rest of the check)."""
    box = []
    before = set(_threading.enumerate())

    def target():
        try:
            box.append(("ok", fn()))
        except BaseException as e:      # noqa
            box.append(("raised", e))
    th = _threading.Thread(target=target, daemon=True, name="watched-call")
    th.start()
    th.join(timeout)
    if not box:
        # ask the stuck thread AND every thread started since (the hung call's workers, which may be spinning) to exit; tracing is
        # switched off first (an asynchronous exception delivered inside a frame traced per opcode has crashed CPython 3.12; detsched
        # installs its tracer anew at the start of every run)
        try:
            import sys as _sys
            if hasattr(_sys, "_settraceallthreads"):
                _sys._settraceallthreads(None)
        except Exception:       # noqa
            pass
        try:
            import ctypes
            for t in _threading.enumerate():
                if t is th or (t not in before and t is not _threading.current_thread()):
                    ctypes.pythonapi.PyThreadState_SetAsyncExc(ctypes.c_ulong(t.ident), ctypes.py_object(SystemExit))
        except Exception:       # noqa
            pass
        HANGS[0] += 1
        raise Hang("did not return within %.0f s" % timeout)
    if box[0][0] == "raised":
        raise box[0][1]
    return box[0][1]
