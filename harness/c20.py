"""C20: bundled progress displays render every reachable state, ending with the final."""
import contextlib
import fractions
import html as htmlmod
import io
import re
import sys
import threading
import time as realtime

import core

F = fractions.Fraction

RULE = ("generated legal notification sequences (totals before running per (section, scope), every running matched by one "
        "completed/failed; both the section-ordered shape uberjob.run emits and the freer per-key shape) over 1-3 sections x "
        "1-4 scopes whose values are drawn from ints, strs, floats, bytes, complex, None, frozensets, tuples (some mutually "
        "unorderable) and objects with only __eq__/__hash__ (two sharing one repr); render points anywhere, a scripted "
        "Fraction clock, four max_update_interval values; each case is driven through the three real observers. A case is "
        "distinct by (events, kind); non-trivial if it has at least one render with a non-empty section. Separate malformed "
        "stream (missing totals, zero/negative totals, unmatched completed) and a threaded stream with the real update thread.")
TRUSTED_BASE = [
    "time.time replaced by a scripted fractions.Fraction clock in the _simple_progress_observer module namespace (real floats are not modelled)",
    "str()/repr()/hash()/== of scope values and the bool-or-TypeError outcome of < between two values are taken from CPython and passed to the model as tables",
    "IPython.display.display runs headless (it prints the widget repr; stdout is captured); widget state is read back from observer._widget_cache",
    "parsers of the console text / HTML / widget labels in harness/c20.py",
    "CPython list.sort (timsort) vs the model's insertion sort: same result for strict total orders; rows are compared as a multiset when a type's < is only partial on the values used",
]

SEC = {"stale": 0, "run": 1, "other": 2}
TITLES = {"Determining stale value stores": 0, "Running graph": 1}
ERRCODE = {"KeyError": 1, "ZeroDivisionError": 2, "ValueError": 3, "TypeError": 4, "TraitError": 5}


class EqOnly:
    """hashable and equatable, nothing else; repr/str configurable so two unequal values can share one repr"""

    def __init__(self, tag, rep=None):
        self.tag, self.rep = tag, rep or "E<%s>" % tag

    def __eq__(self, o):
        return type(o) is EqOnly and o.tag == self.tag

    def __hash__(self):
        return hash(("EqOnly", self.tag))

    def __repr__(self):
        return self.rep


def make_pool():
    # (strings with digits of every kind: ASCII runs, superscripts and circled numbers - str.isdigit() but not int() -, Arabic-Indic digits)
    return [0, 1, 2, 10, -3, "a", "b", "ab", "Z", "x.y", "", "chunk2", "chunk10", "\u2460", "run1\u00b2", "\u0663", "\u00bd", 0.5, 2.5, b"a", b"b",
            1j, 2j, 1 + 1j, None, frozenset(), frozenset({1}), frozenset({2}), frozenset({1, 2}),
            (1, 2), (1, 3), ("a",), (1j,), (2j,), EqOnly("p"), EqOnly("q"), EqOnly("r", "same"), EqOnly("s", "same")]


class Clock:
    """stands in for the `time` module inside _simple_progress_observer"""

    def __init__(self):
        self.q, self.reads = [], 0
        self.lock = threading.Lock()
        self.auto = None          # threaded mode: monotone counter
        self.log = []

    def set(self, values):
        self.q, self.reads = list(values), 0

    def time(self):
        if self.auto is not None:
            with self.lock:
                self.auto += F(1, 7)
                self.log.append((self.auto, sys._getframe(1).f_code.co_name, threading.get_ident()))
                return self.auto
        self.reads += 1
        return self.q.pop(0)


def scope_str(scope):
    return ", ".join(str(v) for v in scope)


# ------------------------------------------------------------------------------------------------
# generators
# ------------------------------------------------------------------------------------------------
def gen_case(rng, pool, malformed=False):
    so = rng.random() < 0.5
    secs = rng.choice([["run"], ["stale", "run"], ["stale", "run"], ["stale"], ["stale", "run", "other"]])
    flavour = rng.choice(["any", "any", "unord", "mixed", "simple"])
    idx = list(range(len(pool)))
    if flavour == "unord":
        idx = [i for i in idx if isinstance(pool[i], (complex, EqOnly, frozenset)) or pool[i] is None]
    elif flavour == "simple":
        idx = [i for i in idx if isinstance(pool[i], (int, str))]
    keys = []
    for s in secs:
        seen = set()
        for _ in range(rng.randint(1, 4)):
            for _try in range(10):
                sc = tuple(rng.choice(idx) for _ in range(rng.choice([0, 1, 1, 1, 2, 2, 3])))
                st = scope_str(tuple(pool[i] for i in sc))
                if st not in seen and st != "Total" and sc not in [k[1] for k in keys if k[0] == s]:
                    seen.add(st)
                    keys.append((s, sc))
                    break
    # per key: amounts still to announce, announced, started, running
    todo = {k: [rng.randint(1, 3)] if rng.random() < 0.8 else [rng.randint(1, 2), rng.randint(1, 2)] for k in keys}
    ann = {k: 0 for k in keys}
    started = {k: 0 for k in keys}
    running = {k: 0 for k in keys}
    sec_started = set()
    t = F(rng.choice([0, 0, 5, 1000]))
    start = t
    steps = [F(0), F(1, 3), F(1, 2), F(1), F(7, 5), F(30), F(61), F(3600), F(2, 7)]

    def tick():
        nonlocal t
        t += rng.choice(steps)
        return t

    evs = []
    budget = rng.randint(3, 36)
    prender = rng.choice([0.1, 0.25, 0.5])
    while len(evs) < budget:
        acts = []
        for k in keys:
            if todo[k] and not (so and k[0] in sec_started):
                acts.append(("T", k))
            if started[k] < ann[k]:
                acts.append(("R", k))
                acts.append(("R", k))
            if running[k] > 0:
                acts.append(("D", k))
                acts.append(("D", k))
        if rng.random() < prender or not acts:
            evs.append(("P", tick(), tick()))
            if not acts:
                break
            continue
        a, k = rng.choice(acts)
        if a == "T":
            amt = todo[k].pop(0)
            ann[k] += amt
            evs.append(("T", k, amt))
        elif a == "R":
            started[k] += 1
            running[k] += 1
            sec_started.add(k[0])
            evs.append(("R", k, tick()))
        else:
            running[k] -= 1
            evs.append(("C" if rng.random() < 0.7 else "X", k, tick()))
    if rng.random() < 0.8:
        for k in keys:
            while running[k] > 0:
                running[k] -= 1
                evs.append(("C" if rng.random() < 0.7 else "X", k, tick()))
                if rng.random() < 0.3:
                    evs.append(("P", tick(), tick()))
    if malformed:
        kind = rng.choice(["missing-total", "zero-total", "neg-total", "unmatched-finish", "zero-total"])
        k = rng.choice(keys)
        pos = rng.randint(0, len(evs))
        if kind == "missing-total":
            evs = [e for e in evs if not (e[0] == "T" and e[1] == k)]
        elif kind == "zero-total":
            evs.insert(0, ("T", ("run", (rng.choice(idx), rng.choice(idx), rng.choice(idx))), 0))
        elif kind == "neg-total":
            evs.insert(0, ("T", ("run", (rng.choice(idx), rng.choice(idx), rng.choice(idx))), -2))
        else:
            prev = [e for e in evs[:pos] if e[0] != "T"]
            evs.insert(pos, ("C", k, prev[-1][2] if prev else start))
        evs.append(("P", tick(), tick()))
    mi = rng.choice([F(0), F(1, 2), F(5), F(10 ** 6)])
    return {"so": so, "keys": keys, "evs": evs, "start": start, "mi": mi, "flavour": flavour,
            "final": (tick(), tick())}


# ------------------------------------------------------------------------------------------------
# Coq encoding
# ------------------------------------------------------------------------------------------------
def cq(q):
    q = F(q)
    return "(%d # %d)%%Q" % (q.numerator, q.denominator)


def ckey(k):
    return "(%d%%nat, %s%%nat)" % (SEC[k[0]], core.coq_list(k[1]) if k[1] else "(@nil nat)")


def cev(e):
    if e[0] == "T":
        return "EvTotal %s (%d)%%Z" % (ckey(e[1]), e[2])
    if e[0] == "R":
        return "EvRunning %s %s" % (ckey(e[1]), cq(e[2]))
    if e[0] == "C":
        return "EvCompleted %s %s" % (ckey(e[1]), cq(e[2]))
    if e[0] == "X":
        return "EvFailed %s %s" % (ckey(e[1]), cq(e[2]))
    return "EvRender %s %s" % (cq(e[1]), cq(e[2]))


def cevs(evs):
    return "[" + "; ".join(cev(e) for e in evs) + "]" if evs else "(@nil ev)"


def triples(ts):
    return "[" + "; ".join("(%d,%d,%d)" % t for t in ts) + "]%nat" if ts else "(@nil (nat*nat*nat))"


class Env:
    """tables describing the scope values of one case to the model"""

    def __init__(self, pool, used):
        tys = sorted({str(type(pool[i])) for i in used})
        reps = sorted({repr(pool[i]) for i in used})
        self.vals = [(i, tys.index(str(type(pool[i]))), reps.index(repr(pool[i]))) for i in sorted(used)]
        self.cmp = []
        self.clean = True
        by_ty = {}
        for i in sorted(used):
            by_ty.setdefault(str(type(pool[i])), []).append(i)
        for ty, ids in by_ty.items():
            res = {}
            for x in ids:
                for y in ids:
                    if x != y:
                        try:
                            r = 2 if pool[x] < pool[y] else 1
                        except TypeError:
                            r = 0
                        res[(x, y)] = r
                        self.cmp.append((x, y, r))
            if not res:
                continue
            codes = set(res.values())
            if codes == {0}:
                continue
            if 0 in codes:
                self.clean = False
                continue
            # strict total order?
            for x in ids:
                for y in ids:
                    if x != y and (res[(x, y)] == 2) == (res[(y, x)] == 2):
                        self.clean = False
        self.text = "%s %s" % (triples(self.vals), triples(self.cmp))


class Reader:
    def __init__(self, s):
        self.v = [int(x) for x in re.findall(r"-?\d+", s)]
        self.i = 0

    def n(self):
        x = self.v[self.i]
        self.i += 1
        return x

    def q(self):
        a, b = self.n(), self.n()
        return F(a, b)

    def scope(self):
        return tuple(self.n() for _ in range(self.n()))


def parse_model(s):
    r = Reader(s)
    code = r.n()
    if code != 0:
        return {"err": code}
    out = {"err": 0, "mapping": [], "outs": []}
    for _ in range(r.n()):
        sec = r.n()
        sc = r.scope()
        c, f, ru, t = r.n(), r.n(), r.n(), r.n()
        out["mapping"].append(((sec, sc), (c, f, ru, t, r.q())))
    out["running_count"], out["nrs"], out["stale"], out["nexc"], out["newidx"] = r.n(), r.n(), r.n(), r.n(), r.n()
    out["skipped"] = sorted(r.n() for _ in range(r.n()))
    out["prev"] = r.q()
    for _ in range(r.n()):
        o = []
        for _ in range(r.n()):
            sec, rows = r.n(), []
            for _ in range(r.n()):
                sc = r.scope() if r.n() else None
                paren, c, ru, t, f, es = r.n(), r.n(), r.n(), r.n(), r.n(), r.n()
                extra = tuple(r.q() for _ in range(r.n()))
                rows.append((sc, paren, c, ru, t, f, es, extra))
            o.append((sec, rows))
        out["outs"].append(o)
    assert r.i == len(r.v), (r.i, len(r.v))
    return out


# ------------------------------------------------------------------------------------------------
# parsing what the observers displayed
# ------------------------------------------------------------------------------------------------
PROG = re.compile(r"^(?:\((-?\d+) \+ (-?\d+)\)|(-?\d+)) / (-?\d+)(?:, (-?\d+) failed)?$")
ELAPSED = re.compile(r"^(?:(-?\d+)h)?(?:(\d+)m)?(\d+)s$")


def parse_progress(s):
    m = PROG.match(s.strip())
    if not m:
        raise ValueError("progress string %r" % s)
    if m.group(1) is not None:
        paren, c, r = 1, int(m.group(1)), int(m.group(2))
    else:
        paren, c, r = 0, int(m.group(3)), 0
    return paren, c, r, int(m.group(4)), int(m.group(5) or 0)


def parse_elapsed(s):
    m = ELAPSED.match(s.strip())
    if not m:
        raise ValueError("elapsed string %r" % s)
    return int(m.group(1) or 0) * 3600 + int(m.group(2) or 0) * 60 + int(m.group(3))


def parse_console(text, names):
    out, cur = [], None
    for line in text.split("\n")[1:]:
        if line == "new exceptions:":
            break
        if line in ("stale:", "run:"):
            cur = (SEC[line[:-1]], [])
            out.append(cur)
        elif line.startswith("  ") and cur is not None:
            p, e, sc = line[2:].split(" | ", 2)
            paren, c, r, t, f = parse_progress(p)
            cur[1].append((names[(cur[0], sc)], paren, c, r, t, f, parse_elapsed(e), ()))
    return out


def parse_html(data, names):
    text = data.decode()
    out = []
    for chunk in text.split('<h3 class="mt-4">')[1:]:
        title = htmlmod.unescape(chunk.split("</h3>")[0])
        if title not in TITLES:
            break
        sec, rows = TITLES[title], []
        for cls, tr in re.findall(r'<tr class="([^"]*)">(.*?)</tr>', chunk, re.S):
            widths = tuple(float(w) for w in re.findall(r"width:([^%]+)%", tr))
            ends = re.findall(r'<td class="text-end">(.*?)</td>', tr, re.S)
            sc = re.findall(r"<td>(.*?)</td>", tr, re.S)[-1]
            sc = htmlmod.unescape(sc).replace("\u200b", "")
            paren, c, r, t, f = parse_progress(htmlmod.unescape(re.sub(r"<[^>]+>", "", ends[0])))
            name = None if cls == "fw-bold" else names[(sec, sc)]
            rows.append((name, paren, c, r, t, f, parse_elapsed(htmlmod.unescape(ends[1])), widths))
        out.append((sec, rows))
    return out


def parse_ipy(obs, names):
    vb = obs._widget_cache[()]
    out, cur = [], None
    for ch in list(vb.children)[1:]:
        tn = type(ch).__name__
        if tn == "HTML":
            title = htmlmod.unescape(re.sub(r"<[^>]+>", "", ch.value))
            if title not in TITLES:
                break
            cur = (TITLES[title], [])
            out.append(cur)
        elif tn == "HBox" and cur is not None:
            prog, label = ch.children
            p, e, sc = label.value.split("; ", 2)
            paren, c, r, t, f = parse_progress(p)
            style = {"": 0, "success": 1, "danger": 2}[prog.bar_style]
            cur[1].append((names[(cur[0], sc.replace("\u200b", ""))], paren, c, r, t, f, parse_elapsed(e),
                           (prog.max, prog.value, style)))
    return out


def model_rows(kind, o):
    """model output -> same shape as the parsers'"""
    res = []
    for sec, rows in o:
        rr = []
        for sc, paren, c, ru, t, f, es, extra in rows:
            if kind == 1:
                extra = tuple(float(x) for x in extra)
            elif kind == 2:
                extra = tuple(int(x) for x in extra)
            rr.append((sc, paren, c, ru, t, f, es, extra))
        res.append((sec, rr))
    return res


# ------------------------------------------------------------------------------------------------
def run(ctx):
    core.use_repo()
    from uberjob.progress import _simple_progress_observer as sp
    from uberjob.progress._console_progress_observer import ConsoleProgressObserver
    from uberjob.progress._html_progress_observer import HtmlProgressObserver
    from uberjob.progress._ipython_progress_observer import IPythonProgressObserver

    pool = make_pool()
    clock = Clock()
    real_time_mod = sp.time
    sp.time = clock
    html_sink = []
    try:
        _run(ctx, sp, pool, clock, html_sink, ConsoleProgressObserver, HtmlProgressObserver, IPythonProgressObserver)
    finally:
        sp.time = real_time_mod
    import translate_progress
    translate_progress.check(ctx)     # State / _get_progress_string / _do_render compiled from the source and linked to the models by theorems


def make_obs(kind, mi, classes, html_sink, delay=3):
    C, H, I = classes
    kw = dict(initial_update_delay=delay, min_update_interval=delay, max_update_interval=mi)
    if kind == 0:
        return C(**kw)
    if kind == 1:
        return H(html_sink.append, **kw)
    return I(**kw)


def mk_exc(i):
    try:
        raise RuntimeError("boom %d" % i)
    except RuntimeError as e:
        return e


def names_of(pool, keys):
    return {(SEC[s], scope_str(tuple(pool[i] for i in sc))): sc for s, sc in keys}


def drive(kind, case, pool, clock, classes, html_sink, stop_on_error=True):
    """Run the events of a case on a fresh real observer. Returns dict(renders=[parsed or None], error=(index, exc) or None, obs)."""
    clock.set([case["start"]])
    obs = make_obs(kind, case["mi"], classes, html_sink)
    names = names_of(pool, case["keys"])
    for e in case["evs"]:
        if e[0] == "T" and (SEC[e[1][0]], scope_str(tuple(pool[i] for i in e[1][1]))) not in names:
            names[(SEC[e[1][0]], scope_str(tuple(pool[i] for i in e[1][1])))] = e[1][1]
    renders, clock_ok = [], True
    sink = io.StringIO()
    for i, e in enumerate(case["evs"] + [("P",) + case["final"]]):
        try:
            if e[0] == "T":
                obs.increment_total(section=e[1][0], scope=tuple(pool[j] for j in e[1][1]), amount=e[2])
            elif e[0] in "RCX":
                clock.set([e[2]])
                sc = tuple(pool[j] for j in e[1][1])
                if e[0] == "R":
                    obs.increment_running(section=e[1][0], scope=sc)
                elif e[0] == "C":
                    obs.increment_completed(section=e[1][0], scope=sc)
                else:
                    obs.increment_failed(section=e[1][0], scope=sc, exception=mk_exc(i))
                clock_ok &= clock.reads == 1
            else:
                clock.set([e[1], e[2]])
                with contextlib.redirect_stdout(sink):
                    with obs._lock:
                        out = obs._do_render()
        except Exception as exc:  # noqa
            return {"renders": renders, "error": (i, exc, e[0]), "obs": obs, "clock_ok": clock_ok}
        if e[0] == "P":
            if True:
                rendered = clock.reads == 2
                if kind == 0:
                    renders.append(parse_console(out, names) if out is not None else None)
                elif kind == 1:
                    renders.append(parse_html(out, names) if out is not None else None)
                else:
                    renders.append(parse_ipy(obs, names) if rendered else None)
                if (out is not None) != rendered and kind != 2:
                    clock_ok = False
    return {"renders": renders, "error": None, "obs": obs, "clock_ok": clock_ok}


def impl_state(obs, pool_index):
    st = obs._state
    m = {}
    order = {}
    for sec, d in st.section_scope_mapping.items():
        for scope, s in d.items():
            sc = tuple(pool_index(v) for v in scope)
            m[(SEC[sec], sc)] = (s.completed, s.failed, s.running, s.total, F(s.weighted_elapsed))
            order.setdefault(SEC[sec], []).append(sc)
    return m, order


def _run(ctx, sp, pool, clock, html_sink, C, H, I):
    classes = (C, H, I)
    rng = ctx.rng
    ident = {id(v): i for i, v in enumerate(pool)}

    def pool_index(v):
        if id(v) in ident:
            return ident[id(v)]
        return next(i for i, p in enumerate(pool) if type(p) is type(v) and p == v)

    n_cases = ctx.n(220, 4000)
    cases = [gen_case(rng, pool) for _ in range(n_cases)]
    header = ("From Coq Require Import List Arith ZArith QArith Bool.\nImport ListNotations.\n"
              "From UJ Require Import Obs.Progress Obs.Render Run.Exec_Progress.\n")
    terms, meta = [], []
    KN = ["console", "html", "ipython"]
    for ci, case in enumerate(cases):
        used = {i for k in case["keys"] for i in k[1]}
        env = Env(pool, used)
        evs_all = case["evs"] + [("P",) + case["final"]]
        ctx.count("flavour", case["flavour"])
        ctx.count("section-ordered", case["so"])
        ctx.count("events", min(len(evs_all) // 10 * 10, 40))
        ctx.count("clean-order", env.clean)
        n_render = sum(1 for e in evs_all if e[0] == "P")
        ctx.count("renders", min(n_render, 8))
        # independent busy time: time up to the last notification during which something was running
        busy, last, active = F(0), case["start"], 0
        for e in case["evs"]:
            if e[0] in "RCX":
                if active > 0:
                    busy += e[2] - last
                last = e[2]
                active += 1 if e[0] == "R" else -1
        for kind in range(3):
            d = drive(kind, case, pool, clock, classes, html_sink)
            html_sink.clear()
            replay = {"kind": KN[kind], "events": [[e[0]] + [str(x) for x in e[1:]] for e in evs_all],
                      "values": {str(i): repr(pool[i]) for i in sorted(used)}, "start": str(case["start"]),
                      "max_update_interval": str(case["mi"])}
            ctx.case((ci, kind), nontrivial=n_render > 0,
                     sample={"kind": KN[kind], "events": replay["events"][:12], "values": replay["values"]} if ci == 3 else None)
            if d["error"]:
                i, exc, what = d["error"]
                replay["failed_at"] = i
                replay["exception"] = "%s: %s" % (type(exc).__name__, exc)
                if what == "P":
                    key = "unorderable-scope" if isinstance(exc, TypeError) else "render-raises:%s:%s" % (KN[kind], type(exc).__name__)
                    ctx.fail(key, "%s observer: _do_render raised %s on a legal state" % (KN[kind], replay["exception"]), replay)
                else:
                    ctx.fail("notify-raises:%s" % type(exc).__name__,
                             "%s observer: notification %d of a legal sequence raised %s" % (KN[kind], i, replay["exception"]), replay)
            if not d["clock_ok"]:
                ctx.broke("C20 clock reads", {"case": ci, "kind": KN[kind], "what": "number of time.time() reads per operation differs from the model's"})
            # monitors on the implementation
            if not d["error"]:
                obs = d["obs"]
                m, order = impl_state(obs, pool_index)
                tot = sum((v[4] for v in m.values()), F(0))
                tail = (obs._state._prev_time - last) if active > 0 else F(0)
                if tot != busy + tail:
                    ctx.fail("elapsed-sum", "%s observer: elapsed attributed to scopes sums to %s, time with a call running is %s"
                             % (KN[kind], tot, busy + tail), replay)
                # the console never re-prints a section it has printed complete; totals announced for such a section
                # afterwards (impossible in a run: all totals of a section precede its first running) stay unprinted
                check_last(ctx, KN[kind], kind, d["renders"], m, replay, soft=(kind == 0 and not case["so"]))
                for v in m.values():
                    if min(v[:4]) < 0 or v[3] <= 0 or v[0] + v[1] + v[2] > v[3]:
                        ctx.fail("state-inv", "%s observer: counters out of range %r" % (KN[kind], v[:4]), replay)
                if obs._state.running_count != sum(v[2] for v in m.values()):
                    ctx.fail("state-inv", "%s observer: running_count != sum of running" % KN[kind], replay)
            terms.append("exec_observe %d true %s %s %s %s" % (kind, env.text, cq(case["mi"]), cq(case["start"]), cevs(evs_all)))
            meta.append(("obs", ci, kind, d, env, replay))
        terms.append("exec_busy %s %s ++ [if exec_wf %s %s then 1 else 0]%%Z" % (
            cq(case["start"]), cevs(case["evs"]), "true" if case["so"] else "false", cevs(case["evs"])))
        meta.append(("busy", ci, busy, active))
        # the pre-fix sort: does the model's universal sort raise exactly when CPython's does?
        for s in sorted({k[0] for k in case["keys"] if k[0] != "other"}):
            items = [(tuple(pool[i] for i in k[1]), None) for k in case["keys"] if k[0] == s]
            try:
                sorted(items, key=lambda p: sp._universal_sort_key(*p[0]))
                raised = False
            except TypeError:
                raised = True
            ctx.count("old-sort-raises", raised)
            evs0 = [("T", k, 1) for k in case["keys"] if k[0] == s] + [("P", F(1), F(1))]
            terms.append("exec_observe 0 false %s (0#1)%%Q (0#1)%%Q %s" % (env.text, cevs(evs0)))
            meta.append(("old", ci, raised, env.clean, s))

    # malformed stream
    for mi_ in range(ctx.n(45, 600)):
        case = gen_case(rng, pool, malformed=True)
        used = {i for e in case["evs"] if e[0] != "P" for i in e[1][1]}
        env = Env(pool, used)
        for kind in range(3):
            d = drive(kind, case, pool, clock, classes, html_sink, stop_on_error=True)
            html_sink.clear()
            evs_all = case["evs"] + [("P",) + case["final"]]
            ctx.case(("malformed", mi_, kind))
            if d["error"]:
                i, exc, what = d["error"]
                code = ERRCODE.get(type(exc).__name__, 99)
                ctx.count("malformed-outcome", type(exc).__name__)
                terms.append("exec_observe %d true %s %s %s %s" % (kind, env.text, cq(case["mi"]), cq(case["start"]), cevs(evs_all[:i + 1])))
                meta.append(("mal-err", mi_, kind, code))
                if i > 0:
                    terms.append("firstn 1 (exec_observe %d true %s %s %s %s)" % (kind, env.text, cq(case["mi"]), cq(case["start"]), cevs(evs_all[:i])))
                    meta.append(("mal-err", mi_, kind, 0))
            else:
                ctx.count("malformed-outcome", "no exception")
                terms.append("exec_observe %d true %s %s %s %s" % (kind, env.text, cq(case["mi"]), cq(case["start"]), cevs(evs_all)))
                meta.append(("obs", ("mal", mi_), kind, d, env, {"malformed": True}))

    outs = core.coq_eval(header, terms, ty="list Z", shard=60)
    for mt, o in zip(meta, outs):
        if mt[0] == "busy":
            vals = [int(x) for x in re.findall(r"-?\d+", o)]
            ctx.compared("Progress.v busy/active/wf vs harness recomputation")
            if F(vals[0], vals[1]) != mt[2] or vals[2] != mt[3] or vals[3] != 1:
                ctx.broke("correspondence Progress.v busy/active/wf_evs vs generator", {"case": mt[1], "model": vals, "harness": [str(mt[2]), mt[3], 1]})
        elif mt[0] == "old":
            vals = [int(x) for x in re.findall(r"-?\d+", o)]
            ctx.compared("Render.v pre-fix sorted_scope_items raises vs sorted(key=_universal_sort_key)")
            model_raised = vals[0] == 4
            if model_raised != mt[2]:
                if mt[3]:
                    ctx.broke("correspondence Render.v sorted_scope_items(fixed=false) vs CPython sorted", {"case": mt[1], "section": mt[4], "model_raises": model_raised, "impl_raises": mt[2]})
                else:
                    ctx.count("old-sort-differs-on-partial-order", 1)
        elif mt[0] == "mal-err":
            vals = [int(x) for x in re.findall(r"-?\d+", o)]
            ctx.compared("Progress.v/Render.v error outcome on malformed sequences")
            if vals[0] != mt[3]:
                ctx.broke("correspondence (malformed sequence) model outcome vs implementation", {"case": mt[1], "kind": KN[mt[2]], "model": vals[:1], "impl_code": mt[3]})
        else:
            _, ci, kind, d, env, replay = mt
            compare_obs(ctx, ci, kind, KN[kind], d, env, parse_model(o), pool_index, replay)

    threaded(ctx, sp, pool, clock, classes, pool_index)
    sentinel(ctx, sp)
    perkey_witness(ctx, sp, clock, classes)
    cross_type_equal(ctx, clock, classes)


def check_last(ctx, kn, kind, renders, m, replay, soft=False):
    """the last rendering (per section for the console) shows the final counts"""
    if soft:
        class Soft:
            def fail(self, key, what, replay):
                ctx.count("console-late-total-not-reprinted (sequence not section-ordered)", 1)
        return check_last(Soft(), kn, kind, renders, m, replay)
    shown = {}
    for r in renders:
        if r is None:
            continue
        if kind != 0:
            shown = {}
        for sec, rows in r:
            shown[sec] = rows
    final = {}
    for (sec, sc), v in m.items():
        if sec in (0, 1):
            final.setdefault(sec, {})[sc] = v
    for sec, scopes in final.items():
        rows = shown.get(sec)
        if rows is None:
            ctx.fail("last-output:%s" % kn, "%s observer: section %d never rendered although it has counts" % (kn, sec), replay)
            continue
        got = {r[0]: r for r in rows if r[0] is not None}
        for sc, (c, f, ru, t, _) in scopes.items():
            r = got.get(sc)
            ok = r is not None and r[2] == c and r[5] == f and r[4] == t and (not r[1] or r[3] == ru)
            if ok and kind == 2 and len(r) > 7 and r[7]:
                ok = r[7][0] == t and r[7][1] == c + f          # the IPython bar itself: max = total, value = finished
            if not ok:
                ctx.fail("last-output:%s" % kn, "%s observer: last rendering shows %r for a scope whose final counts are completed=%d failed=%d running=%d total=%d"
                         % (kn, r, c, f, ru, t), replay)
                return


def compare_obs(ctx, ci, kind, kn, d, env, model, pool_index, replay):
    ctx.compared("Progress.v+Render.v observer run vs real %s observer" % kn)
    if d["error"]:
        if model["err"] == 0:
            ctx.broke("correspondence: implementation raised, model did not", {"case": ci, "kind": kn, "exception": repr(d["error"][1])})
        return
    if model["err"] != 0:
        ctx.broke("correspondence: model raised, implementation did not", {"case": ci, "kind": kn, "model_error": model["err"]})
        return
    obs = d["obs"]
    m, order = impl_state(obs, pool_index)
    mm = dict(model["mapping"])
    if mm != m:
        ctx.broke("correspondence Progress.v State vs real State (counters / exact elapsed)", {"case": ci, "kind": kn, "model": str(mm), "impl": str(m)})
    morder = {}
    for (sec, sc), _ in model["mapping"]:
        morder.setdefault(sec, []).append(sc)
    if morder != order:
        ctx.broke("correspondence Progress.v mapping insertion order", {"case": ci, "kind": kn})
    scal_m = (model["running_count"], model["nrs"], model["stale"], model["nexc"], model["newidx"], model["prev"])
    st = obs._state
    stale = getattr(obs, "_stale", None)
    stale = stale.is_set() if hasattr(stale, "is_set") else stale
    scal_i = (st.running_count, len(st._running_scope_states), None if stale is None else int(stale), len(obs._exception_tuples),
              obs._new_exception_index, F(st._prev_time))
    if scal_m != scal_i:
        ctx.broke("correspondence Progress.v observer scalars (running_count, |running set|, stale, exceptions, new index, prev_time)",
                  {"case": ci, "kind": kn, "model": str(scal_m), "impl": str(scal_i)})
    if kind == 0 and model["skipped"] != sorted(SEC[s] for s in obs._skipped_sections):
        ctx.broke("correspondence Render.v console skipped sections", {"case": ci, "model": model["skipped"]})
    impl_outs = [r for r in d["renders"] if r is not None]
    mouts = [model_rows(kind, o) for o in model["outs"]]
    if len(impl_outs) != len(mouts):
        ctx.broke("correspondence Progress.v do_render decisions (which render points produce output)",
                  {"case": ci, "kind": kn, "model": len(mouts), "impl": len(impl_outs)})
        return
    for a, b in zip(mouts, impl_outs):
        if env.clean:
            same = a == b
        else:
            same = [(s, sorted(r, key=repr)) for s, r in a] == [(s, sorted(r, key=repr)) for s, r in b]
        if not same:
            ctx.broke("correspondence Render.v rows vs real %s output" % kn, {"case": ci, "model": str(a), "impl": str(b), "exact_order": env.clean})
            return


# ------------------------------------------------------------------------------------------------
def lookalikes(ctx, clock, classes):
    """Scopes that are unequal but print the same ((7,) / ("7",); ("a, b",) / ("a", "b")) are different scopes: the last
    rendering of every display shows one row per scope, each with its own final counts."""
    KN = ["console", "html", "ipython"]
    pairs = [((7,), ("7",)), (("a, b",), ("a", "b")), ((None,), ("None",)), ((1.0,), ("1.0",))]
    for pi, (sa, sb) in enumerate(pairs):
        for kind in range(3):
            for sec in ("run", "stale"):
                clock.auto, clock.log = F(0), []
                sink, stdout = [], io.StringIO()
                obs = make_obs(kind, F(0), classes, sink, delay=0.0005)
                ctx.case(("lookalike", pi, kind, sec))
                with contextlib.redirect_stdout(stdout):
                    obs.__enter__()
                    try:
                        obs.increment_total(section=sec, scope=sa, amount=2)
                        obs.increment_total(section=sec, scope=sb, amount=3)
                        for sc, n in ((sa, 2), (sb, 3)):
                            for _ in range(n):
                                obs.increment_running(section=sec, scope=sc)
                                obs.increment_completed(section=sec, scope=sc)
                            realtime.sleep(0.003)
                    finally:
                        obs.__exit__(None, None, None)
                names = {(SEC[sec], scope_str(sa)): 0}
                try:
                    if kind == 0:
                        chunks = re.split(r"(?m)^(?=uberjob, elapsed )", stdout.getvalue())
                        renders = [parse_console(c, names) for c in chunks if c.startswith("uberjob, elapsed")]
                    elif kind == 1:
                        renders = [parse_html(b, names) for b in sink]
                    else:
                        renders = [parse_ipy(obs, names)] if obs._widget_cache else []
                    rows = []
                    for rnd in renders:          # the console prints a finished section once: take its last appearance
                        rr_ = [r for s_, rr in rnd for r in rr if r[0] == 0]
                        if rr_ or kind != 0:
                            rows = rr_
                    shown = sorted((r[2], r[4]) for r in rows)
                except Exception as e:      # noqa
                    shown = "unparsable: %s: %s" % (type(e).__name__, e)
                if shown != [(2, 2), (3, 3)]:
                    ctx.fail("lookalike-scopes:%s" % KN[kind], "%s observer: scopes %r and %r (same printed form) with final counts 2/2 and 3/3 "
                             "are shown as %r in the last rendering" % (KN[kind], sa, sb, shown),
                             {"kind": KN[kind], "section": sec, "scopes": [repr(sa), repr(sb)], "shown": repr(shown)})
    clock.auto = None


def many_failures(ctx, clock, classes):
    """more failures than the display keeps tracebacks for (128): the counts keep being rendered, also for failures that
    arrive after a rendering that showed them still running"""
    KN = ["console", "html", "ipython"]
    for kind in range(3):
        for nfail in (127, 128, 129, 134):
            clock.auto, clock.log = F(0), []
            sink, stdout = [], io.StringIO()
            obs = make_obs(kind, F(10 ** 9), classes, sink, delay=0.0005)    # renders only when something changed
            sc = ("many",)
            ctx.case(("many-failures", kind, nfail))
            with contextlib.redirect_stdout(stdout):
                obs.__enter__()
                try:
                    obs.increment_total(section="run", scope=sc, amount=nfail)
                    for i in range(nfail - 4):
                        obs.increment_running(section="run", scope=sc)
                        obs.increment_failed(section="run", scope=sc, exception=mk_exc(i))
                    realtime.sleep(0.01)
                    for i in range(4):
                        obs.increment_running(section="run", scope=sc)
                    realtime.sleep(0.02)               # a rendering shows the last four running
                    for i in range(4):                 # ... and the run ends with their failures
                        obs.increment_failed(section="run", scope=sc, exception=mk_exc(nfail - 4 + i))
                finally:
                    obs.__exit__(None, None, None)
            names = {(SEC["run"], scope_str(sc)): 0}
            try:
                if kind == 0:
                    chunks = re.split(r"(?m)^(?=uberjob, elapsed )", stdout.getvalue())
                    renders = [parse_console(c, names) for c in chunks if c.startswith("uberjob, elapsed")]
                elif kind == 1:
                    renders = [parse_html(b, names) for b in sink]
                else:
                    renders = [parse_ipy(obs, names)] if obs._widget_cache else []
                rows = []
                for rnd in renders:
                    rr_ = [r for s_, rr in rnd for r in rr if r[0] == 0]
                    if rr_ or kind != 0:
                        rows = rr_
                shown = [(r[2], r[5], r[4]) for r in rows]
            except Exception as e:      # noqa
                shown = "unparsable: %s: %s" % (type(e).__name__, e)
            if shown != [(0, nfail, nfail)]:
                ctx.fail("many-failures:%s" % KN[kind], "%s observer: %d failed of %d; the last rendering shows (completed, failed, total) = %r"
                         % (KN[kind], nfail, nfail, shown), {"kind": KN[kind], "failures": nfail, "shown": repr(shown)})
    clock.auto = None


def unusual_exceptions(ctx, clock, classes):
    """failures whose exception objects are unhashable (a dataclass with eq), falsy, or have a raising __str__ are rendered
    like any other: the update thread survives and the last rendering shows the final counts"""
    import dataclasses
    KN = ["console", "html", "ipython"]

    @dataclasses.dataclass(eq=True)
    class RowError(Exception):
        rows: list

    class Falsy(Exception):
        def __bool__(self):
            return False

    class BadStr(Exception):
        def __str__(self):
            raise RuntimeError("no message")

    def raised(e):
        try:
            raise e
        except Exception as x:
            return x
    for kind in range(3):
        for mk in (lambda: RowError([1, 2]), lambda: Falsy("f"), lambda: BadStr("b")):
            clock.auto, clock.log = F(0), []
            sink, stdout = [], io.StringIO()
            obs = make_obs(kind, F(10 ** 9), classes, sink, delay=0.0005)
            died = []
            hook, threading.excepthook = threading.excepthook, (lambda a: died.append(a))
            sc = ("odd",)
            exc = raised(mk())
            try:
                with contextlib.redirect_stdout(stdout):
                    obs.__enter__()
                    try:
                        obs.increment_total(section="run", scope=sc, amount=2)
                        obs.increment_running(section="run", scope=sc)
                        obs.increment_failed(section="run", scope=sc, exception=exc)
                        realtime.sleep(0.01)
                        obs.increment_running(section="run", scope=sc)
                        obs.increment_failed(section="run", scope=sc, exception=raised(mk()))
                    finally:
                        obs.__exit__(None, None, None)
            finally:
                threading.excepthook = hook
            ctx.case(("unusual-exception", kind, type(exc).__name__))
            names = {(SEC["run"], scope_str(sc)): 0}
            try:
                if kind == 0:
                    chunks = re.split(r"(?m)^(?=uberjob, elapsed )", stdout.getvalue())
                    renders = [parse_console(c, names) for c in chunks if c.startswith("uberjob, elapsed")]
                elif kind == 1:
                    renders = [parse_html(b, names) for b in sink]
                else:
                    renders = [parse_ipy(obs, names)] if obs._widget_cache else []
                rows = []
                for rnd in renders:
                    rr_ = [r for s_, rr in rnd for r in rr if r[0] == 0]
                    if rr_ or kind != 0:
                        rows = rr_
                shown = [(r[2], r[5], r[4]) for r in rows]
            except Exception as e:      # noqa
                shown = "unparsable: %s: %s" % (type(e).__name__, e)
            if died or shown != [(0, 2, 2)]:
                ctx.fail("unusual-exception:%s" % KN[kind], "%s observer, two failures carrying a %s object: %s; last rendering shows (completed, failed, total) = %r"
                         % (KN[kind], type(exc).__name__, "the update thread died with %s" % died[0].exc_type.__name__ if died else "thread alive", shown),
                         {"kind": KN[kind], "exception": type(exc).__name__})
    clock.auto = None


def reused_progress(ctx, clock):
    """a Progress object (console, html, a composite of them) kept by the caller and passed to run() twice renders both runs:
    the last rendering of the second run shows the second run's counts"""
    import uberjob
    from uberjob.progress import console_progress, html_progress, composite_progress
    clock.auto, clock.log = F(0), []
    pages = []
    html = html_progress(pages.append)
    for name, prog in (("console", console_progress), ("composite(console, html)", composite_progress(console_progress, html)), ("html", html)):
        outs = []
        for k in (1, 2):
            plan = uberjob.Plan()
            with plan.scope("run%d" % k):
                xs = [plan.call(lambda i=i: i) for i in range(k + 1)]
            del pages[:]
            buf = io.StringIO()
            with contextlib.redirect_stdout(buf):
                uberjob.run(plan, output=xs, progress=prog, max_workers=1)
            outs.append((buf.getvalue(), [p_.decode() for p_ in pages]))
        ctx.case(("reused-progress", name))
        text, pg = outs[1]
        want = "%d / %d" % (3, 3)
        shown = (want in text and "run2" in text) if "console" in name else True
        shown_html = (any(want in x and "run2" in x for x in pg[-1:])) if "html" in name else True
        if not (shown and shown_html):
            ctx.fail("reused-progress", "%s kept by the caller and used for a second run: the second run's last rendering does not show its counts (3 / 3 in scope run2); "
                     "console printed %d characters, html pages written %d" % (name, len(text), len(pg)), {"progress": name})
    clock.auto = None


def lock_window(ctx, clock, classes):
    """The update thread may win the observer's lock at ANY moment - in particular just before a notification takes it.  Whatever
    it rendered then, the rendering made when the run ends must show the state after that notification.  (The update thread's
    iteration is performed by the harness at exactly that moment: `with lock: _do_render()`, then `_output`.)"""
    KN = ["console", "html", "ipython"]
    for kind in range(3):
        for finish in ("completed", "failed"):
            for window_at in ("every", "last"):
                clock.auto, clock.log = F(0), []
                sink, stdout = [], io.StringIO()
                obs = make_obs(kind, F(10 ** 6), classes, sink, delay=1000)
                real = obs._lock
                armed = [window_at == "every"]

                class Window:
                    def __enter__(self):
                        if armed[0]:
                            with real:
                                out = obs._do_render()
                            if out is not None:
                                obs._output(out)
                        real.acquire()

                    def __exit__(self, *a):
                        real.release()
                        return False
                names = {(SEC["run"], "f"): (0,)}
                replay = {"kind": KN[kind], "finish": finish, "update_thread_renders_just_before": window_at + " notification",
                          "max_update_interval": 10 ** 6}
                ctx.case(("lock-window", kind, finish, window_at))
                try:
                    with contextlib.redirect_stdout(stdout):
                        obs._lock = Window()
                        obs.increment_total(section="run", scope=("f",), amount=1)
                        obs.increment_running(section="run", scope=("f",))
                        armed[0] = True
                        if finish == "completed":
                            obs.increment_completed(section="run", scope=("f",))
                        else:
                            obs.increment_failed(section="run", scope=("f",), exception=mk_exc(1))
                        obs._lock = real
                        with real:                       # the last iteration of the update thread, after __exit__ set the event
                            out = obs._do_render()
                        if out is not None:
                            obs._output(out)
                except Exception as e:      # noqa
                    ctx.fail("lock-window:raised", "%s observer raised %s: %s when the update thread rendered just before a notification" % (KN[kind], type(e).__name__, e), replay)
                    continue
                if kind == 0:
                    chunks = re.split(r"(?m)^(?=uberjob, elapsed )", stdout.getvalue())
                    renders = [parse_console(c, names) for c in chunks if c.startswith("uberjob, elapsed")]
                elif kind == 1:
                    renders = [parse_html(b, names) for b in sink]
                else:
                    renders = [parse_ipy(obs, names)] if obs._widget_cache else []
                want = (1, 0, 0, 1) if finish == "completed" else (0, 1, 0, 1)
                m = {(SEC["run"], (0,)): want + (F(0),)}
                st_ = obs._state.section_scope_mapping.get("run", {}).get(("f",))
                if st_ is None or (st_.completed, st_.failed, st_.running, st_.total) != want:
                    ctx.fail("lock-window:state", "%s observer: the counts after total/running/%s are wrong" % (KN[kind], finish), replay)
                    continue
                if not renders:
                    ctx.fail("last-output:%s" % KN[kind], "%s observer: nothing was rendered" % KN[kind], replay)
                    continue
                check_last(ctx, KN[kind], kind, renders, m, replay)
    clock.auto = None


def threaded(ctx, sp, pool, clock, classes, pool_index):
    lock_window(ctx, clock, classes)
    reused_progress(ctx, clock)
    unusual_exceptions(ctx, clock, classes)
    lookalikes(ctx, clock, classes)
    many_failures(ctx, clock, classes)
    slow_sink(ctx, sp, pool, clock, classes, pool_index)
    foreign_writer(ctx, sp, pool, clock, classes, pool_index)
    _threaded(ctx, sp, pool, clock, classes, pool_index)


def _threaded(ctx, sp, pool, clock, classes, pool_index):
    """The real update thread with tiny intervals: it must survive, and the last output must show the final counts."""
    rng = ctx.rng
    KN = ["console", "html", "ipython"]
    errors = []
    old_hook = threading.excepthook
    threading.excepthook = lambda a: errors.append(a)
    try:
        for ti in range(ctx.n(14, 120)):
            case = gen_case(rng, pool)
            case["evs"] = [e for e in case["evs"] if e[0] != "P"]
            # a complete run: finish whatever is running
            for kind in range(3):
                clock.auto, clock.log = F(0), []
                sink, stdout = [], io.StringIO()
                obs = make_obs(kind, F(rng.choice([0, 1, 3])), classes, sink, delay=rng.choice([0.0005, 0.002]))
                names = names_of(pool, case["keys"])
                main = threading.get_ident()
                del errors[:]
                changes = []
                with contextlib.redirect_stdout(stdout):
                    obs.__enter__()
                    try:
                        for i, e in enumerate(case["evs"]):
                            sc = tuple(pool[j] for j in e[1][1])
                            if e[0] == "T":
                                obs.increment_total(section=e[1][0], scope=sc, amount=e[2])
                            elif e[0] == "R":
                                changes.append(1)
                                obs.increment_running(section=e[1][0], scope=sc)
                            elif e[0] == "C":
                                changes.append(-1)
                                obs.increment_completed(section=e[1][0], scope=sc)
                            else:
                                changes.append(-1)
                                obs.increment_failed(section=e[1][0], scope=sc, exception=mk_exc(i))
                            if rng.random() < 0.35:
                                realtime.sleep(rng.choice([0.0005, 0.002, 0.004]))
                    finally:
                        obs.__exit__(None, None, None)
                replay = {"kind": KN[kind], "threaded": True, "events": [[e[0]] + [str(x) for x in e[1:]] for e in case["evs"]],
                          "values": {str(i): repr(pool[i]) for k in case["keys"] for i in k[1]}}
                ctx.case(("threaded", ti, kind))
                ctx.count("threaded-renders:" + KN[kind], min(len(sink) if kind == 1 else stdout.getvalue().count("uberjob, elapsed") if kind == 0 else int(bool(obs._widget_cache)), 9))
                if errors:
                    a = errors[0]
                    key = "unorderable-scope" if a.exc_type is TypeError else "update-thread-died:%s" % a.exc_type.__name__
                    replay["exception"] = "%s: %s" % (a.exc_type.__name__, a.exc_value)
                    ctx.fail(key, "%s observer: the update thread died with %s; the display stopped updating" % (KN[kind], replay["exception"]), replay)
                    continue
                m, _ = impl_state(obs, pool_index)
                if kind == 0:
                    chunks = re.split(r"(?m)^(?=uberjob, elapsed )", stdout.getvalue())
                    renders = [parse_console(c, names) for c in chunks if c.startswith("uberjob, elapsed")]
                elif kind == 1:
                    renders = [parse_html(b, names) for b in sink]
                else:
                    renders = [parse_ipy(obs, names)] if obs._widget_cache else []
                if not renders:
                    ctx.fail("last-output:%s" % KN[kind], "%s observer: nothing was rendered by the update thread" % KN[kind], replay)
                # (totals announced after the section already showed as done are outside what a run produces: see gen_case 'so')
                check_last(ctx, KN[kind], kind, renders, m, replay, soft=(kind == 0 and not case["so"]))
                # elapsed: replay the clock log
                busy, last, active, ch = F(0), None, 0, list(changes)
                for t, who, tid in clock.log:
                    if who == "__init__":
                        last = t
                    elif who == "update_weighted_elapsed":
                        if active > 0:
                            busy += t - last
                        last = t
                        if tid == main:
                            active += ch.pop(0)
                tot = sum((v[4] for v in m.values()), F(0))
                if tot != busy:
                    ctx.fail("elapsed-sum", "%s observer (threaded): elapsed sums to %s, time with a call running is %s" % (KN[kind], tot, busy), replay)
    finally:
        threading.excepthook = old_hook
        clock.auto = None


def slow_sink(ctx, sp, pool, clock, classes, pool_index):
    """The run finishes while a periodic rendering is still being written (slow HTML target / blocked stdout):
    the update loop must still emit one more rendering after `done`, so the last output shows the final counts."""
    rng = ctx.rng
    C, H, I = classes
    for ti in range(ctx.n(6, 40)):
        case = gen_case(rng, pool)
        evs = [e for e in case["evs"] if e[0] != "P"]
        tot = [e for e in evs if e[0] == "T"]
        rest = [e for e in evs if e[0] != "T"]
        if not tot or not rest:
            continue
        clock.auto, clock.log = F(0), []
        sink, entered, release = [], threading.Event(), threading.Event()

        def out(b):
            first = not sink
            sink.append(b)
            if first:
                entered.set()
                release.wait(2.0)       # the first rendering is "being written" while the run goes on and finishes

        obs = H(out, initial_update_delay=0.0005, min_update_interval=0.0005, max_update_interval=F(3))
        names = names_of(pool, case["keys"])
        obs.__enter__()
        try:
            for e in tot:
                obs.increment_total(section=e[1][0], scope=tuple(pool[j] for j in e[1][1]), amount=e[2])
            entered.wait(2.0)
            for i, e in enumerate(rest):
                sc = tuple(pool[j] for j in e[1][1])
                if e[0] == "R":
                    obs.increment_running(section=e[1][0], scope=sc)
                elif e[0] == "C":
                    obs.increment_completed(section=e[1][0], scope=sc)
                else:
                    obs.increment_failed(section=e[1][0], scope=sc, exception=mk_exc(i))
            t = threading.Timer(0.02, release.set)     # __exit__ sets done while the first write is still blocked
            t.start()
        finally:
            obs.__exit__(None, None, None)
        replay = {"kind": "html", "slow_sink": True, "events": [[e[0]] + [str(x) for x in e[1:]] for e in evs],
                  "values": {str(i): repr(pool[i]) for k in case["keys"] for i in k[1]}, "renderings": len(sink)}
        ctx.case(("slow-sink", ti))
        m, _ = impl_state(obs, pool_index)
        renders = [parse_html(b, names) for b in sink]
        check_last(ctx, "html", 1, renders, m, replay)
    clock.auto = None


def foreign_writer(ctx, sp, pool, clock, classes, pool_index):
    """Pages may take long to write, and a page written by a thread OTHER than the observer's update thread (if the implementation ever
    lets a notifying thread write one) may be overtaken by a newer page: the page written LAST must still show the final counts.  The
    HTML target here is slow exactly for pages delivered by foreign threads, until a newer page has come in (at most 0.4 s)."""
    C, H, I = classes
    for by_worker in ("failed", "completed", "running then failed"):
        for rep_ in range(2):
            clock.auto, clock.log = F(0), []
            sink, lock = [], threading.Lock()
            foreign_entered, newer_in = threading.Event(), threading.Event()
            upd = []

            def out(b):
                me = threading.current_thread()
                is_upd = bool(upd) and me is upd[0]
                if upd and not is_upd and upd[0].is_alive():
                    foreign_entered.set()
                    newer_in.wait(0.4)
                with lock:
                    sink.append(b)
                if is_upd and foreign_entered.is_set():
                    newer_in.set()
            obs = H(out, initial_update_delay=0.01, min_update_interval=0.01, max_update_interval=F(3600))
            v = pool[0]
            scope = (v,)
            obs.__enter__()
            try:
                upd.append(obs._thread)
                obs.increment_total(section="run", scope=scope, amount=2)
                obs.increment_running(section="run", scope=scope)
                if by_worker != "running then failed":
                    obs.increment_running(section="run", scope=scope)

                def work():
                    if by_worker == "running then failed":
                        obs.increment_running(section="run", scope=scope)
                    if by_worker == "completed":
                        obs.increment_completed(section="run", scope=scope)
                    else:
                        obs.increment_failed(section="run", scope=scope, exception=mk_exc(1))
                w = threading.Thread(target=work)
                w.start()
                for _ in range(100):
                    if foreign_entered.is_set() or not w.is_alive():
                        break
                    w.join(0.005)
                obs.increment_completed(section="run", scope=scope)
                w.join(5)
            finally:
                obs.__exit__(None, None, None)
            replay = {"kind": "html", "pages_from_foreign_threads_are_slow": True, "notification_from_a_worker_thread": by_worker, "renderings": len(sink)}
            ctx.case(("foreign-writer", by_worker, rep_))
            ctx.count("foreign_writer_pages_from_notifying_threads", int(foreign_entered.is_set()))
            m, _ = impl_state(obs, pool_index)
            renders = [parse_html(b, names_of(pool, [("run", (0,))])) for b in sink]
            check_last(ctx, "html", 1, renders, m, replay)
    clock.auto = None


def sentinel(ctx, sp):
    """the model is written against this shape of SimpleProgressObserver / State"""
    import inspect
    src = inspect.getsource(sp.SimpleProgressObserver._run_update_thread)
    need = ["while not done", "self._done_event.wait(", "with self._lock:", "self._do_render()", "self._output(output_value)"]
    miss = [n for n in need if n not in src]
    src2 = inspect.getsource(sp.SimpleProgressObserver.__exit__)
    if "self._done_event.set()" not in src2 or "self._thread.join()" not in src2:
        miss.append("__exit__: set done, join thread")
    if miss:
        ctx.broke("sentinel _run_update_thread/__exit__ shape", miss)


def cross_type_equal(ctx, clock, classes):
    """Values that are equal across types (True == 1 == 1.0) share a dict key; outside the model's value table, so only the
    monitor runs: no renderer may raise."""
    scopes = [(True, "x"), (1, "y"), (1.0, 2), (0,), (False, 2), (1,), (True,), (0.0, "x"), (1 + 0j,)]
    for kind in range(3):
        clock.set([F(0)])
        obs = make_obs(kind, F(0), classes, [])
        try:
            for i, sc in enumerate(scopes):
                obs.increment_total(section="run", scope=sc, amount=1)
            for i, sc in enumerate(scopes[:4]):
                clock.set([F(i + 1)])
                obs.increment_running(section="run", scope=sc)
                clock.set([F(i + 1), F(i + 1)])
                with contextlib.redirect_stdout(io.StringIO()):
                    with obs._lock:
                        obs._do_render()
        except Exception as exc:  # noqa
            ctx.fail("unorderable-scope" if isinstance(exc, TypeError) else "render-raises:cross-type:%s" % type(exc).__name__,
                     "observer %d raised %r on scopes with cross-type-equal values" % (kind, exc), {"scopes": repr(scopes), "kind": kind})
        ctx.case(("cross-type-equal", kind))


def perkey_witness(ctx, sp, clock, classes):
    """The witness of C20_last_render_final_console_perkey_refuted replayed on the real console observer: a total announced
    for a section that was already printed complete is not shown by the final rendering."""
    clock.set([F(0)])
    obs = make_obs(0, F(0), classes, [])
    outs = []

    def render(t):
        clock.set([t, t])
        with obs._lock:
            o = obs._do_render()
        if o is not None:
            outs.append(o)
    obs.increment_total(section="stale", scope=(1,), amount=1)
    clock.set([F(1)]); obs.increment_running(section="stale", scope=(1,))
    clock.set([F(2)]); obs.increment_completed(section="stale", scope=(1,))
    render(F(3))
    obs.increment_total(section="stale", scope=(2,), amount=1)
    clock.set([F(4)]); obs.increment_running(section="stale", scope=(2,))
    clock.set([F(5)]); obs.increment_completed(section="stale", scope=(2,))
    render(F(6))
    last = [o for o in outs if "stale:" in o][-1]
    ctx.case(("perkey-witness",))
    ctx.compared("witness of C20_last_render_final_console_perkey_refuted on the real console observer")
    if "| 2" in last:
        ctx.broke("witness of C20_last_render_final_console_perkey_refuted no longer reproduces (the console re-printed the section)", last)
