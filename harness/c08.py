import core, cache_corr
RULE = "see C05"
TRUSTED_BASE = []
def run(ctx):
    camp = cache_corr.Campaign(ctx)
    cache_corr.history_campaign(ctx, camp, ctx.n(60, 1200), ctx.n(6, 8))
    camp.eval_model()
    camp.file({"C08"})
