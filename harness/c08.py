import core, cache_corr
RULE = ("random worlds x histories (see C05) with runs cut at the k-th operation (call, read, write before/after effect, modified-time query; "
        "max_errors 0/1/None, 1 or 3 workers), then the monitors 'looks up to date => equals scratch', repair run, no needless rebuild; "
        "file-backed stores: a 3-call plan with Json/Text/Pickle/Binary stores, os._exit before/after EVERY file operation of the run (fresh state and after a source update), then the repairing run")
TRUSTED_BASE = ["harness/cache_corr.py worlds and fault injection", "harness/c11_common.Injector (file-operation counting, os._exit in a forked child)"]
def run(ctx):
    import cache_files
    # a value written completely is not recomputed by the next run: also when it is REwritten (with the same or another content)
    cache_files.rebuild_then_repeat(ctx, lambda key, what, replay: ctx.fail(key, what, replay))
    failing_sibling_write_in_flight(ctx)
    mounted_streaming_write_fails(ctx)
    disk_full(ctx)
    camp = cache_corr.Campaign(ctx)
    cache_corr.history_campaign(ctx, camp, ctx.n(60, 1200), ctx.n(6, 8))
    camp.eval_model()
    camp.file({"C08"})
    import c08_files
    c08_files.run_files(ctx)      # file-backed stores: process death at every file operation, then the repairing run


def _clock():
    import datetime as dt
    import itertools
    c = itertools.count(1)
    return lambda: dt.datetime(2020, 1, 1) + dt.timedelta(seconds=next(c))


def failing_sibling_write_in_flight(ctx):
    """The run is cut short by a call failing (error limit exceeded) while a sibling's store write is still executing on another
    worker.  When run raises nothing of that run may still be in flight: a source update made right afterwards is newer than
    everything the cut run wrote, and the repairing run leaves from-scratch values - also after waiting for stragglers."""
    import threading
    import time
    uj = core.use_repo()
    for workers, max_errors, duration in ((2, 0, 0.5), (4, 0, 1.3), (3, 1, 0.5)):
        now = _clock()
        writing = threading.Event()

        class Mem(uj.ValueStore):
            def __init__(self, v=None, slow=False):
                self.v, self.t, self.slow, self.in_flight, self.writes = v, (now() if v is not None else None), slow, False, []

            def read(self):
                return self.v

            def write(self, v):
                self.in_flight = True
                if self.slow:
                    writing.set()
                    time.sleep(duration)
                self.v, self.t = v, now()
                self.writes.append(v)
                self.in_flight = False

            def get_modified_time(self):
                return self.t
        src, a_st, b_st = Mem(10), Mem(slow=True), Mem()
        plan, reg = uj.Plan(), uj.Registry()
        s_ = reg.source(plan, src)
        a = plan.call(lambda v: v * 2, s_)
        reg.add(a, a_st)
        b = plan.call(lambda v: v + 1, a)
        reg.add(b, b_st)
        fail = [True]

        def flaky(v):
            writing.wait(5)          # fails while a's store write is in flight
            time.sleep(0.05)
            if fail[0]:
                raise RuntimeError("flaky")
            return v
        f1 = plan.call(flaky, s_)
        f2 = plan.call(flaky, s_)
        try:
            core.call_watched(lambda: uj.run(plan, registry=reg, output=[b, f1, f2], max_workers=workers, max_errors=max_errors, progress=None), timeout=30)
            first = "returned"
        except uj.CallError:
            first = "callerror"
        except core.Hang:
            first = "hang"
        still = a_st.in_flight or b_st.in_flight
        src.v, src.t = 50, now()            # the source is updated right after the cut run
        fail[0] = False
        a_st.slow = False
        try:
            got = core.call_watched(lambda: uj.run(plan, registry=reg, output=b, max_workers=1, progress=None), timeout=30)
        except BaseException as e:      # noqa
            got = "raised %s" % type(e).__name__
        time.sleep(duration + 0.3)          # anything the cut run still had in flight has landed by now
        try:
            again = core.call_watched(lambda: uj.run(plan, registry=reg, output=b, max_workers=1, progress=None), timeout=30)
        except BaseException as e:      # noqa
            again = "raised %s" % type(e).__name__
        ctx.case(("c08-failing-sibling-write-in-flight", workers, max_errors, duration))
        if first != "callerror" or still or got != 101 or again != 101 or a_st.v != 100 or b_st.v != 101:
            ctx.fail("cut-by-failure:write-in-flight", "a call failed while a sibling's store write (lasting %.1f s) was in flight (max_workers=%d, max_errors=%r): the run %s; "
                     "a write of it was still in flight when it ended: %s; after a source update the repairing run returned %r, a later run %r, stores hold %r / %r "
                     "(from scratch: 101, 101, 100 / 101); values written to the first store in order: %r"
                     % (duration, workers, max_errors, first, still, got, again, a_st.v, b_st.v, a_st.writes),
                     {"max_workers": workers, "max_errors": max_errors, "write_lasts_seconds": duration})


def mounted_streaming_write_fails(ctx):
    """A MountedStore over a store that streams rows straight into the local path and fails part-way: the failed write must not
    publish the partial file, so the next run does not take it for an up-to-date value."""
    import json
    uj = core.use_repo()
    from uberjob.stores._mounted_store import MountedStore
    for fail_after in (0, 1, 3, 5):
        for pre_existing in (False, True):
            now = _clock()

            class Rows(uj.ValueStore):
                fail = True

                def __init__(self, path):
                    self.path = path

                def read(self):
                    with open(self.path) as f:
                        return [json.loads(line) for line in f]

                def write(self, rows):
                    with open(self.path, "w") as f:
                        for i, r in enumerate(rows):
                            if Rows.fail and i == fail_after:
                                raise OSError("disk full after %d rows" % i)
                            f.write(json.dumps(r) + "\n")
                            f.flush()

                def get_modified_time(self):
                    return None

            class Remote(MountedStore):
                def __init__(self):
                    super().__init__(Rows)
                    self.blob, self.t, self.pushes = None, None, 0

                def copy_from_local(self, local_path):
                    with open(local_path, "rb") as f:
                        self.blob = f.read()
                    self.t = now()
                    self.pushes += 1

                def copy_to_local(self, local_path):
                    with open(local_path, "wb") as f:
                        f.write(self.blob)

                def get_modified_time(self):
                    return self.t

            class Mem(uj.ValueStore):
                def __init__(self, v=None):
                    self.v, self.t = v, (now() if v is not None else None)

                def read(self):
                    return self.v

                def write(self, v):
                    self.v, self.t = v, now()

                def get_modified_time(self):
                    return self.t
            remote, total_st = Remote(), Mem()
            src = Mem(6)
            plan, reg = uj.Plan(), uj.Registry()
            s_ = reg.source(plan, src)
            rows = plan.call(lambda n: list(range(1, n + 1)), s_)
            reg.add(rows, remote)
            total = plan.call(sum, rows)
            reg.add(total, total_st)
            Rows.fail = False
            if pre_existing:
                src.v = 3
                uj.run(plan, registry=reg, output=total, progress=None)      # an older complete value is in place
                src.v, src.t = 6, now()
            before = (remote.blob, remote.t)
            Rows.fail = True
            try:
                uj.run(plan, registry=reg, output=total, progress=None, max_workers=1)
                first = "returned"
            except uj.CallError:
                first = "callerror"
            after_cut = (remote.blob, remote.t)
            Rows.fail = False
            try:
                got = uj.run(plan, registry=reg, output=total, progress=None, max_workers=1)
            except BaseException as e:      # noqa
                got = "raised %s" % type(e).__name__
            ctx.case(("c08-mounted-streaming-write-fails", fail_after, pre_existing))
            stored = None if remote.blob is None else [json.loads(x) for x in remote.blob.decode().splitlines()]
            if first != "callerror" or after_cut != before or got != 21 or stored != [1, 2, 3, 4, 5, 6] or total_st.v != 21:
                ctx.fail("cut-by-failure:mounted-partial-published", "a MountedStore whose underlying write failed after %d of 6 rows (%s): the run %s; the mounted location "
                         "%s by the failed write; the next run returned %r (from scratch: 21) and the location holds %r"
                         % (fail_after, "an older complete value was in place" if pre_existing else "nothing stored before", first,
                            "was changed" if after_cut != before else "was left alone", got, stored),
                         {"fail_after_rows": fail_after, "pre_existing": pre_existing})


DISK_FULL_CHILD = r'''
import json, os, resource, signal, sys, tempfile, shutil, pathlib
import uberjob
import uberjob.stores as st
signal.signal(signal.SIGXFSZ, signal.SIG_IGN)
out = []
# (limit, size of the values): 8192 / large values fail in the middle of the store's write; 1024 / values smaller than the io buffer fail
# only when the buffered tail is flushed, at close
for limit, n in ((8192, 40000), (1024, 3000), (1024, 1500)):
    for kind, cls, mk in (("text", st.TextFileStore, lambda c, k: c * k), ("binary", st.BinaryFileStore, lambda c, k: c.encode() * k),
                          ("json", st.JsonFileStore, lambda c, k: [c * k]), ("pickle", st.PickleFileStore, lambda c, k: (c * k, k))):
        for pk in ("str", "pathlib"):
            d = tempfile.mkdtemp(prefix="ujc08full_")
            try:
                P = (lambda x: pathlib.Path(os.path.join(d, x))) if pk == "pathlib" else (lambda x: os.path.join(d, x))
                plan, reg = uberjob.Plan(), uberjob.Registry()
                a = plan.call(mk, "a", n)
                b = plan.call(lambda x: (len(x), x[-1]), a)
                sa, sb = cls(P("a.dat")), st.JsonFileStore(P("b.json"))
                reg.add(a, sa)
                reg.add(b, sb)
                want_a, want_b = mk("a", n), [len(mk("a", n)), json.loads(json.dumps((mk("a", n)[-1] if kind != "binary" else mk("a", n)[-1])))]
                resource.setrlimit(resource.RLIMIT_FSIZE, (limit, resource.RLIM_INFINITY))
                try:
                    uberjob.run(plan, registry=reg, output=b, progress=None, max_workers=1)
                    oc = "returned"
                except uberjob.CallError as e:
                    oc = "callerror"
                except BaseException as e:
                    oc = "raised %s" % type(e).__name__
                finally:
                    resource.setrlimit(resource.RLIMIT_FSIZE, (resource.RLIM_INFINITY, resource.RLIM_INFINITY))
                listing1 = sorted(os.listdir(d))
                try:
                    res = uberjob.run(plan, registry=reg, output=b, progress=None, max_workers=1)
                    oc2 = "ok"
                except BaseException as e:
                    oc2, res = "raised %s: %s" % (type(e).__name__, str(e).splitlines()[0]), None
                def rd(s_):
                    try:
                        return s_.read() if s_.get_modified_time() is not None else "<nothing stored>"
                    except BaseException as e:
                        return "<read raises %s>" % type(e).__name__
                got_a, got_b = rd(sa), rd(sb)
                out.append({"limit": limit, "n": n, "store": kind, "path": pk, "cut_run": oc, "after_cut": listing1, "repair": oc2,
                            "a_ok": got_a == want_a, "a_len": len(got_a[0]) if isinstance(got_a, (list, tuple)) else len(got_a),
                            "b": repr(got_b), "b_ok": list(got_b) == list(want_b) if isinstance(got_b, (list, tuple)) else False, "out": repr(res),
                            "out_ok": res is not None and list(res) == list(want_b), "want_b": repr(want_b)})
            finally:
                shutil.rmtree(d, ignore_errors=True)
print(json.dumps({"uberjob": os.path.dirname(uberjob.__file__), "out": out}))
'''


def disk_full(ctx):
    """The run is cut short by the file system refusing data (a file-size limit, a quota, a full disk - produced for real with
    RLIMIT_FSIZE in a helper process), in the middle of a store's write or only when the buffered tail is flushed at close; the next run,
    with room again, must leave from-scratch values: a value cut short must never be trusted as up to date."""
    import json
    import subprocess
    p = subprocess.run([core.PY, "-c", DISK_FULL_CHILD], env=core.repo_env(), stdout=subprocess.PIPE, stderr=subprocess.PIPE, text=True, timeout=300)
    ctx.case(("c08-disk-full",))
    if p.returncode != 0:
        ctx.broke("C08 disk-full helper failed", p.stderr[-1500:])
        return
    rep = json.loads(p.stdout)
    if not rep["uberjob"].startswith(core.REPO_SRC):
        ctx.broke("C08 helper imported uberjob from the wrong place", rep["uberjob"])
    for r in rep["out"]:
        ctx.case(("c08-disk-full", r["limit"], r["n"], r["store"], r["path"]))
        ctx.count("disk_full_cut_run", r["cut_run"])
        if r["repair"] != "ok" or not (r["a_ok"] and r["b_ok"] and r["out_ok"]):
            ctx.fail("disk-full", "%s store (%s path), a value of %d items under a file-size limit of %d bytes: the cut run %s (files afterwards: %r); the next run, without the limit, %s; "
                     "a.dat then holds %s (%d items), b.json %s, the output is %s (from scratch: %s)"
                     % (r["store"], r["path"], r["n"], r["limit"], r["cut_run"], r["after_cut"], "succeeded" if r["repair"] == "ok" else r["repair"],
                        "the value" if r["a_ok"] else "ANOTHER value", r["a_len"], r["b"], r["out"], r["want_b"]), r)
