import core, cache_corr
RULE = ("random worlds x histories (see C05) with runs cut at the k-th operation (call, read, write before/after effect, modified-time query; "
        "max_errors 0/1/None, 1 or 3 workers), then the monitors 'looks up to date => equals scratch', repair run, no needless rebuild; "
        "file-backed stores: a 3-call plan with Json/Text/Pickle/Binary stores, os._exit before/after EVERY file operation of the run (fresh state and after a source update), then the repairing run")
TRUSTED_BASE = ["harness/cache_corr.py worlds and fault injection", "harness/c11_common.Injector (file-operation counting, os._exit in a forked child)"]
def run(ctx):
    camp = cache_corr.Campaign(ctx)
    cache_corr.history_campaign(ctx, camp, ctx.n(60, 1200), ctx.n(6, 8))
    camp.eval_model()
    camp.file({"C08"})
    import c08_files
    c08_files.run_files(ctx)      # file-backed stores: process death at every file operation, then the repairing run
