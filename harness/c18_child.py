"""Helper process for C18: started by harness/c18.py with TZ=<zone> in the environment (core.PY, env=core.repo_env()).
Reads {"zone", "cases"} as JSON on stdin; builds the datetimes with the *process-local* zone (C library, TZ variable),
runs the real uberjob._transformations.caching._to_naive_utc_time and real uberjob.run(..., registry=, fresh_time=)
and prints the results plus the wall / fold / offset of every datetime it built (they are the model's inputs)."""
import datetime as dt
import json
import os
import sys
import time
import zoneinfo

EPOCH = dt.datetime(1970, 1, 1, tzinfo=dt.timezone.utc)
EPOCH_N = dt.datetime(1970, 1, 1)
US = dt.timedelta(microseconds=1)


def wall_of(d):
    return (d.replace(tzinfo=None) - EPOCH_N) // US


class Stamp(dt.datetime):
    """a datetime subclass, as third-party time libraries provide"""


def build(rep):
    d = _build(rep)
    if d is not None and rep.get("sub"):
        d = Stamp(d.year, d.month, d.day, d.hour, d.minute, d.second, d.microsecond, tzinfo=d.tzinfo, fold=d.fold)
    return d


def _build(rep):
    """rep -> datetime.  naive: local form of instant i exactly as a file store reports it (fromtimestamp, fold set)."""
    if rep is None:
        return None
    t = rep["t"]
    if t == "naive":
        i = rep["i"]
        return dt.datetime.fromtimestamp(i // 10 ** 6).replace(microsecond=i % 10 ** 6)
    if t == "naive_wall":
        return (EPOCH_N + rep["wall"] * US).replace(fold=rep["fold"])
    if t == "aware":
        tz = dt.timezone(dt.timedelta(microseconds=rep["off"]))
        return (EPOCH + rep["i"] * US).astimezone(tz)
    if t == "aware_zi":
        return (EPOCH + rep["i"] * US).astimezone(zoneinfo.ZoneInfo(rep["zone"]))
    raise KeyError(t)


def describe(d):
    if d is None:
        return None
    if d.tzinfo is None:
        return {"naive": True, "wall": wall_of(d), "fold": d.fold}
    return {"naive": False, "wall": wall_of(d), "off": d.utcoffset() // US}


def main():
    req = json.load(sys.stdin)
    time.tzset()
    import uberjob
    from uberjob._transformations.caching import _to_naive_utc_time

    class St(uberjob.ValueStore):
        def __init__(self, name, mtime, log):
            self.name, self.mtime, self.log = name, mtime, log

        def read(self):
            return 0

        def write(self, value):
            self.log.append(self.name)

        def get_modified_time(self):
            return self.mtime

    def ident(*a):
        return 0

    out = []
    # sanity: the process zone really is the requested one
    probe = req.get("probe", [])
    zi = zoneinfo.ZoneInfo(req["zone"])
    zone_ok = all(time.localtime(i // 10 ** 6).tm_gmtoff == (EPOCH + i * US).astimezone(zi).utcoffset().total_seconds() for i in probe)
    # Values the platform cannot convert (the extremes, used as "never" / "always" markers) come first in this process: having seen them
    # must not change how any later datetime is read.
    warm = None
    try:
        for marker in (dt.datetime.min, dt.datetime.max, dt.datetime.min.replace(fold=1)):
            _to_naive_utc_time(marker)
        plan0, reg0 = uberjob.Plan(), uberjob.Registry()
        s0 = reg0.source(plan0, uberjob.stores.LiteralSource(0, dt.datetime.min))
        a0 = plan0.call(ident, s0)
        reg0.add(a0, St("a0", dt.datetime(2020, 1, 1), []))
        uberjob.run(plan0, registry=reg0, output=a0, fresh_time=dt.datetime.max, progress=None, max_workers=1)
    except BaseException as e:
        warm = "%s: %s" % (type(e).__name__, e)
    # The extremes as "never" / "always" markers: datetime.max denotes an instant after, datetime.min one before, every ordinary instant -
    # in every process zone, whichever side of UTC it lies on (the conversion overflows on one side only).
    markers = []
    ordinary = {"naive": dt.datetime(2024, 6, 1, 12, 0), "aware-utc": dt.datetime(2024, 6, 1, 12, 0, tzinfo=dt.timezone.utc),
                "aware+14": dt.datetime(2024, 6, 1, 12, 0, tzinfo=dt.timezone(dt.timedelta(hours=14)))}
    for what, src_t, fresh, want in (("source dated datetime.max", dt.datetime.max, None, True), ("source dated datetime.min", dt.datetime.min, None, False),
                                     ("source dated datetime.min (fold=1)", dt.datetime.min.replace(fold=1), None, False),
                                     ("fresh_time=datetime.max", dt.datetime(2020, 1, 1), dt.datetime.max, True), ("fresh_time=datetime.min", dt.datetime(2020, 1, 1), dt.datetime.min, False)):
        for sk, store_t in ordinary.items():
            for src_kind in ("ModifiedTimeSource", "store"):
                try:
                    logm = []
                    planm, regm = uberjob.Plan(), uberjob.Registry()
                    sm = regm.source(planm, uberjob.stores.ModifiedTimeSource(src_t) if src_kind == "ModifiedTimeSource" else St("s", src_t, logm))
                    am = planm.call(ident, sm)
                    regm.add(am, St("a", store_t, logm))
                    uberjob.run(planm, registry=regm, fresh_time=fresh, progress=None, max_workers=1)
                    markers.append([what, sk, src_kind, logm.count("a") == 1, want, None])
                except BaseException as e:
                    markers.append([what, sk, src_kind, None, want, "%s: %s" % (type(e).__name__, e)])
    for ci, c in enumerate(req["cases"]):
        try:
            if c["kind"] == "conv":
                d = build(c["rep"])
                r = _to_naive_utc_time(d)
                res = {"conv": wall_of(r), "rep": describe(d), "naive_result": r.tzinfo is None}
                if c["rep"]["t"] == "naive":
                    # H-tz on CPython: the naive local form converts back to the instant
                    i = c["rep"]["i"]
                    ts = int(d.replace(microsecond=0).timestamp()) * 10 ** 6 + d.microsecond
                    ts_o = int(d.replace(microsecond=0, fold=1 - d.fold).timestamp()) * 10 ** 6 + d.microsecond
                    res["other"] = ts_o
                    res["h_tz"] = (d.astimezone(dt.timezone.utc) == EPOCH + i * US and ts == i
                                   and (ts_o == i or (i < ts_o) == (d.fold == 0)))
                out.append(res)
            else:
                log = []
                dep_source = False
                ds = {k: build(c[k]) for k in ("fresh", "s", "s2", "a", "b")}
                plan, reg = uberjob.Plan(), uberjob.Registry()
                if ci % 2:     # the bundled sources carry the datetime they were given
                    s = reg.source(plan, uberjob.stores.LiteralSource(0, ds["s"]))
                    s2 = reg.source(plan, uberjob.stores.ModifiedTimeSource(ds["s2"]))
                elif c["s"] == c["s2"] and ci % 4 == 0:
                    shared = St("s", ds["s"], log)      # ONE store object registered as the source of two nodes
                    s = reg.source(plan, shared)
                    s2 = reg.source(plan, shared)
                elif ci % 4 == 2 and c.get("allow_dependent_source"):
                    # s2 is a DEPENDENT source: an unregistered call must run before it when (and only when) s2 is out of date
                    s = reg.source(plan, St("s", ds["s"], log))
                    s2 = None
                    dep_source = True
                else:
                    s = reg.source(plan, St("s", ds["s"], log))
                    s2 = reg.source(plan, St("s2", ds["s2"], log))
                a = plan.call(ident, s)
                reg.add(a, St("a", ds["a"], log))
                if dep_source:
                    # s -> a (stored) -> pre (not stored) -> s2: s2 has an upstream modified time
                    pre = plan.call(lambda v: log.append("pre") or 0, a)
                    s2 = reg.source(plan, St("s2", ds["s2"], log))
                    plan.add_dependency(pre, s2)
                u = plan.call(ident, a, s2)
                b = plan.call(ident, u)
                reg.add(b, St("b", ds["b"], log))
                uberjob.run(plan, registry=reg, output=b, fresh_time=ds["fresh"], progress=None, max_workers=1)
                out.append({"written": sorted(x for x in log if x != "pre"), "pre_ran": "pre" in log, "dep_source": dep_source, "reps": {k: describe(v) for k, v in ds.items()}})
        except BaseException as e:
            out.append({"error": "%s: %s" % (type(e).__name__, e)})
    sys.stdout.write(json.dumps({"uberjob": os.path.dirname(uberjob.__file__), "zone_ok": zone_ok, "warm_up_error": warm, "markers": markers,
                                 "tzname": list(time.tzname), "results": out}))


if __name__ == "__main__":
    main()
