"""Translator tie for the engine's atomic blocks (C01, C04, C06, C10, C17): in src/uberjob/_execution/run_function_on_graph.py

  * `prepare_nodes` (classification of the nodes by predecessor count),
  * the body of `with failure_lock:` in `process_node` (error accounting, first error, the stop decision),
  * the per-successor release in the `else:` branch (single-parent fast path / locked decrement-and-test),
  * the coordinator's `finally:` (stop, one DONE per worker)

are parsed with `ast` on every run and compiled to Gallina (coq/gen/EngineGen.v); coq/gen/EngineLink.v (hand-written, committed)
proves each generated function equal to the corresponding part of Engine.v's `init` / `next` (`KFailBlk`, `KSucc`, `CStop`/`CPut`).
The control skeleton AROUND these blocks (`if stop: return`, try / except BaseException / else, the worker loop with its
`finally: task_done()`, `worker_pool`) is matched statement by statement against the shape Engine.v's program counters were written
for (fail-closed); the hash sentinel of harness/engine_corr.py stays in place.

Trusted: this file; `predecessor_count(graph, node)` = Engine.pcount (linked separately by translate_nxutil.py); a Python set of
nodes is its membership predicate; the counter dict is a total function (only entries >= 2 are stored; `d[k] -= 1` on a zero
entry is the outcome None, proved unreachable: EngineInv.rem_pos); `not first_node_error` is `first = None` (a NodeError instance is
truthy: it defines neither __bool__ nor __len__ - checked in _errors.py by this translator)."""
import ast
import os
import subprocess

import core
from translate_stale import GEN, TranslationError, _expect, _fn, _src


def _body(f):
    return [s for s in f.body if not (isinstance(s, ast.Expr) and isinstance(s.value, ast.Constant))]


def natcmp(e, env):
    """comparison of small nat expressions -> Gallina bool"""
    _expect(isinstance(e, ast.Compare) and len(e.ops) == 1, "comparison", e)

    def nat(x):
        if isinstance(x, ast.Name) and x.id in env:
            return env[x.id]
        if isinstance(x, ast.Constant) and isinstance(x.value, int) and not isinstance(x.value, bool) and 0 <= x.value < 100:
            return "%d" % x.value
        if _src(x) in env:
            return env[_src(x)]
        raise TranslationError("not a count the compiler knows: `%s`" % _src(x))
    a, b = nat(e.left), nat(e.comparators[0])
    t = {ast.Eq: "(%s =? %s)", ast.NotEq: "(negb (%s =? %s))", ast.Lt: "(%s <? %s)", ast.LtE: "(%s <=? %s)"}.get(type(e.ops[0]))
    if t is not None:
        return t % (a, b)
    t = {ast.Gt: "(%s <? %s)", ast.GtE: "(%s <=? %s)"}.get(type(e.ops[0]))
    _expect(t is not None, "comparison operator", e)
    return t % (b, a)


def gen_prepare(tree):
    f = _fn(tree, "prepare_nodes")
    b = _body(f)
    _expect(len(b) == 5 and {_src(b[0]), _src(b[1]), _src(b[2])} == {"source_nodes = []", "single_parent_nodes = set()", "remaining_pred_count_mapping = {}"}
            and isinstance(b[3], ast.For) and _src(b[3].iter) in ("graph", "graph.nodes", "graph.nodes()") and not b[3].orelse
            and _src(b[4]) == "return PreparedNodes(source_nodes, single_parent_nodes, remaining_pred_count_mapping)", "prepare_nodes: three containers, one loop over the nodes, return", f)
    nv = b[3].target.id
    lb = list(b[3].body)
    _expect(len(lb) == 2 and _src(lb[0]) == "count = predecessor_count(graph, %s)" % nv and isinstance(lb[1], ast.If), "count = predecessor_count(graph, node); if/elif/else", b[3])

    def action(stmts):
        _expect(len(stmts) == 1, "one statement per branch", stmts[0])
        s = _src(stmts[0])
        if s == "source_nodes.append(%s)" % nv:
            return "(node :: fst (fst st), snd (fst st), snd st)"
        if s == "single_parent_nodes.add(%s)" % nv:
            return "(fst (fst st), node :: snd (fst st), snd st)"
        if s == "remaining_pred_count_mapping[%s] = count" % nv:
            return "(fst (fst st), snd (fst st), (fun y => if y =? node then count else snd st y))"
        raise TranslationError("prepare_nodes: statement the compiler does not know: `%s`" % s)

    def chain(n):
        t = natcmp(n.test, {"count": "count"})
        if not n.orelse:
            return "if %s then %s else st" % (t, action(n.body))
        if len(n.orelse) == 1 and isinstance(n.orelse[0], ast.If):
            return "if %s then %s else %s" % (t, action(n.body), chain(n.orelse[0]))
        return "if %s then %s else %s" % (t, action(n.body), action(n.orelse))
    return ["(* (source_nodes newest first, single_parent_nodes, remaining_pred_count_mapping) *)\n"
            "Definition gen_prepare (g : graph) : list nat * list nat * (nat -> nat) :=\n"
            "  fold_left (fun st node => let count := pcount g node in %s) (nodes g) ([], [], fun _ => 0)." % chain(lb[1])]


def gen_process_node(tree, errors_tree):
    # NodeError instances are truthy
    ne = [n for n in errors_tree.body if isinstance(n, ast.ClassDef) and n.name == "NodeError"]
    _expect(len(ne) == 1 and not any(isinstance(m, ast.FunctionDef) and m.name in ("__bool__", "__len__") for m in ne[0].body), "NodeError defines neither __bool__ nor __len__")
    rf = _fn(tree, "run_function_on_graph")
    pn = [n for n in rf.body if isinstance(n, ast.FunctionDef) and n.name == "process_node"]
    _expect(len(pn) == 1 and [a.arg for a in pn[0].args.args] == ["node"], "def process_node(node) inside run_function_on_graph", rf)
    b = [s for s in _body(pn[0]) if not isinstance(s, ast.Nonlocal)]
    _expect(len(b) == 2 and _src(b[0]) == "if stop:\n    return" and isinstance(b[1], ast.Try), "process_node: `if stop: return`, then try/except/else", pn[0])
    t = b[1]
    _expect(len(t.body) == 1 and _src(t.body[0]) == "fn(node)" and len(t.handlers) == 1 and _src(t.handlers[0].type) == "BaseException" and t.handlers[0].name == "exception"
            and not t.finalbody and t.orelse, "try: fn(node) / except BaseException as exception / else", t)
    h = t.handlers[0].body
    _expect(len(h) == 1 and isinstance(h[0], ast.With) and _src(h[0].items[0].context_expr) == "failure_lock", "the handler is one `with failure_lock:` block", t.handlers[0])
    # ---- failure block: sequential updates of (stop, error_count, first_node_error)
    lines = []
    for s in h[0].body:
        src = _src(s)
        if isinstance(s, ast.AugAssign) and _src(s.target) == "error_count" and isinstance(s.op, ast.Add) and _src(s.value) == "1":
            lines.append("let errc := S errc in")
        elif isinstance(s, ast.If) and not s.orelse and len(s.body) == 1:
            body = _src(s.body[0])
            if body == "first_node_error = coerce_node_error(node, exception)":
                _expect(_src(s.test) in ("not first_node_error", "first_node_error is None"), "test guarding the first error", s)
                lines.append("let first := (match first with None => Some node | Some _ => first end) in")
            elif body == "stop = True":
                lines.append("let stop := (if %s then true else stop) in" % stop_test(s.test))
            else:
                raise TranslationError("failure block: conditional the compiler does not know: `%s`" % src.split("\n")[0])
        else:
            raise TranslationError("failure block: statement the compiler does not know: `%s`" % src.split("\n")[0])
    fail = ("Definition gen_fail_block (max_errors : option nat) (node : nat) (stop : bool) (errc : nat) (first : option nat) : bool * nat * option nat :=\n  %s\n  (stop, errc, first)."
            % "\n  ".join(lines))
    # ---- successor release
    _expect(len(t.orelse) == 1 and isinstance(t.orelse[0], ast.For) and _src(t.orelse[0].iter) == "graph.successors(node)" and not t.orelse[0].orelse, "else: for successor in graph.successors(node)", t)
    fl = t.orelse[0]
    sv = fl.target.id
    _expect(len(fl.body) == 1 and isinstance(fl.body[0], ast.If) and len(fl.body[0].orelse) == 1, "if successor in single_parent_nodes: ... else: with lock", fl)
    iff = fl.body[0]
    _expect(_src(iff.test) == "%s in single_parent_nodes" % sv and len(iff.body) == 1 and _src(iff.body[0]) == "queue.put(%s)" % sv, "single-parent fast path", iff)
    w = iff.orelse[0]
    _expect(isinstance(w, ast.With) and _src(w.items[0].context_expr) == "remaining_pred_count_lock" and len(w.body) == 2, "with remaining_pred_count_lock: decrement; test", w)
    cur = "remaining_pred_count_mapping[%s]" % sv
    _expect(isinstance(w.body[0], ast.AugAssign) and _src(w.body[0].target) == cur and isinstance(w.body[0].op, ast.Sub) and _src(w.body[0].value) == "1", "the decrement comes first, inside the lock", w)
    it = w.body[1]
    _expect(isinstance(it, ast.If) and not it.orelse and len(it.body) == 1 and _src(it.body[0]) == "queue.put(%s)" % sv, "if <counter test>: queue.put(successor), inside the lock", it)
    if isinstance(it.test, ast.UnaryOp) and isinstance(it.test.op, ast.Not) and _src(it.test.operand) == cur:
        ztest = "(r =? 0)"
    else:
        ztest = natcmp(it.test, {cur: "r"})
    rel = ("(* (new counters, is the successor put on the queue) ; None: a zero counter would be decremented *)\n"
           "Definition gen_release (single : nat -> bool) (rem : nat -> nat) (s : nat) : option ((nat -> nat) * bool) :=\n"
           "  if single s then Some (rem, true)\n  else match rem s with\n       | 0 => None\n       | S r => Some ((fun y => if y =? s then r else rem y), %s)\n       end." % ztest)
    # ---- coordinator
    wp = [s for s in rf.body if isinstance(s, ast.With)]
    _expect(len(wp) == 1 and _src(wp[0].items[0].context_expr) == "worker_pool(queue, process_node, worker_count)" and len(wp[0].body) == 1 and isinstance(wp[0].body[0], ast.Try), "with worker_pool(...): try/finally", rf)
    ct = wp[0].body[0]
    _expect(len(ct.body) == 1 and _src(ct.body[0]) == "queue.join()" and not ct.handlers and not ct.orelse and len(ct.finalbody) == 2, "try: queue.join() finally: two statements", ct)
    _expect(_src(ct.finalbody[0]) == "stop = True" and _src(ct.finalbody[1]) == "for _ in range(worker_count):\n    queue.put(DONE)", "finally: stop = True; one DONE per worker", ct)
    last = rf.body[-1]
    _expect(_src(last) == "if first_node_error:\n    raise first_node_error", "the first error is raised after the pool has shut down", last)
    coord = "Definition gen_finally (workers : nat) (stop : bool) : bool * nat := (true, workers).   (* stop = True; DONE put `workers` times *)"
    return [fail, rel, coord]


def stop_test(e):
    """`max_errors is not None and error_count > max_errors` and equivalent forms -> Gallina bool over (max_errors : option nat) (errc : nat)"""
    if isinstance(e, ast.BoolOp) and isinstance(e.op, ast.And) and len(e.values) == 2 and _src(e.values[0]) == "max_errors is not None":
        return "match max_errors with None => false | Some k => %s end" % natcmp(e.values[1], {"error_count": "errc", "max_errors": "k"})
    raise TranslationError("stop decision the compiler does not know: `%s`" % _src(e))


def check_workers(tree):
    """worker_thread / worker_pool: the shapes Engine.v's worker and coordinator program counters were written for"""
    wt = _fn(tree, "worker_thread")
    b = _body(wt)
    _expect(len(b) == 2 and isinstance(b[0], ast.FunctionDef) and _src(b[1]) == "return thread(%s)" % b[0].name, "worker_thread: def loop; return thread(loop)", wt)
    lb = _body(b[0])
    _expect(len(lb) == 1 and isinstance(lb[0], ast.While) and _src(lb[0].test) == "True", "while True", b[0])
    wb = lb[0].body
    _expect(len(wb) == 2 and _src(wb[0]) == "item = queue.get()" and isinstance(wb[1], ast.Try) and not wb[1].handlers and not wb[1].orelse
            and [_src(s) for s in wb[1].finalbody] == ["queue.task_done()"] and [_src(s) for s in wb[1].body] == ["if item is DONE:\n    return", "process_item(item)"],
            "item = queue.get(); try: (DONE -> return; process_item(item)) finally: queue.task_done()", lb[0])
    wp = _fn(tree, "worker_pool")
    pb = _body(wp)
    _expect(len(pb) == 2 and _src(pb[0]) == "workers = []" and isinstance(pb[1], ast.Try) and not pb[1].handlers and not pb[1].orelse, "worker_pool: workers = []; try/finally", wp)
    _expect([_src(s) for s in pb[1].body] == ["for _ in range(worker_count):\n    workers.append(worker_thread(queue, process_item))", "yield"]
            and [_src(s) for s in pb[1].finalbody] == ["for worker in workers:\n    worker.join()"], "start worker_count workers, yield, join every started worker", pb[1])
    th = _fn(tree, "thread")
    _expect([_src(s) for s in _body(th)] == ["t = threading.Thread(target=fn)", "t.start()", "return t"], "thread(fn): a started, non-daemon thread", th)


def translate(path, errors_path):
    tree = ast.parse(open(path).read())
    check_workers(tree)
    defs = gen_prepare(tree) + gen_process_node(tree, ast.parse(open(errors_path).read()))
    return ("(* GENERATED by harness/translate_engine.py from %s - do not edit *)\n"
            "From Coq Require Import List Arith Bool.\nImport ListNotations.\nFrom UJ Require Import Engine.Engine.\n\n%s\n"
            % (os.path.relpath(path, core.REPO), "\n\n".join(defs)))


THEOREMS = ["generated_prepare_is_model", "generated_fail_block_is_model", "generated_release_is_model", "generated_finally_is_model"]


def check(ctx):
    base = os.path.join(core.REPO_SRC, "uberjob")
    src = os.path.join(base, "_execution", "run_function_on_graph.py")
    ctx.notes["translator_engine"] = ("harness/translate_engine.py: run_function_on_graph.py (prepare_nodes, failure block, successor release, coordinator finally; control "
                                      "skeleton matched fail-closed) -> coq/gen/EngineGen.v, link theorems coq/gen/EngineLink.v")
    try:
        text = translate(src, os.path.join(base, "_errors.py"))
    except (TranslationError, SyntaxError, OSError) as e:
        ctx.broke("translator: run_function_on_graph.py no longer has the shape the translator reads (fail-closed)", str(e))
        return
    scratch = True           # always compile in a directory private to this process (core.gen_dir): parallel checks must not share one
    gen_dir = core.gen_dir()
    if scratch:
        import shutil
        shutil.copy(os.path.join(GEN, "EngineLink.v"), gen_dir)
    with open(os.path.join(gen_dir, "EngineGen.v"), "w") as f:
        f.write(text)
    ctx.compared("translator: run_function_on_graph.py atomic blocks -> Gallina, linked to Engine.v by theorems")
    flags = ["-Q", os.path.join(core.COQ, "theories"), core.LOGICAL, "-Q", gen_dir, "UJGen", "-w", "none"]
    for f in ("EngineGen.v", "EngineLink.v"):
        p = subprocess.run(["timeout", "300", "coqc"] + flags + [os.path.join(gen_dir, f)], cwd=core.COQ, stdout=subprocess.PIPE, stderr=subprocess.STDOUT, text=True)
        if p.returncode != 0:
            break
    ok = p.returncode == 0 and (p.stdout or "").count("Closed under the global context") == len(THEOREMS)
    ctx.notes["translator_engine_link_theorems"] = "UJGen.EngineLink.{%s}: %s" % (", ".join(THEOREMS), "proved, closed" if ok else "NOT proved")
    if not ok:
        # the controlled-schedule campaign of the same check (trace acceptance by Engine.v + monitors) exhibits the concrete graph and schedule
        ctx.broke("translator link theorems UJGen.EngineLink no longer check: the engine's atomic blocks differ from Engine.v", (p.stdout or "")[-1500:])
