"""Correspondence for Run/Api.v: the plumbing of uberjob.run.  Random argument combinations (valid and out of range) are
given to the real run(); the engine passes it starts are observed from outside - the keyword arguments that reach
run_function_on_graph in caching.py and run_physical.py, the attempts the retry object handed to each pass grants (probed
with a function that always fails), observer enter/exit, prune / transform_physical / totals - and compared with
run_api.  Model-free monitor (C14): the dry run's record is the real run's record without the execution pass."""
import datetime as dt
import re

import core


def run_api_corr(ctx, props=("C10", "C14", "C15")):
    uberjob = core.use_repo()
    import translate_run
    translate_run.check(ctx)        # the plumbing of run() compiled from _run.py (and the engine calls behind it) and linked to Run/Api.v by theorems
    import uberjob._run as runmod
    import uberjob._transformations.caching as caching
    import uberjob._execution.run_physical as rp
    from uberjob.progress import Progress, ProgressObserver
    rng = ctx.rng
    rec = []

    class Obs(ProgressObserver):
        def __enter__(self):
            rec.append(("enter",))

        def __exit__(self, *a):
            rec.append(("exit",))

        def increment_total(self, **k):
            pass
        increment_running = increment_completed = increment_failed = increment_total

    class Probe(Exception):
        pass

    def attempts(retry):
        n = [0]

        def f():
            n[0] += 1
            raise Probe()
        try:
            (retry or (lambda fn: fn))(f)()
        except Probe:
            pass
        return n[0]

    orig = {"pwvs": runmod.plan_with_value_stores, "prune": runmod.prune_plan, "rphys": runmod.run_physical,
            "totals": runmod._update_run_totals, "c_rfg": caching.run_function_on_graph, "r_rfg": rp.run_function_on_graph}
    cur = {}

    def w_pwvs(plan, registry, **kw):
        cur["stale_attempts"] = attempts(kw.get("retry"))
        return orig["pwvs"](plan, registry, **kw)

    def w_prune(*a, **kw):
        rec.append(("prune",))
        return orig["prune"](*a, **kw)

    def w_rphys(plan, **kw):
        cur["run_attempts"] = attempts(kw.get("retry"))
        return orig["rphys"](plan, **kw)

    def w_totals(*a, **kw):
        rec.append(("totals",))
        return orig["totals"](*a, **kw)

    def w_c_rfg(graph, fn, **kw):
        rec.append(("stale", kw.get("worker_count"), kw.get("max_errors", 0), kw.get("scheduler"), cur.get("stale_attempts")))
        return orig["c_rfg"](graph, fn, **kw)

    def w_r_rfg(graph, fn, **kw):
        rec.append(("run", kw.get("worker_count"), kw.get("max_errors", 0), kw.get("scheduler"), cur.get("run_attempts")))
        return orig["r_rfg"](graph, fn, **kw)

    SCH = {None: 0, "default": 0, "random": 1, "cheap": 2}
    NONE = -99

    def encode(rec, returns_plan):
        out = []
        for e in rec:
            if e[0] == "enter":
                out.append(1)
            elif e[0] in ("stale", "run"):
                out += [2 if e[0] == "stale" else 6, NONE if e[1] is None else e[1], NONE if e[2] is None else e[2], SCH[e[3]], e[4]]
            elif e[0] == "prune":
                out.append(3)
            elif e[0] == "transform":
                out.append(4)
            elif e[0] == "totals":
                out.append(5)
            else:
                out.append(7)
        return out + [8, 1 if returns_plan else 0]

    def deco(k):
        def retry(fn):
            def wrapper(*a, **kw):
                for i in range(k):
                    try:
                        return fn(*a, **kw)
                    except Exception:
                        if i == k - 1:
                            raise
            return wrapper
        return retry

    class Mem(uberjob.ValueStore):
        def __init__(self):
            self.v, self.t = None, None

        def read(self):
            return self.v

        def write(self, v):
            self.v, self.t = v, dt.datetime(2020, 1, 1)

        def get_modified_time(self):
            return self.t

    runmod.plan_with_value_stores, runmod.prune_plan, runmod.run_physical = w_pwvs, w_prune, w_rphys
    runmod._update_run_totals, caching.run_function_on_graph, rp.run_function_on_graph = w_totals, w_c_rfg, w_r_rfg
    terms, meta = [], []
    try:
        for ci in range(ctx.n(150, 2500)):
            a = {"registry": rng.random() < 0.6, "output": rng.random() < 0.7,
                 "max_workers": rng.choice([None, None, 1, 2, 3, 7, 0, -1]) if rng.random() < 0.9 else 1,
                 "stale_workers": rng.choice([None, None, 1, 2, 5, 0, -3]),
                 "max_errors": rng.choice([0, 0, None, 1, 4, -1]),
                 "retry": rng.choice([("none", 0), ("none", 0), ("int", 1), ("int", 2), ("int", 4), ("int", 0), ("int", -2), ("dec", 2), ("dec", 3)]),
                 "scheduler": rng.choice([None, "default", "random"]), "transform": rng.random() < 0.4}
            records = {}
            for dry in (False, True):
                plan = uberjob.Plan()
                x = plan.call(lambda: 1)
                y = plan.call(lambda v: v + 1, x)
                reg = uberjob.Registry()
                if a["registry"]:
                    reg.add(x, Mem())
                del rec[:]
                cur.clear()

                def tp(p, o):
                    rec.append(("transform",))
                    return p, o
                retry = None if a["retry"][0] == "none" else a["retry"][1] if a["retry"][0] == "int" else deco(a["retry"][1])
                try:
                    res = uberjob.run(plan, output=y if a["output"] else None, registry=reg if a["registry"] else None, dry_run=dry,
                                      max_workers=a["max_workers"], stale_check_max_workers=a["stale_workers"], max_errors=a["max_errors"],
                                      retry=retry, scheduler=a["scheduler"], transform_physical=tp if a["transform"] else None,
                                      progress=Progress(Obs))
                    enc = encode(rec, dry and isinstance(res, tuple) and isinstance(res[0], uberjob.Plan))
                except (ValueError, TypeError) as e:
                    enc = [0] if not rec else [-1] + encode(rec, False)
                records[dry] = enc
                z = lambda v: NONE if v is None else v
                rk = {"none": 0, "int": 1, "dec": 2}[a["retry"][0]]
                terms.append("exec_api %s %s %s (%d) (%d) (%d) %d (%d) %d %s" % (
                    core.coq_bool(a["registry"]), core.coq_bool(a["output"]), core.coq_bool(dry), z(a["max_workers"]), z(a["stale_workers"]),
                    z(a["max_errors"]), rk, a["retry"][1], {None: 0, "default": 1, "random": 2}[a["scheduler"]], core.coq_bool(a["transform"])))
                meta.append((dict(a, dry_run=dry), enc))
                ctx.case(("api", tuple(sorted((k, str(v)) for k, v in a.items())), dry), nontrivial=enc != [0])
                ctx.count("api_outcome", "rejected" if enc == [0] else "dry" if dry else "run")
            # monitor (model-free): the dry run is the real run without the execution pass
            real, dryr = records[False], records[True]
            if real != [0] or dryr != [0]:
                stripped, i = [], 0
                while i < len(real) - 2:
                    if real[i] == 6:
                        i += 5
                        continue
                    n = 5 if real[i] == 2 else 1
                    stripped += real[i:i + n]
                    i += n
                if dryr[:-2] != stripped or dryr[-2:] != [8, 1]:
                    ctx.fail("api:dry-run-differs", "with the same arguments the dry run starts %r, the real run %r (1 enter, 2 stale check[workers, max_errors, scheduler, "
                             "attempts], 3 prune, 4 transform_physical, 5 totals, 6 run pass, 7 exit)" % (dryr, real), {"arguments": {k: str(v) for k, v in a.items()}})
    finally:
        runmod.plan_with_value_stores, runmod.prune_plan, runmod.run_physical = orig["pwvs"], orig["prune"], orig["rphys"]
        runmod._update_run_totals, caching.run_function_on_graph, rp.run_function_on_graph = orig["totals"], orig["c_rfg"], orig["r_rfg"]
    header = "From Coq Require Import List ZArith Bool.\nImport ListNotations.\nFrom UJ Require Import Run.Api Run.Exec_Api.\nLocal Open Scope Z_scope.\n"
    outs = core.coq_eval(header, terms, ty="list Z", shard=400, tag="api")
    for (a, enc), o in zip(meta, outs):
        got = [int(x) for x in re.findall(r"-?\d+", o)]
        ctx.compared("Run/Api.v run_api vs the passes started by uberjob.run")
        if got != enc:
            # a disagreement about limits that reach the engine is itself a concrete counterexample to the property's text
            ctx.fail("api:plumbing", "uberjob.run%r started %r; the run's arguments prescribe %r (1 enter, 2 stale check[workers, max_errors, scheduler, attempts], "
                     "3 prune, 4 transform_physical, 5 totals, 6 run pass[...], 7 exit, 8 returns plan?)" % ({k: v for k, v in a.items()}, enc, got),
                     {"arguments": {k: str(v) for k, v in a.items()}, "observed": enc, "model": got})
