"""C09: rebuilt stored values are written, then read back, before downstream use."""
import core
import cache_corr
import transform_corr

RULE = ("random worlds x histories (as C05) with NORMALISING stores (read returns ('read', v)): (a) the physical plan of every dry run "
        "is compared exactly with Cache/Transform.v + Prune.v (nodes in order, keyed edges, redirected output); (b) the event log of the "
        "real run is checked: write before read-back before every consumer start, dependents after the write, consumers and the output "
        "receive the store's read value, downstream stored values rebuilt after upstream ones, stale dependent sources read after the calls they depend on")
TRUSTED_BASE = ["harness/cache_corr.py worlds (in-memory normalising stores, one logical clock)", "harness/transform_corr.py canonicalisation of physical plans by role"]


def order_monitor(ctx, w, output, res, log, stale, prefix=""):
    """log entries: ('call', i, args) / ('read', sid) / ('write-begin', sid) / ('write', sid)"""
    node_of_store = {m["store"]: i for i, m in enumerate(w.meta) if m["store"] is not None}
    pos = {}
    for k, (kind, ident, extra) in enumerate(log):
        pos.setdefault((kind, ident), k)
    rep = {"meta": w.meta, "output": output, "stale": sorted(stale), "log": [(a, b) for a, b, _ in log][:200]}
    for i, m in enumerate(w.meta):
        if m["kind"] != "call" or ("call", i) not in pos:
            continue
        start = pos[("call", i)]
        args = next(extra for kind, ident, extra in log if kind == "call" and ident == i)
        for a, j in zip(args, m["args"]):
            mj = w.meta[j]
            if mj["store"] is not None:
                if not (isinstance(a, tuple) and a and a[0] == "read"):
                    ctx.fail(prefix + "consumer-got-in-memory-value", "call %d received %r for its stored argument %d instead of the store's read value" % (i, a, j), rep)
                r = pos.get(("read", mj["store"]))
                if r is None or r > start:
                    ctx.fail(prefix + "consumer-before-read", "call %d started before store of node %d was read" % (i, j), rep)
                if j in stale and not mj["is_src"]:
                    wr = pos.get(("write", mj["store"]))
                    if wr is None or r is None or not (wr < r < start):
                        ctx.fail(prefix + "not-write-read-consume", "node %d rebuilt: expected write < read-back < start of consumer %d, got %r %r %r" % (j, i, wr, r, start), rep)
            elif isinstance(a, tuple) and a and a[0] == "read":
                ctx.fail(prefix + "unstored-arg-read", "call %d received a store value for unstored argument %d" % (i, j), rep)
        for j in m["deps"]:
            mj = w.meta[j]
            if mj["store"] is not None and not mj["is_src"] and j in stale:
                wr = pos.get(("write", mj["store"]))
                if wr is None or wr > start:
                    ctx.fail(prefix + "dependent-before-write", "call %d merely depends on rebuilt node %d but started before its write" % (i, j), rep)
    # downstream stored values rebuilt after upstream ones
    for i, m in enumerate(w.meta):
        if m["store"] is None or m["is_src"] or i not in stale:
            continue
        for j in w.frontier(i):
            mj = w.meta[j]
            if j in stale and not mj["is_src"]:
                a, b = pos.get(("write", mj["store"])), pos.get(("write", m["store"]))
                if res[0] == "ok" and (a is None or b is None or a > b):
                    ctx.fail(prefix + "downstream-not-after-upstream", "stored node %d (downstream of rebuilt %d) was not rebuilt after it (%r, %r)" % (i, j, a, b), rep)
    # a stale dependent source is read only after the calls it depends on have run and after the writes of the
    # rebuilt stored values it depends on
    for i, m in enumerate(w.meta):
        if m["is_src"] and i in stale and ("read", m["store"]) in pos:
            for j in m["deps"]:
                mj = w.meta[j]
                if mj["store"] is not None and not mj["is_src"] and j in stale:
                    wr = pos.get(("write", mj["store"]))
                    if wr is None or wr > pos[("read", m["store"])]:
                        ctx.fail(prefix + "stale-source-read-before-write", "out-of-date dependent source %d was read before the rebuilt value %d it depends on was written" % (i, j), rep)
            for j in m["deps"]:
                if w.meta[j]["kind"] == "call" and w.meta[j]["store"] is None:
                    c = pos.get(("call", j))
                    if c is None or c > pos[("read", m["store"])]:
                        ctx.fail(prefix + "stale-source-read-early", "out-of-date dependent source %d was read before call %d it depends on ran" % (i, j), rep)
    if res[0] == "ok" and output is not None and w.meta[output]["store"] is not None:
        if not (isinstance(res[1], tuple) and res[1] and res[1][0] == "read"):
            ctx.fail(prefix + "output-not-read-value", "run returned %r for stored output node %d instead of the store's read value" % (res[1], output), rep)


def fault_monitor(ctx, w, output, log, k, stale):
    """A store operation or call failed (fault injected at operation k) in a run that tolerates errors: nothing that
    consumes or depends on the failed node may start afterwards, its store is not read back, nothing downstream is written."""
    if k - 1 >= len(log):
        return
    kind, ident, _ = log[k - 1]
    node_of_store = {m["store"]: i for i, m in enumerate(w.meta) if m["store"] is not None}
    if kind == "call":
        n = ident
    elif kind in ("write-begin", "read"):
        n = node_of_store[ident]
    else:
        return
    if n < 0:
        return
    # physical dependencies: an up-to-date registry node is only read (its read depends on nothing); a failed read blocks
    # the argument consumers only (plain dependents hang off the write)
    def live(i):
        return w.meta[i]["store"] is None or i in stale
    down = {i for i, m in enumerate(w.meta) if live(i) and (n in m["args"] or (kind != "read" and n in m["deps"]))}
    changed = True
    while changed:
        changed = False
        for i, m in enumerate(w.meta):
            if i not in down and live(i) and (set(m["args"]) | set(m["deps"])) & down:
                down.add(i)
                changed = True
    down.discard(n)
    rep = {"meta": w.meta, "output": output, "fault_at": k, "faulted": [kind, ident], "stale": sorted(stale),
           "log": [(a, b) for a, b, _ in log][:200]}
    later = log[k:]
    for kd, idt, _ in later:
        if kd == "call" and idt in down:
            ctx.fail("fault:downstream-started", "call %d started although node %d it depends on failed (%s)" % (idt, n, kind), rep)
        if kd == "write" and node_of_store.get(idt) in down:
            ctx.fail("fault:downstream-written", "store of node %d was written although node %d it depends on failed" % (node_of_store[idt], n), rep)
        if kind in ("call", "write-begin") and kd == "read" and node_of_store.get(idt) == n and n in stale:
            ctx.fail("fault:read-after-failed-write", "store of node %d was read back although its %s failed" % (n, "computation" if kind == "call" else "write"), rep)
        if kind == "call" and kd == "write" and node_of_store.get(idt) == n:
            ctx.fail("fault:write-after-failed-call", "store of node %d was written although its call failed" % n, rep)


def run(ctx):
    import translate_avs
    translate_avs.check(ctx)       # _add_value_store re-read from caching.py and linked to Cache/Transform.v by a theorem
    import translate_physical
    translate_physical.check(ctx)  # plan_with_value_stores (registry loop, output redirection, prune) compiled from caching.py and linked to Transform.physical
    uj = core.use_repo()
    rng = ctx.rng
    tc = transform_corr.TransformCampaign(ctx)
    specs = list(cache_corr.TARGETED.items()) * ctx.n(2, 6)
    for wi in range(ctx.n(70, 1500) + len(specs)):
        spec = specs[wi][1] if wi < len(specs) else None
        w = cache_corr.World(uj, rng, maxn=ctx.n(8, 10), normalising=True, spec=spec)
        ctx.count("world_nodes", w.n)
        for step in range(ctx.n(4, 6)):
            output = rng.choice([None] + list(range(w.n)))
            fresh = cache_corr.random_fresh(w, rng)
            saved0 = [(s_.v, s_.t) for s_ in w.stores]
            sigma_before = w.sigma()
            tc.observe(w, output, fresh, [wi, step])
            stale = set(w._stale_now)
            # the monitors judge by what IS out of date (declarative oracle, as in C05), not only by what the implementation
            # found out of date: a rebuilt value's dependency-only successors included
            utd_o, _ = w.up_to_date(sigma_before, fresh)
            stale_mon = stale | {i for i, ok in utd_o.items() if not ok}
            # an identity transform_physical callback must not change anything (it receives the redirected output node)
            tp = rng.choice([None, None, lambda pl, out: (pl, out)])
            nw = rng.choice([1, 3])
            w.slow_writes = 0.003 if nw > 1 else 0
            res = w.run(output, fresh, workers=nw, scheduler=rng.choice([None, "random"]), transform=tp)
            w.slow_writes = 0
            ctx.count("transform_physical", tp is not None)
            order_monitor(ctx, w, output, res, list(w.log), stale_mon)
            if rng.random() < 0.5 and w.opcount > 0 and res[0] == "ok":
                # the same kind of run with a fault injected at a random operation and errors tolerated
                k = rng.randrange(1, w.opcount + 1)
                for s_, (v, t) in zip(w.stores, saved0):      # the same store state as before the run above
                    s_.v, s_.t = v, t
                # every third fault is not an Exception but a BaseException (SystemExit / a cancellation raised inside a store operation or call)
                hard = rng.random() < 0.35
                resf = w.run(output, fresh, workers=rng.choice([1, 3]), scheduler=rng.choice([None, "random"]),
                             max_errors=rng.choice([1, 3, None]), fault_at=k, fault_hard=hard)
                fault_monitor(ctx, w, output, list(w.log), k, stale)
                ctx.count("fault_runs", resf[0] + (" (BaseException fault)" if hard else ""))
                if w.fault_fired and resf[0] == "ok":
                    ctx.fail("fault:run-succeeded", "a %s raised inside operation %d of the run (%s) and the run returned normally"
                             % ("BaseException" if hard else "exception", k, " ".join(str(x) for x in w.log[k - 1][:2]) if k - 1 < len(w.log) else "?"),
                             {"meta": w.meta, "output": output, "fault_at": k, "hard": hard, "log": [(a, b) for a, b, _ in w.log][:200]})
            ctx.case((wi, step, tuple(str(x) for x in w.sigma()), output, fresh), nontrivial=len(stale) > 0,
                     sample={"meta": w.meta, "stale": sorted(stale), "log": [(a, b) for a, b, _ in w.log][:40]} if wi == 2 and step == 1 else None)
            ctx.count("stale_count", len(stale))
            ctx.count("run_status", res[0])
            op = rng.choice(["none", "update", "delete", "delete"])
            if op == "update":
                srcs = [m["store"] for m in w.meta if m["is_src"]]
                if srcs:
                    w.set_store(rng.choice(srcs), rng.randrange(1, 1000))
            elif op == "delete":
                st = [m["store"] for m in w.meta if m["store"] is not None and not m["is_src"]]
                if st:
                    s = rng.choice(st)
                    w.stores[s].v = w.stores[s].t = None
    tc.eval_model()


_run_before_shared_store = run


def run(ctx):
    shared_store(ctx)
    unpack_of_stored_gather(ctx)
    _run_before_shared_store(ctx)
    # write -> read-back -> consumer is an ordering of three calls of the physical plan: it holds in a run only if the engine starts every
    # call once and after all of its predecessors, under every schedule (a call released twice lets a consumer start before the read-back)
    import engine_corr
    ec = engine_corr.campaign(ctx, set())
    for prop, key, what, replay in ec.found:
        if (prop, key) in (("C04", "started-twice"), ("C01", "start-before-deps")):
            ctx.fail("engine:" + key, what + " (in a physical plan: a consumer of a rebuilt stored value can start before the write / read-back it depends on)", replay)


def shared_store(ctx):
    """ONE store object registered for two nodes: a source read before and a source read after a call that updates the store as
    a side effect (ordered by add_dependency; the second source is out of date because of fresh_time).  Every registered node
    gets its own read, ordered by its own constraints: the consumer of the second source sees the updated content."""
    import datetime as dt
    uj = core.use_repo()

    class State(uj.ValueStore):
        def __init__(self):
            self.content, self.t = "OLD", dt.datetime(2020, 1, 1)

        def read(self):
            return ("read", self.content)

        def write(self, v):
            raise AssertionError("sources are not written")

        def get_modified_time(self):
            return self.t
    for workers in (1, 3):
        for order in ("before-first", "after-first"):
            st = State()
            plan, reg = uj.Plan(), uj.Registry()
            if order == "before-first":
                before = reg.source(plan, st)
                after = reg.source(plan, st)
            else:
                after = reg.source(plan, st)
                before = reg.source(plan, st)

            def update(old):
                import time
                time.sleep(0.05)
                st.content, st.t = "NEW", dt.datetime(2020, 6, 1)
                return "updated"
            upd = plan.call(update, before)
            plan.add_dependency(upd, after)
            seen = plan.call(lambda b, a: (b, a), before, after)
            ctx.case(("c09-shared-store", workers, order))
            try:
                got = uj.run(plan, registry=reg, output=seen, fresh_time=dt.datetime(2020, 3, 1), max_workers=workers, progress=None)
            except BaseException as e:      # noqa
                got = "raised %r" % (e,)
            want = (("read", "OLD"), ("read", "NEW"))
            if got != want:
                ctx.fail("shared-store:read-order", "one store registered for two source nodes, the second ordered after an updating call: consumer received %r, "
                         "expected %r" % (got, want), {"max_workers": workers, "registration_order": order})


def unpack_of_stored_gather(ctx):
    """plan.gather([...]) registered with a store, then plan.unpack(node, n) (registered before or after the unpack): the consumers of the
    unpacked items see the items of what the store READS BACK, after the write - never the in-memory items."""
    import datetime as dt
    uj = core.use_repo()
    for when in ("registered before unpack", "registered after unpack"):
        for kind in ("list", "tuple"):
            for workers in (1, 3):
                events = []

                class Upper(uj.ValueStore):
                    def __init__(self):
                        self.v, self.t = None, None

                    def read(self):
                        events.append("read")
                        return [("stored:" + x.upper()) for x in self.v]

                    def write(self, v):
                        events.append("write")
                        self.v, self.t = list(v), dt.datetime(2021, 1, 1)

                    def get_modified_time(self):
                        return self.t
                plan, reg = uj.Plan(), uj.Registry()
                a, b = plan.call(lambda: "a"), plan.call(lambda: "b")
                pair = plan.gather([a, b] if kind == "list" else (a, b))
                st = Upper()
                if when.startswith("registered before"):
                    reg.add(pair, st)
                x, y = plan.unpack(pair, 2)
                if not when.startswith("registered before"):
                    reg.add(pair, st)
                out = plan.call(lambda p, q: events.append("consume") or [p, q], x, y)
                ctx.case(("c09-unpack-of-stored-gather", when, kind, workers))
                try:
                    res = uj.run(plan, registry=reg, output=out, max_workers=workers, progress=None)
                except BaseException as e:      # noqa
                    res = "raised %s: %r" % (type(e).__name__, getattr(e, "__cause__", None))
                if res != ["stored:A", "stored:B"] or events[:3] != ["write", "read", "consume"]:
                    ctx.fail("unpack-of-stored-gather", "gather(%s of two calls) %s, its items unpacked and consumed (max_workers=%d): run gave %r with store/consumer events %r; "
                             "expected ['stored:A', 'stored:B'] after write, read, consume" % (kind, when, workers, res, events), {"when": when, "container": kind, "max_workers": workers})
