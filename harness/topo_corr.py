"""Correspondence + monitors for uberjob/_util/networkx_util.py vs coq/theories/Base/Topo.v.

run_topo(ctx): random MultiDiGraphs with uberjob edge keys (0-12 nodes; layered / series-parallel / star / chain+skip /
random DAGs with parallel edges of different key kinds, literals with predecessors, isolated nodes; cyclic variants with
self loops, 2-cycles and long cycles), for each:
  * topological_sort fully iterated: exact yielded order or HasACycle      vs  Exec_Topo.exec_kahn
  * all_ancestors(graph, sources) as a sorted set (or NetworkXError)        vs  Exec_Topo.exec_ancestors
  * predecessor_count / is_source_node for every node                       vs  Exec_Topo.exec_pcounts
  * list(graph.successors(n)) / list(graph.predecessors(n)) (ORDER claim)   vs  Exec_Topo.exec_adj
plus model-free monitors (C07: a cyclic graph is rejected, an acyclic one is sorted topologically; C04/C01 helpers:
ancestors = networkx's own ancestors, predecessor_count = number of DISTINCT predecessors).
"""
import itertools

import core
import graphgen as gg

RULE_TOPO = ("random multigraphs 0-12 nodes from 5 DAG families x {acyclic, self loop, 2-cycle, long cycle}, parallel edges with "
             "different key kinds, shuffled node/edge insertion orders; distinct by (node order, edge list); non-trivial = has an edge")
TRUSTED_BASE_TOPO = ["networkx.MultiDiGraph adjacency dicts iterate in first-insertion order (tested: exec_adj comparison)",
                     "harness/graphgen.py generators and the int encoding of nodes/edge keys"]
HEADER = ("From Coq Require Import List Arith Bool.\nImport ListNotations.\n"
          "From UJ Require Import Run.Exec_Topo.\n")


def run_topo(ctx, n_cases=None):
    core.use_repo()
    import networkx as nx
    from uberjob._util import networkx_util as nu

    n_cases = n_cases or ctx.n(500, 8000)
    rng = ctx.rng
    terms, expect = [], []      # expect[i] = (what, tag, impl_value, replay)

    def add(term, what, tag, impl, replay):
        terms.append(term)
        expect.append((what, tag, impl, replay))

    for ci in range(n_cases):
        spec = gg.random_dag(rng, max_nodes=12)
        if rng.random() < 0.4:
            spec = gg.add_cycle(rng, spec)
        g = gg.to_multidigraph(spec)
        ns, es = spec["order"], gg.pairs_of(spec)
        cns, ces = gg.coq_nats(ns), gg.coq_pairs(es)
        replay = {"order": ns, "edges": [list(e[:2]) + [list(e[2])] for e in spec["edges"]]}
        acyclic = gg.is_acyclic(spec)
        ctx.case(("topo", tuple(ns), tuple(es)), nontrivial=bool(es),
                 sample={"nodes": ns, "edges": es, "cyclic": spec["cyclic"]} if ci < 2 else None)
        ctx.count("topo.family", spec["family"])
        ctx.count("topo.cyclic", spec["cyclic"] or ("acyclic" if acyclic else "cyclic-by-accident"))
        ctx.count("topo.nodes", spec["n"])
        ctx.count("topo.parallel_pairs", min(3, len(es) - len(set(es))))

        # ---- topological_sort
        cap = 4 * spec["n"] + 8          # the generator must stop by itself (C07); never iterate it unbounded
        try:
            if core.HANGS[0] > 4 and not acyclic:
                continue
            order = core.call_watched(lambda: list(itertools.islice(nu.topological_sort(g), cap)))
            impl = [0] + order
        except nx.HasACycle:
            order, impl = None, [1]
        except core.Hang:
            if core.HANGS[0] > 4:
                continue
            ctx.fail("topological_sort:hangs", "topological_sort does not return on this graph (neither an order nor HasACycle within the time limit)", replay)
            add("exec_kahn %s %s" % (cns, ces), "topological_sort", "kahn", [8], replay)
            continue
        except Exception as e:  # anything else is outside the model's enum
            order, impl = None, [9, type(e).__name__]
        if order is not None and len(order) >= cap:
            ctx.fail("topological_sort:diverges", "topological_sort keeps yielding (more than 4n+8 nodes): assert_acyclic would not terminate",
                     dict(replay, prefix=order[:20]))
            add("exec_kahn %s %s" % (cns, ces), "topological_sort", "kahn", [8], replay)
            continue
        add("exec_kahn %s %s" % (cns, ces), "topological_sort", "kahn", impl, replay)
        # monitor (C07): rejected iff cyclic; accepted => permutation + every edge forwards
        if acyclic and order is None:
            ctx.fail("topological_sort:acyclic-rejected", "topological_sort raised on an acyclic graph", replay)
        elif not acyclic and order is not None:
            ctx.fail("topological_sort:cycle-accepted",
                     "topological_sort/assert_acyclic finished without HasACycle on a graph with a cycle", dict(replay, got=order))
        elif order is not None:
            posn = {v: i for i, v in enumerate(order)}
            if sorted(order) != sorted(ns) or any(posn[a] >= posn[b] for a, b in es):
                ctx.fail("topological_sort:order", "yielded order is not a topological order of all nodes", dict(replay, got=order))
        # assert_acyclic agrees with the generator
        try:
            nu.assert_acyclic(g)
            aa = True
        except nx.HasACycle:
            aa = False
        if aa != (order is not None):
            ctx.broke("assert_acyclic vs topological_sort", dict(replay, assert_acyclic=aa))
        if aa != acyclic:
            ctx.fail("assert_acyclic:wrong", "assert_acyclic %s a graph that is %s" % (
                "accepted" if aa else "rejected", "acyclic" if acyclic else "cyclic"), replay)

        # ---- all_ancestors
        for _ in range(2):
            k = rng.choice([0, 1, 1, 2, 3])
            srcs = [rng.randrange(spec["n"]) for _ in range(k)] if spec["n"] else []
            malformed = rng.random() < 0.08
            if malformed:
                srcs.append(spec["n"] + rng.randrange(3))
            try:
                got = sorted(nu.all_ancestors(g, list(srcs)))
                impl = [1] + got
            except nx.NetworkXError:
                got, impl = None, [0]
            add("exec_ancestors %s %s %s" % (cns, ces, gg.coq_nats(srcs)), "all_ancestors", "anc", impl, dict(replay, sources=srcs))
            ctx.case(("anc", tuple(ns), tuple(es), tuple(srcs)), nontrivial=bool(srcs))
            ctx.count("anc.sources", "malformed" if malformed else len(set(srcs)))
            if got is not None:
                ref = set(srcs)
                for s in set(srcs):
                    ref |= nx.ancestors(g, s)
                if set(got) != ref:
                    ctx.fail("all_ancestors:set", "all_ancestors differs from the set of nodes with a path to a source",
                             dict(replay, sources=srcs, got=got, expected=sorted(ref)))

        # ---- predecessor_count / is_source_node
        pcs = [nu.predecessor_count(g, v) for v in ns]
        srcflags = [1 if nu.is_source_node(g, v) else 0 for v in ns]
        add("exec_pcounts %s %s" % (cns, ces), "predecessor_count/is_source_node", "pc", pcs + srcflags, replay)
        for v, c in zip(ns, pcs):
            ref = len({u for u, _ in g.in_edges(v)})
            if c != ref:
                ctx.fail("predecessor_count:distinct", "predecessor_count is not the number of distinct predecessors",
                         dict(replay, node=v, got=c, expected=ref))
        # ---- adjacency order
        adj = []
        for v in ns:
            ss, ps = list(g.successors(v)), list(g.predecessors(v))
            adj += [len(ss)] + ss + [len(ps)] + ps
        add("exec_adj %s %s" % (cns, ces), "adjacency order (succs_first/preds_first)", "adj", adj, replay)
        # the same from an edge list RECONSTRUCTED from the real object (graphgen.edges_in_adjacency_order): this is how
        # other harnesses feed real graphs (physical plans) to the models
        res = [(u, v) for u, v, _ in gg.edges_in_adjacency_order(g)]
        if sorted(res) != sorted(es):
            ctx.broke("graphgen.edges_in_adjacency_order loses edges", dict(replay, reconstructed=res))
        add("exec_adj %s %s" % (cns, gg.coq_pairs(res)), "adjacency order from reconstructed edge list", "adj2", adj, replay)
        if order is not None or impl == [1]:
            add("exec_kahn %s %s" % (cns, gg.coq_pairs(res)), "topological_sort from reconstructed edge list", "kahn2",
                ([0] + order) if order is not None else [1], replay)

    outs = core.coq_eval(HEADER, terms, ty="list nat", tag="topo")
    for (what, tag, impl, replay), o in zip(expect, outs):
        model = gg.parse_nats(o)
        if tag == "anc" and model and model[0] == 1:
            model = [1] + sorted(model[1:])
        ctx.compared("Base/Topo.v vs networkx_util." + what)
        if model != impl:
            ctx.broke("correspondence Base/Topo.v vs networkx_util.%s" % what, dict(replay, model=model, impl=impl))
