"""C19: a failure is attributed to the user line that created the failing symbolic call."""
import os
import sys
import re

import core

RULE = ("every symbolic-call entry point (call, gather, unpack, registry.add, registry.source, run(output=)) x helper-chain "
        "depth 0..7 (x IPython-path cut), plus every failure phase (run call, store write, read-back, source read, "
        "modified-time query); a case is distinct by (entry, depth, variant); all are non-trivial (a real stack is captured)")
TRUSTED_BASE = ["sys.setprofile recording of the real Python stack at get_stack_frame entry (harness/c19.py)",
                "string interning of (function, path, line) into nat ids"]
ENTRIES = ["call", "gather", "unpack", "reg_add", "reg_source", "run_output"]


def gen_module(entry, depth, ipy_at=None, recursive=False):
    """Source of a module whose h0 performs the entry-point call and h1..hd are enclosing helpers.
    Returns (src, user_frames) where user_frames[i] = (name, line) innermost first.
    recursive: ONE helper that calls itself `depth` times before it performs the entry-point call, so the enclosing frames all
    have the same (function, file, line)."""
    lines, frames = [], []
    body = {
        "call": "plan.call(fn, 1)",
        "gather": "plan.gather([plan.call(fn, 1), 2])",
        "unpack": "plan.unpack(plan.call(fn, 1), 2)",
        "reg_add": "reg.add(node, store)",
        "reg_source": "reg.source(plan, store)",
        "run_output": "uberjob.run(plan, output=[node, {'k': node}], dry_run=True, progress=None)",
    }[entry]
    if recursive:
        lines += ["import uberjob", "def h%d(plan, reg, node, store, fn, n=%d):" % (depth, depth), "    if n > 0:",
                  "        return h%d(plan, reg, node, store, fn, n - 1)" % depth, "    return %s" % body]
        return "\n".join(lines) + "\n", [("h%d" % depth, 5)] + [("h%d" % depth, 4)] * depth
    lines.append("import uberjob")
    lines.append("def h0(plan, reg, node, store, fn):")
    lines.append("    x = 1")
    lines.append("    return %s" % body)
    frames.append(("h0", len(lines)))
    for i in range(1, depth + 1):
        lines.append("def h%d(plan, reg, node, store, fn):" % i)
        for _ in range(i % 3):
            lines.append("    pass")
        lines.append("    return h%d(plan, reg, node, store, fn)" % (i - 1))
        frames.append(("h%d" % i, len(lines)))
    return "\n".join(lines) + "\n", frames


class Recorder:
    """Records the real Python stack each time get_stack_frame is entered."""

    def __init__(self, code):
        self.code, self.stacks = code, []

    def __call__(self, frame, event, arg):
        if event == "call" and frame.f_code is self.code:
            st, f = [], frame
            while f is not None:
                st.append((f.f_code.co_name, f.f_code.co_filename, f.f_lineno))
                f = f.f_back
            self.stacks.append(st)

    def __enter__(self):
        self.stacks = []
        sys.setprofile(self)
        return self

    def __exit__(self, *a):
        sys.setprofile(None)


def chain_of(sf, Trunc):
    out, trunc = [], False
    while sf is not None:
        if sf is Trunc:
            trunc = True
            break
        out.append((sf.name, sf.path, sf.line))
        sf = sf.outer
    return out, trunc


class Interner:
    def __init__(self):
        self.t = {}

    def __call__(self, s):
        return self.t.setdefault(s, len(self.t) + 1)

    def frame(self, fr):
        return (self(fr[0]), self(fr[1]), fr[2])


def run(ctx):
    uj = core.use_repo()
    import translate_traceback
    translate_traceback.check(ctx)    # get_stack_frame / render_symbolic_traceback compiled from the source and linked to Obs/Traceback.v by theorems
    import uberjob
    from uberjob._util import traceback as tb
    from uberjob.stores import LiteralSource
    import importlib

    gsf_code = tb.get_stack_frame.__code__
    Trunc = tb.TruncatedStackFrame
    uj_dir = os.path.dirname(uberjob.__file__)
    intern = Interner()
    model_cases = []   # (tag, entry_idx, stack, expected_flat, kind)

    class MemStore(uberjob.ValueStore):
        def __init__(self, v=None, fail=None):
            self.v, self.t, self.fail = v, None, fail

        def read(self):
            if self.fail == "read":
                raise RuntimeError("read")
            return self.v

        def write(self, v):
            if self.fail == "write":
                raise RuntimeError("write")
            import datetime as dt
            self.v, self.t = v, dt.datetime(2020, 1, 1)

        def get_modified_time(self):
            if self.fail == "mtime":
                raise RuntimeError("mtime")
            return self.t

    def fn(x):
        return x

    def check_chain(tag, sf, user_frames, path, real_stack, entry, key):
        """Monitor (model-free): head = user line, then enclosing frames, truncated iff deeper than limit."""
        got, trunc = chain_of(sf, Trunc)
        exp_user = [(n, path, l) for n, l in user_frames]
        # position of the user frame in the real stack
        ui = next((i for i, fr in enumerate(real_stack) if fr[1] == path), None)
        rest = real_stack[ui:] if ui is not None else []
        replay = {"entry": entry, "depth": len(user_frames) - 1, "captured": got, "truncated": trunc,
                  "expected_head": exp_user[0], "real_stack": real_stack[:12]}
        if not got or got[0] != exp_user[0]:
            ctx.fail("%s:head" % key, "%s: symbolic traceback starts at %r instead of the user line %r" % (tag, got[:1], exp_user[0]), replay)
            return
        if got != rest[:len(got)]:
            ctx.fail("%s:frames" % key, "%s: frames after the head are not the enclosing frames" % tag, replay)
        if trunc != (len(rest) > len(got)) or (not trunc and len(got) != len(rest)):
            ctx.fail("%s:trunc" % key, "%s: truncated marker wrong (got %d frames of %d, truncated=%s)" % (tag, len(got), len(rest), trunc), replay)

    depths = list(range(0, 8))
    for entry_idx, entry in enumerate(ENTRIES):
        for depth in depths:
            # plan-building code compiled from a string (exec, doctest, notebook cells) has a "<...>" file name
            for ipy in ([None] if ctx.quick and depth not in (2, 5) else [None, "angle", "ujname"]) + (["recursive"] if depth >= 1 else []):
                src, uframes = gen_module(entry, depth, recursive=(ipy == "recursive"))
                path = "<generated %s_%d>" % (entry, depth) if ipy == "angle" else "/ujgen/%s_%d.py" % (entry, depth)
                # a user module may be called anything - also something that merely starts with the library's name
                ns = {"__name__": "uberjob_pipelines"} if ipy == "ujname" else {}
                exec(compile(src, path, "exec"), ns)
                plan, reg = uberjob.Plan(), uberjob.Registry()
                node, store = plan.call(fn, 0), MemStore(3)
                top = ns["h%d" % depth]
                with Recorder(gsf_code) as rec:
                    res = top(plan, reg, node, store, fn)
                stacks = [s for s in rec.stacks]
                if entry == "call":
                    sfs = [res.stack_frame]
                elif entry == "gather":
                    sfs = [res.stack_frame]
                    stacks = stacks[-1:]
                elif entry == "unpack":
                    sfs = [res[0].stack_frame, res[1].stack_frame]
                    stacks = stacks[-1:]
                elif entry == "reg_add":
                    sfs = [reg.mapping[node].stack_frame]
                elif entry == "reg_source":
                    sfs = [reg.mapping[res].stack_frame, res.stack_frame]
                else:
                    sfs = [res[1].stack_frame]
                    # the stack recorded for the output gather is the last one
                    stacks = stacks[-1:]
                if len(stacks) != 1:
                    ctx.broke("C19 recorder", "expected one get_stack_frame call for %s, saw %d" % (entry, len(stacks)))
                    continue
                real = stacks[0]
                key = "%s" % entry
                for sf in sfs:
                    check_chain("%s depth %d" % (entry, depth), sf, uframes, path, real, entry, key)
                # model comparison
                got, trunc = chain_of(sfs[0], Trunc)
                n_internal = next((i for i, fr in enumerate(real) if not fr[1].startswith(uj_dir)), len(real))
                expected = [n_internal, 1, 1 if trunc else 0, len(got)] + [x for fr in got for x in intern.frame(fr)]
                stack_ids = [intern.frame(fr) for fr in real]
                model_cases.append(("%s/%d" % (entry, depth), entry_idx, stack_ids, expected, "capture", None))
                ctx.count("file_name_kind", {None: "file", "angle": "<...>", "ujname": "module named uberjob_pipelines", "recursive": "file, recursive helper"}[ipy])
                ctx.case((entry, depth, "capture", ipy), sample={"entry": entry, "depth": depth, "captured": got, "truncated": trunc} if depth == 5 else None)
                ctx.count("entry", entry)
                ctx.count("depth", depth)
                # rendering
                call_like = type("C", (), {"fn": fn, "stack_frame": sfs[0]})()
                msg = str(uberjob.CallError(call_like))
                rl = []
                for line in msg.split("\n")[2:]:
                    m = re.match(r'  File "(.*)", line (\d+), in (.*)$', line)
                    if m:
                        rl.append((m.group(3), m.group(1), int(m.group(2))))
                    elif line.strip() == "... truncated":
                        rl.append("T")
                exp_render = (["T"] if trunc else []) + list(reversed(got))
                if rl != exp_render:
                    ctx.fail("render:%s" % entry, "rendered message does not list the captured frames outermost first",
                             {"entry": entry, "depth": depth, "rendered": rl, "captured": got})
                flat = []
                for r in rl:
                    flat += [0] if r == "T" else [1, *intern.frame(r)]
                model_cases.append(("%s/%d/render" % (entry, depth), entry_idx, stack_ids, flat, "render", []))
                ctx.case((entry, depth, "render", ipy))

    # IPython cut: frames at and beyond a path containing /IPython/core/ are not rendered
    for depth in (1, 3, 6):
        src, uframes = gen_module("call", depth)
        ns = {}
        exec(compile(src, "/ujgen/ipy_%d.py" % depth, "exec"), ns)
        src2 = "def outer(f, *a):\n    return f(*a)\n"
        ns2 = {}
        exec(compile(src2, "/site/IPython/core/interactiveshell.py", "exec"), ns2)
        plan, reg = uberjob.Plan(), uberjob.Registry()
        with Recorder(gsf_code) as rec:
            res = ns2["outer"](ns["h%d" % depth], plan, reg, None, None, fn)
        real = rec.stacks[0]
        got, trunc = chain_of(res.stack_frame, Trunc)
        msg = str(uberjob.CallError(res))
        rl = []
        for line in msg.split("\n")[2:]:
            m = re.match(r'  File "(.*)", line (\d+), in (.*)$', line)
            if m:
                rl.append((m.group(3), m.group(1), int(m.group(2))))
            elif line.strip() == "... truncated":
                rl.append("T")
        flat = []
        for r in rl:
            flat += [0] if r == "T" else [1, *intern.frame(r)]
        ipy_ids = [intern(fr[1]) for fr in real if "/IPython/core/" in fr[1]]
        model_cases.append(("ipy/%d" % depth, 0, [intern.frame(fr) for fr in real], flat, "render", sorted(set(ipy_ids))))
        ctx.case(("ipy", depth), sample={"ipython_cut_depth": depth, "rendered": rl})

    # failure phases: CallError.call identity and frame origin
    phases(ctx, uberjob, MemStore, Trunc, check_chain)

    # ---- model vs implementation (vm_compute inside Coq)
    header = "From Coq Require Import List Arith Bool.\nImport ListNotations.\nFrom UJ Require Import Obs.Traceback Run.Exec_Traceback.\n"
    terms = []
    for tag, e, stack, exp, kind, ipy in model_cases:
        st = core.coq_list(stack, lambda t: "(%d,%d,%d)" % t)
        if kind == "capture":
            terms.append("exec_capture true %d %s" % (e, st))
        else:
            terms.append("exec_render true %d %s %s" % (e, core.coq_list(ipy or []), st))
    outs = core.coq_eval(header, terms, ty="list nat")
    for (tag, e, stack, exp, kind, ipy), o in zip(model_cases, outs):
        got = [int(x) for x in re.findall(r"\d+", o)]
        ctx.compared("Traceback.v vs get_stack_frame/render_symbolic_traceback")
        if got != exp:
            ctx.broke("correspondence Obs/Traceback.v (%s) vs /repo" % kind, {"case": tag, "model": got, "impl": exp})


def phases(ctx, uberjob, MemStore, Trunc, check_chain):
    """CallError.call is the failing symbolic call and carries the frame of the right user line."""
    import inspect

    def boom(x):
        raise ValueError("boom")

    def ok(x):
        return x

    def here():
        f = inspect.currentframe().f_back
        return (f.f_code.co_name, f.f_code.co_filename, f.f_lineno)

    def expect(tag, key, err, node_pred, line):
        sf = err.call.stack_frame
        head = (sf.name, sf.path, sf.line) if sf is not None and sf is not Trunc else None
        ctx.case(("phase", tag))
        if not node_pred(err.call):
            ctx.fail("phase:%s:call" % key, "%s: CallError.call is not the failing symbolic call" % tag, {"phase": tag, "call": repr(err.call)})
        if head != line:
            ctx.fail("phase:%s:head" % key, "%s: symbolic traceback starts at %r, expected %r" % (tag, head, line), {"phase": tag, "head": head, "expected": line})

    def registry_forms(r):
        """the registry itself and the copies a user may run with (Registry.copy, copy.copy, copy.deepcopy is not used: it would copy nodes)"""
        import copy
        return [("", r), ("/registry.copy()", r.copy()), ("/copy.copy(registry)", copy.copy(r))]

    # a stored LITERAL (plan.lit / a gather of constants, then registry.add) whose store fails on write or on read-back: the failing call
    # is the store call and its traceback starts at the registry.add line
    for lit_kind in ("lit", "gather-of-constants"):
        for fail in ("write", "read"):
            p, r = uberjob.Plan(), uberjob.Registry()
            node = p.lit(5) if lit_kind == "lit" else p.gather([1, 2])
            st_ = MemStore(5 if fail == "read" else None, fail=fail)
            if fail == "read":
                import datetime as _dt
                st_.t = _dt.datetime(2020, 1, 1)
            r.add(node, st_); la = here()
            use = p.call(ok, node)
            try:
                uberjob.run(p, registry=r, output=use, progress=None)
                ctx.broke("C19 harness: stored-literal scenario did not fail", (lit_kind, fail))
            except uberjob.CallError as e:
                expect("stored-literal/%s/%s" % (lit_kind, fail), "stored_literal", e, lambda c: getattr(c.fn, "__name__", "") == fail, la)
            except Exception as e:      # noqa
                ctx.fail("phase:stored_literal:error", "a stored literal (%s) whose store fails on %s: run raised %s instead of CallError" % (lit_kind, fail, type(e).__name__), {"literal": lit_kind, "fail": fail})
    # ONE store object given to registry.source twice (the second time inside a helper): a failing read reached through the second
    # source node is attributed to the SECOND registry.source line
    def load_reference(plan_, reg_, store_):
        n_ = reg_.source(plan_, store_); return n_, here()
    for which in ("second only", "both"):
        p, r = uberjob.Plan(), uberjob.Registry()
        st_ = MemStore(3, fail="read")
        import datetime as _dt
        st_.t = _dt.datetime(2020, 1, 1)
        first = r.source(p, st_); l1 = here()
        second, l2 = load_reference(p, r, st_)
        out = p.call(ok, second) if which == "second only" else p.call(lambda x, y: 0, first, second)
        try:
            uberjob.run(p, registry=r, output=out, progress=None, max_workers=1)
            ctx.broke("C19 harness: double-source scenario did not fail", which)
        except uberjob.CallError as e:
            sf = e.call.stack_frame
            head = (sf.name, sf.path, sf.line) if sf is not None and sf is not Trunc else None
            ctx.case(("phase", "double-source/" + which))
            allowed = [l2] if which == "second only" else [l1, l2]
            if head not in allowed:
                ctx.fail("phase:double_source:head", "one store object sourced on two lines, output depends on %s: the failing read is attributed to %r, expected %r" % (which, head, allowed),
                         {"which": which, "head": head, "expected": allowed})
    # run phase, plain call
    p = uberjob.Plan()
    a = p.call(ok, 1)
    b = p.call(boom, a); lb = here()
    try:
        uberjob.run(p, output=b, progress=None)
    except uberjob.CallError as e:
        expect("run/call", "run_call", e, lambda c: c is b, lb)
    # failing gather of the output structure: a set of an unhashable value
    p = uberjob.Plan()
    a = p.call(lambda: [1])
    try:
        uberjob.run(p, output={a}, progress=None); lo = None
    except uberjob.CallError as e:
        lo = (inspect.currentframe().f_code.co_name, __file__, e.__traceback__.tb_lineno)
        expect("run/output-gather", "run_output", e, lambda c: c.fn.__name__ == "gather_set", lo)
    # an IMPLICIT gather (a structured argument of plan.call / of unpack) fails at run time: the gather call is the failing
    # call and its traceback starts at the user's plan.call / unpack line
    from uberjob import _builtins
    for shape in ("set-arg", "dict-key-kwarg", "nested-in-list", "unpack-of-structure"):
        p = uberjob.Plan()
        a = p.call(lambda: [1])
        if shape == "set-arg":
            b = p.call(ok, {a, 1}); lb = here(); want = _builtins.gather_set
        elif shape == "dict-key-kwarg":
            b = p.call(ok, x={a: 1}); lb = here(); want = _builtins.gather_dict
        elif shape == "nested-in-list":
            b = p.call(ok, [0, {a}]); lb = here(); want = _builtins.gather_set
        else:
            b = p.unpack(({a}, 2), 2)[0]; lb = here(); want = _builtins.gather_set
        try:
            uberjob.run(p, output=b, progress=None)
            ctx.broke("C19 harness: implicit gather scenario did not fail", shape)
        except uberjob.CallError as e:
            expect("run/implicit-gather/" + shape, "implicit_gather", e, lambda c: c.fn is want, lb)
    # a call of the OUTER plan runs an inner plan that fails: the error of the outer run names the outer call and its line
    for where in ("call", "store-read"):
        inner = uberjob.Plan()
        ib = inner.call(boom, 1)

        def nested(x):
            return uberjob.run(inner, output=ib, progress=None, max_workers=1)
        p, r = uberjob.Plan(), uberjob.Registry()
        if where == "call":
            b = p.call(nested, 1); lb = here()
            pred = lambda cl: cl is b
        else:
            class NestedStore(MemStore):
                def read(self_):
                    return nested(0)
            st_ = NestedStore()
            st_.t = __import__("datetime").datetime(2020, 1, 1)
            s_ = r.source(p, st_); lb = here()
            b = p.call(ok, s_)
            pred = lambda cl: cl.fn is NestedStore.read
        try:
            uberjob.run(p, registry=r if where != "call" else None, output=b, progress=None, max_workers=1)
            ctx.broke("C19 harness: nested scenario did not fail", where)
        except uberjob.CallError as e:
            expect("run/nested-run-in-" + where, "nested", e, pred, lb)
    # the SAME exception object raised again (a module-level error instance, a memoised failure, a cached future re-raising its stored
    # exception): each failure is still attributed to the call that raised it THIS time, with that call's line and message
    shared_error = ValueError("shared")

    def reraise(x):
        raise shared_error
    p1 = uberjob.Plan()
    f1 = p1.call(reraise, 1); l_first = here()
    try:
        uberjob.run(p1, output=f1, progress=None, max_workers=1)
    except uberjob.CallError as e:
        expect("same-exception-object/first run", "same_exception", e, lambda c: c is f1, l_first)
    for variant in ("another plan", "the same plan, another call"):
        p2 = p1 if variant.startswith("the same") else uberjob.Plan()
        ok2 = p2.call(ok, 2)
        f2 = p2.call(reraise, ok2); l_second = here()
        try:
            uberjob.run(p2, output=f2, progress=None, max_workers=1)
            ctx.broke("C19 harness: same-exception scenario did not fail", variant)
        except uberjob.CallError as e:
            expect("same-exception-object/later run in " + variant, "same_exception", e, lambda c: c is f2, l_second)
            listed = __import__("re").findall(r'File "(.*)", line (\d+), in (.*)', str(e))
            if not listed or (listed[-1][2], listed[-1][0], int(listed[-1][1])) != l_second:
                ctx.fail("phase:same_exception:message", "an exception object that an earlier run's call had raised is raised again by another call (%s): the message lists %r as the "
                         "innermost frame, the failing call was created at %r" % (variant, listed[-1:], l_second), {"variant": variant})
    # many plans built, failed and dropped one after the other (addresses get reused): every error's message lists the frames
    # of its own call
    import gc
    import re as _re
    src_lines = {}
    mism = None
    for round_ in range(60):
        ns = {}
        code = "def build_%d(plan, fn):\n%s    return plan.call(fn, %d)\n" % (round_, "    pass\n" * (round_ % 7), round_)
        exec(compile(code, "/ujgen/rounds_%d.py" % round_, "exec"), ns)
        p = uberjob.Plan()
        node = ns["build_%d" % round_](p, boom)
        try:
            uberjob.run(p, output=node, progress=None, max_workers=1)
        except uberjob.CallError as e:
            msg = str(e)
            sf = e.call.stack_frame
            first = (sf.path, sf.line, sf.name)
            listed = _re.findall(r'File "(.*)", line (\d+), in (.*)', msg)
            if not listed or (listed[-1][0], int(listed[-1][1]), listed[-1][2]) != first:
                mism = (round_, first, listed[-1:] )
                break
        del p, node, ns
        gc.collect()
    ctx.case(("phase", "many-rounds"))
    if mism:
        ctx.fail("phase:message-of-another-call", "after %d earlier failed plans were dropped, the message of a new error ends with frame %r although its call was created at %r"
                 % (mism[0], mism[2], mism[1]), {"round": mism[0]})
    # store write fails
    for fail, tag in (("write", "run/store-write"), ("read", "run/store-read-back")):
        p, r = uberjob.Plan(), uberjob.Registry()
        a = p.call(ok, 1); la = here()
        st = MemStore(fail=fail)
        r.add(a, st); lr = here()
        c = p.call(ok, a)
        for via, rr in registry_forms(r):
            try:
                uberjob.run(p, registry=rr, output=c, progress=None)
            except uberjob.CallError as e:
                want = st.__class__.write if fail == "write" else st.__class__.read
                expect(tag + via, fail, e, lambda cl: cl.fn is want, lr)
    # source read fails
    p, r = uberjob.Plan(), uberjob.Registry()
    st = MemStore(fail="read"); st.t = __import__("datetime").datetime(2020, 1, 1)
    s = r.source(p, st); ls = here()
    c = p.call(ok, s)
    for via, rr in registry_forms(r):
        try:
            uberjob.run(p, registry=rr, output=c, progress=None)
        except uberjob.CallError as e:
            expect("run/source-read" + via, "source_read", e, lambda cl: cl.fn is st.__class__.read, ls)
    # modified-time query fails during the stale check: the examined node's creation line
    p, r = uberjob.Plan(), uberjob.Registry()
    a = p.call(ok, 1); la = here()
    st = MemStore(fail="mtime")
    r.add(a, st)
    try:
        uberjob.run(p, registry=r, output=a, progress=None)
    except uberjob.CallError as e:
        expect("stale/mtime", "mtime", e, lambda cl: cl is a, la)
