"""C11: file-backed stores replace their file atomically at every failure point."""
import json
import os
import re
import subprocess

import core
import c11_common as cc

RULE = ("every writer (JsonFileStore, PickleFileStore, TextFileStore, BinaryFileStore, TouchFileStore, staged_write text/"
        "binary, staged_write_path) x str/pathlib path x values (incl. one failing to serialise part-way) x EVERY index k "
        "of the file operations the write performs (open, each write(), close, os.replace / os.remove, recorded by a "
        "fault-free instrumented run) x {exception raised by the operation (for write: after 0 / half / all of the chunk; "
        "for open: before / after creating the file; OSError or a KeyboardInterrupt subclass), os._exit before / after the "
        "operation in a forked child}; old target present / absent / equal to the new content and a junk STAGING file "
        "present or not are drawn from the PRNG. A case is distinct by (writer, path kind, value, k, fault, variant) "
        "and non-trivial when the fault actually fired")
TRUSTED_BASE = [
    "H-rename: os.replace is atomic and carries the staging file's content and mtime (POSIX); not provable here, "
    "exercised by the os._exit cases right before/after the rename",
    "H-clock: every mtime already on disk is older than the clock at the time of the write (clock_ahead premise of C11_old_or_new); "
    "the harness pins old files to a 2001 mtime",
    "fault injection by rebinding `open` and `os` in the namespace of uberjob.stores._file_store and proxying the file object "
    "(harness/c11_common.py); buffering is not modelled: on-disk staging content of a killed process must be a prefix of the model's",
    "reading of the property: 'no staging file after an exception' quantifies over faults in the write's own operations and "
    "serialisation errors; a failure of the cleanup os.remove itself necessarily leaves the file (modelled, compared, not a violation)",
]
HEADER = ("From Coq Require Import List Arith Bool ZArith.\nImport ListNotations.\n"
          "From UJ Require Import Store.FS Store.Staged Run.Exec_Staged.\n")
OPNAME = {"open": "open", "write": "write", "close": "close", "replace": "rename", "remove": "remove"}
FAULT = {1: "exception", 2: "die-before", 3: "die-after"}


def coq_bytes(b):
    return core.coq_list(list(b), lambda x: "%d" % x)


def unusual_faults(ctx):
    """(a) the failure is an exception object that is FALSY (an empty collection of problems) raised from the body of a staged
    write, from a dict being serialised, from __reduce__; (b) the final rename is refused (PermissionError / EACCES) and every
    other way of renaming fails too.  After the failure the target holds its previous state or the new value - never nothing,
    never a part - its modified time moved only if the new value is in place, and the raised exception is the original one."""
    import errno
    import os
    import pathlib
    import shutil
    import tempfile
    import uberjob.stores as st
    m = cc.fs_mod()

    class Problems(Exception):
        def __bool__(self):
            return False

        def __len__(self):
            return 0

    class FalsyItems(dict):
        def items(self):
            yield ("a", 1)
            raise exc_box[0]

    class FalsyReduce:
        def __reduce__(self):
            raise exc_box[0]
    exc_box = [None]
    d = tempfile.mkdtemp(prefix="ujc11u_")
    try:
        for pk in ("str", "pathlib"):
            for previous in (False, True, "symlink"):       # "symlink": the path is a symbolic link to an ordinary file holding the previous value
                for kind in ("staged_write body", "staged_write_path body", "json items", "pickle reduce", "rename refused"):
                    name = os.path.join(d, "t_%s_%s_%s" % (pk, previous, kind.replace(" ", "_")))
                    path = pathlib.Path(name) if pk == "pathlib" else name
                    if previous:
                        real = name + ".real" if previous == "symlink" else name
                        with open(real, "wb") as f:
                            f.write(cc.OLD)
                        os.utime(real, ns=(cc.OLD_NS, cc.OLD_NS))
                        if previous == "symlink":
                            os.symlink(real, name)
                    exc = Problems("no rows")
                    exc_box[0] = exc
                    raised = None
                    saved_os = m.os
                    try:
                        if kind == "staged_write body":
                            with m.staged_write(path, "wb") as f:
                                f.write(b"NEW-PARTIAL")
                                raise exc
                        elif kind == "staged_write_path body":
                            with m.staged_write_path(path) as sp:
                                with open(sp, "wb") as f:
                                    f.write(b"NEW-PARTIAL")
                                raise exc
                        elif kind == "json items":
                            st.JsonFileStore(path).write({"k": FalsyItems(a=1)})
                        elif kind == "pickle reduce":
                            st.PickleFileStore(path).write([b"x" * 70000, FalsyReduce()])
                        else:
                            class RefusingOs:
                                def __getattr__(self, k):
                                    return getattr(os, k)

                                @staticmethod
                                def replace(a, b):
                                    raise PermissionError(errno.EACCES, "rename refused", str(b))

                                @staticmethod
                                def rename(a, b):
                                    raise OSError(errno.EIO, "I/O error", str(b))
                                link = renames = rename
                            m.os = RefusingOs()
                            exc = None
                            st.BinaryFileStore(path).write(b"NEW-VALUE")
                    except BaseException as e:      # noqa
                        raised = e
                    finally:
                        m.os = saved_os
                    listing = sorted(x for x in os.listdir(d) if x.startswith(os.path.basename(name)))
                    content = open(name, "rb").read() if os.path.exists(name) else None
                    mtime = os.stat(name).st_mtime_ns if os.path.exists(name) else None
                    rep = {"path_kind": pk, "previous_value": previous, "failure": kind, "listing": listing, "raised": repr(raised)}
                    ctx.case(("c11-unusual", pk, previous, kind))
                    want_content = cc.OLD if previous else None
                    if raised is None or (exc is not None and raised is not exc):
                        ctx.fail("unusual:exception", "%s: the write %s" % (kind, "returned normally" if raised is None else "raised %r instead of the original exception" % (raised,)), rep)
                    if content != want_content or (previous and mtime != cc.OLD_NS):
                        ctx.fail("unusual:target", "%s (%s, %s): after the failed write the target holds %r (mtime moved: %s); before it held %r"
                                 % (kind, pk, "previous value present" if previous else "no previous value", None if content is None else content[:20],
                                    previous and mtime != cc.OLD_NS, want_content), rep)
                    if os.path.basename(name) + ".STAGING" in listing and kind != "rename refused":
                        ctx.fail("unusual:staging-left", "%s: the staging file was left behind after the exception" % kind, rep)
    finally:
        shutil.rmtree(d, ignore_errors=True)


def failing_flush(ctx):
    """the error surfaces only when the staging file is closed (buffered data cannot be flushed: disk full, quota): the
    write must fail and the target keep its previous state - a short file must never be renamed into place"""
    import errno
    import os
    import shutil
    import tempfile
    import builtins
    import uberjob.stores as st
    m = cc.fs_mod()
    d = tempfile.mkdtemp(prefix="ujc11f_")

    class ShortFlushFile:
        def __init__(self, real):
            self._real = real
            self._n = 0

        def write(self, data):
            self._n += 1
            return self._real.write(data)

        def close(self):
            if self._real.closed:
                return
            self._real.flush()
            size = os.fstat(self._real.fileno()).st_size
            self._real.truncate(size // 2)            # half of the data never reached the disk
            self._real.close()
            raise OSError(errno.ENOSPC, "No space left on device")

        def __enter__(self):
            return self

        def __exit__(self, *a):
            self.close()
            return False

        def __getattr__(self, k):
            return getattr(self._real, k)
    try:
        for name, cls, value in (("text", st.TextFileStore, "some text value " * 20), ("binary", st.BinaryFileStore, b"bytes" * 100),
                                 ("json", st.JsonFileStore, {"k": list(range(50))}), ("pickle", st.PickleFileStore, list(range(200)))):
            for previous in (False, True):
                pth = os.path.join(d, "flush_%s_%s" % (name, previous))
                if previous:
                    with open(pth, "wb") as f:
                        f.write(cc.OLD)
                    os.utime(pth, ns=(cc.OLD_NS, cc.OLD_NS))
                saved = m.__dict__.get("open")
                m.open = lambda p_, *a, **k: ShortFlushFile(builtins.open(p_, *a, **k))
                raised = None
                try:
                    cls(pth).write(value)
                except BaseException as e:      # noqa
                    raised = e
                finally:
                    if saved is None:
                        del m.open
                    else:
                        m.open = saved
                content = open(pth, "rb").read() if os.path.exists(pth) else None
                ctx.case(("c11-failing-flush", name, previous))
                want = cc.OLD if previous else None
                if raised is None or content != want:
                    ctx.fail("failing-flush", "%s: closing the staging file fails (half of the data unflushed): write %s; the target now holds %s, before it held %s"
                             % (cls.__name__, "returned normally" if raised is None else "raised %s" % type(raised).__name__,
                                "nothing" if content is None else "%d bytes %r..." % (len(content), content[:12]), "nothing" if want is None else "the previous value"),
                             {"store": name, "previous_value": previous})
    finally:
        shutil.rmtree(d, ignore_errors=True)


def run(ctx):
    core.use_repo()
    import translate_staged
    translate_staged.check(ctx)       # staged_write_path / staged_write compiled from _file_store.py and linked to Store/Staged.v by a theorem
    unusual_faults(ctx)
    errno_flavoured_faults(ctx)
    leftover_without_target(ctx)
    mounted_over_staged_copy(ctx)
    file_size_limit(ctx)
    failing_flush(ctx)
    thorough = not ctx.quick
    writers = cc.WRITERS
    cases = []          # (meta, case)
    dry = {}
    # ---- 1. fault-free instrumented run per (writer, value, pathkind): op sequence, chunks, new bytes
    for w in writers:
        for vname in cc.values_for(w, thorough):
            for pk in ("str", "pathlib"):
                base = {"writer": w, "value": vname, "pathkind": pk, "old_bytes": cc.OLD, "leftover": False, "kind": 0, "k": -1}
                o = cc.run_case(base)
                ops = [x[0] for x in o["log"]]
                chunks = [x[1] for x in o["log"] if x[0] == "write"]
                ser_ok = o["outcome"] == 0
                ctx.case((w, vname, pk, "dry"), nontrivial=bool(ops))
                ctx.count("ops_per_write", len(ops))
                want = ["open"] + ["write"] * len(chunks) + ["close", "replace" if ser_ok else "remove"]
                if ops and ops != want:
                    ctx.broke("C11 operation sequence of one write differs from Store/Staged.v",
                              {"writer": w, "value": vname, "ops": ops, "model": want})
                if not ops:
                    # rejected before any file operation (TouchFileStore with a non-None value): nothing may change
                    if o["outcome"] != 1 or o["target"] != cc.OLD or o["mtime_changed"] or o["listing"] != ["t.dat"]:
                        ctx.fail("rejected-value:touched", "a write rejected up front touched the directory", {"case": base, "obs": cc.enc(o)})
                    continue
                new = b"".join(chunks) if ser_ok else None
                if ser_ok and (o["target"] != new or not o["mtime_changed"] or o["listing"] != ["t.dat"]):
                    ctx.fail("clean-write", "a fault-free write did not install the new content / left files behind",
                             {"case": base, "obs": cc.enc(o)})
                dry[(w, vname, pk)] = (ops, chunks, ser_ok, new)
    # mode validation of staged_write
    import uberjob.stores._file_store as fsm
    try:
        with fsm.staged_write(os.path.join(core.ROOT, "build", "never-created"), "rb"):
            pass
        ctx.fail("mode-check", "staged_write accepted a mode without 'w'", {"mode": "rb"})
    except ValueError:
        pass
    ctx.case(("mode", "rb"))

    # ---- 2. enumerate every operation index and fault
    for (w, vname, pk), (ops, chunks, ser_ok, new) in sorted(dry.items()):
        for k, opn in enumerate(ops):
            variants = []
            if opn == "write":
                n = len(chunks[ops[:k].count("write")])
                # the proxy takes a prefix of the data (characters for text) and reports the byte count back
                for pre in sorted({0, n // 2, n}):
                    variants.append((1, pre))
            elif opn == "open":
                variants += [(1, 0), (1, 1)]
            else:
                variants.append((1, 0))
            variants += [(2, 0), (3, 0)]
            for kind, pre in variants * ctx.n(1, 5):
                r = ctx.rng.random()
                old = cc.OLD if r < 0.7 else (None if r < 0.88 else (new if new is not None else cc.OLD))
                case = {"writer": w, "value": vname, "pathkind": pk, "old_bytes": old,
                        "leftover": ctx.rng.random() < 0.3, "kind": kind, "k": k, "pre": pre,
                        "exc": "OSError" if ctx.rng.random() < 0.6 else "KeyboardInterrupt", "later": True}
                if ctx.quick and len(ops) > 12 and kind == 1 and opn == "write" and pre not in (0,) and k % 3:
                    continue
                cases.append(({"op": opn, "ops": ops, "chunks": chunks, "ser_ok": ser_ok, "new": new}, case))
    # leftover with no fault at all, and reads with a leftover present
    for (w, vname, pk), (ops, chunks, ser_ok, new) in sorted(dry.items()):
        cases.append(({"op": "none", "ops": ops, "chunks": chunks, "ser_ok": ser_ok, "new": new},
                      {"writer": w, "value": vname, "pathkind": pk, "old_bytes": cc.OLD, "leftover": True, "kind": 0, "k": -1, "later": True}))

    # ---- 3. run: exceptions in-process, deaths in the helper process
    obs = [None] * len(cases)
    death_idx = [i for i, (_, c) in enumerate(cases) if c["kind"] in (2, 3)]
    for i, (_, c) in enumerate(cases):
        if c["kind"] not in (2, 3):
            obs[i] = cc.run_case(c)
    if death_idx:
        p = subprocess.run([core.PY, os.path.join(os.path.dirname(os.path.abspath(__file__)), "c11_child.py")],
                           input=json.dumps([cc.enc(cases[i][1]) for i in death_idx]), env=core.repo_env(),
                           stdout=subprocess.PIPE, stderr=subprocess.PIPE, text=True, timeout=900)
        if p.returncode != 0:
            ctx.broke("C11 helper process failed", p.stderr[-2000:])
        else:
            rep = json.loads(p.stdout)
            if not rep["uberjob"].startswith(core.REPO_SRC):
                ctx.broke("C11 helper imported uberjob from the wrong place", rep["uberjob"])
            for i, o in zip(death_idx, rep["results"]):
                obs[i] = cc.dec(o)

    # ---- 4. monitors (model-free) and model terms
    terms, tmeta = [], []
    for (meta, c), o in zip(cases, obs):
        if o is None or "harness_error" in (o or {}):
            ctx.broke("C11 case did not run", {"case": cc.enc(c), "obs": o})
            continue
        w, k, kind = c["writer"], c["k"], c["kind"]
        opn = OPNAME.get(meta["op"], meta["op"])
        fname = FAULT.get(kind, "none")
        fired = (o["outcome"] == 2) if kind in (2, 3) else (kind == 1 and o.get("fired") is not None)
        tag = "%s-%s" % (opn, fname)
        ctx.case((w, c["value"], c["pathkind"], k, kind, c.get("pre"), c["old_bytes"] is None, c["leftover"]),
                 nontrivial=fired or kind == 0)
        ctx.count("fault", tag)
        ctx.count("writer", w)
        ctx.count("old_target", "absent" if c["old_bytes"] is None else ("equal-to-new" if c["old_bytes"] == meta["new"] and meta["new"] is not None else "present"))
        ctx.count("leftover_staging", c["leftover"])
        replay = {"case": cc.enc(c), "observed": cc.enc({k2: v for k2, v in o.items() if k2 != "log"}), "operation": opn, "fault": fname}
        if kind in (1, 2, 3) and not fired:
            ctx.broke("C11 fault did not fire", replay)
        old, new = c["old_bytes"], meta["new"]
        # M1: target is exactly old or exactly new; mtime moves only with the new content in place
        t = o["target"]
        if t != old and (new is None or t != new):
            ctx.fail("%s:target-torn" % tag, "after a %s at %s the target holds neither the old nor the new value" % (fname, opn), replay)
        elif old is not None and t is not None:
            if o["mtime_changed"] and (new is None or t != new):
                ctx.fail("%s:mtime" % tag, "modified time changed although the new value is not in place", replay)
            if not o["mtime_changed"] and t != old:
                ctx.fail("%s:mtime" % tag, "target replaced but modified time unchanged", replay)
        # M2: no staging file after an exception (faults in the cleanup's own os.remove excepted)
        if o["outcome"] == 1 and not (kind == 1 and meta["op"] == "remove"):
            if any(n.endswith(".STAGING") for n in o["listing"]):
                ctx.fail("%s:staging-left" % ("rename-exception" if tag == "rename-exception" else tag),
                         "the write failed by exception (%s at %s) and left %r" % (fname, opn, o["listing"]), replay)
        if o["outcome"] == 0 and o["listing"] != ["t.dat"]:
            ctx.fail("%s:success-listing" % tag, "a successful write left %r" % o["listing"], replay)
        # M3: whatever is left (incl. a STAGING file of a killed process or junk) does not disturb a later write + read
        lat = o.get("later")
        if lat is not None:
            if lat.get("error") or not lat.get("read_ok") or lat["listing"] != ["t.dat"]:
                ctx.fail("%s:later-write" % tag, "a later write/read after this fault misbehaved: %r" % lat, replay)
            if o["staging"] is not None:
                ctx.count("later_write_with_staging_present", tag)
        # model
        if (w, c["value"]) in cc.IMPL_ONLY:
            ctx.count("impl_only", w)
            continue
        pre = 0
        if kind == 1:
            pre = o["fired"][1] if o.get("fired") else 0
            if meta["op"] == "open":
                pre = c["pre"]
        terms.append("exec_write true %s %s %s %s %d %d %d" % (
            core.coq_option(old, coq_bytes), core.coq_option(cc.JUNK if c["leftover"] else None, coq_bytes),
            core.coq_list(meta["chunks"], coq_bytes), core.coq_bool(meta["ser_ok"]), kind, max(k, 0), pre))
        tmeta.append((c, o, replay))

    outs = core.coq_eval(HEADER, terms, ty="list nat", shard=150)
    for (c, o, replay), out in zip(tmeta, outs):
        m = [int(x) for x in re.findall(r"\d+", out)]
        m_out, m_stg, m_tgt, m_chg, m_len = m[:5]
        m_t, m_s = bytes(m[5:5 + m_len]), bytes(m[5 + m_len:])
        ctx.compared("Store/Staged.v staged_write vs faulted writes of /repo stores")
        impl = (o["outcome"], int(o["staging"] is not None), int(o["target"] is not None),
                int(bool(o["mtime_changed"]) if c["old_bytes"] is not None else o["target"] is not None),
                o["target"] or b"")
        model = (m_out, m_stg, m_tgt, m_chg, m_t)
        ok = impl == model
        if ok and o["staging"] is not None:
            ok = m_s.startswith(o["staging"]) if o["outcome"] == 2 else m_s == o["staging"]
        if not ok:
            ctx.broke("correspondence Store/Staged.v vs /repo (outcome, staging?, target?, mtime changed, target bytes)",
                      {"case": replay["case"], "operation": replay["operation"], "fault": replay["fault"],
                       "model": [m_out, m_stg, m_tgt, m_chg, m_t.hex(), m_s.hex()],
                       "impl": [impl[0], impl[1], impl[2], impl[3], impl[4].hex(), (o["staging"] or b"").hex()]})
    ctx.notes["c11_cases"] = {"total": len(cases), "deaths": len(death_idx), "model_terms": len(terms)}
    for (meta, c), o in list(zip(cases, obs))[:400:97]:
        if o:
            ctx.samples.append({"case": cc.enc(c), "op": meta["op"], "outcome": o["outcome"], "listing": o["listing"]})


def errno_flavoured_faults(ctx):
    """The I/O error at file operation k is one of the specific OSError subclasses the OS reports (PermissionError, FileNotFoundError,
    InterruptedError ...), for values that serialise AND for values whose serialisation fails part-way: whatever the code does about the
    error, the target afterwards holds the complete previous value (modified time unmoved) or the complete new one, and a write that
    raised leaves no staging file."""
    for writer in ("json", "pickle", "text", "binary", "sw_bin", "swp"):
        vals = cc.values_for(writer, True)
        names = [cc.GOOD_VALUE[writer]] + [n for n in vals if n.startswith(("bad", "big_bad", "raise"))][:2]
        for vname in names:
            clean = cc.run_case({"writer": writer, "value": vname, "pathkind": "str", "old_bytes": cc.OLD, "kind": 0, "k": -1})
            nops = len(clean.get("log") or [])
            new_bytes = clean["target"] if clean["outcome"] == 0 else None
            for pk in ("str", "pathlib"):
                for flavour in cc.ERRNO_FLAVOURS:
                    for k in range(nops):
                        case = {"writer": writer, "value": vname, "pathkind": pk, "old_bytes": cc.OLD, "kind": 1, "k": k, "pre": 0, "exc": flavour}
                        r = cc.run_case(case)
                        ctx.case(("c11-errno", writer, vname, pk, flavour, k))
                        op = (r.get("log") or [[None]])[k][0] if k < len(r.get("log") or []) else "?"
                        t, moved = r["target"], r["mtime_changed"]
                        ok_old = t == cc.OLD and not moved
                        ok_new = new_bytes is not None and t == new_bytes
                        rep = dict(case, old_bytes=None, operation=op, outcome=r["outcome"], listing=r["listing"])
                        if not (ok_old or ok_new):
                            ctx.fail("errno:target", "%s store writing the value %r (%s path): %s at file operation %d (%s): afterwards the target holds %s (%d bytes; modified time %s) - "
                                     "neither the complete previous value nor the complete new one"
                                     % (writer, vname, pk, flavour, k, op, "nothing" if t is None else "a truncated / mixed value", len(t or b""), "moved" if moved else "unmoved"), rep)
                        elif r["outcome"] == 1 and r["staging"] is not None and op not in ("remove", "os.unlink"):      # (a fault in the clean-up itself cannot be cleaned up)
                            ctx.fail("errno:staging-left", "%s store writing %r (%s path): %s at file operation %d (%s): the write raised and left the staging file behind"
                                     % (writer, vname, pk, flavour, k, op), rep)


def leftover_without_target(ctx):
    """A writer that died during the very FIRST write leaves `<path>.STAGING` and no target.  Nothing is stored: the modified time is
    None, reading fails, and merely asking does not create the target - for every store, str and pathlib paths, before and after
    repeated queries."""
    import os
    import pathlib
    import shutil
    import tempfile
    import uberjob.stores as st
    kinds = {"json": (st.JsonFileStore, b'{"a": [1, 2'), "pickle": (st.PickleFileStore, b"\x80\x04\x95\x10\x00\x00"), "text": (st.TextFileStore, b"half a li"),
             "binary": (st.BinaryFileStore, b"\x00\x01"), "touch": (st.TouchFileStore, b"")}
    d = tempfile.mkdtemp(prefix="ujc11l_")
    try:
        for kind, (cls, partial) in kinds.items():
            for pk in ("str", "pathlib"):
                name = os.path.join(d, "%s_%s.dat" % (kind, pk))
                with open(name + ".STAGING", "wb") as f:
                    f.write(partial)
                store = cls(pathlib.Path(name) if pk == "pathlib" else name)
                problems = []
                for attempt in (1, 2):
                    try:
                        mt = store.get_modified_time()
                    except Exception as e:      # noqa
                        mt = "raised %s" % type(e).__name__
                    if mt is not None:
                        problems.append("get_modified_time() = %r although nothing was ever stored" % (mt,))
                    if os.path.exists(name):
                        problems.append("the target file exists after get_modified_time() (content %r)" % open(name, "rb").read()[:20])
                        break
                try:
                    got = store.read()
                    problems.append("read() returned %r although nothing was ever stored" % (got,))
                except OSError:
                    pass
                except Exception as e:      # noqa
                    problems.append("read() raised %s instead of reporting the missing file" % type(e).__name__)
                ctx.case(("c11-leftover-without-target", kind, pk))
                if problems:
                    ctx.fail("leftover:promoted", "%s store, a dead writer's staging file and no target: %s" % (kind, "; ".join(problems)), {"store": kind, "path_kind": pk})
    finally:
        shutil.rmtree(d, ignore_errors=True)


FSIZE_CHILD = r'''
import json, os, resource, signal, sys, tempfile, shutil, pathlib
import uberjob.stores as st
from uberjob.stores._file_store import staged_write
signal.signal(signal.SIGXFSZ, signal.SIG_IGN)
d = tempfile.mkdtemp(prefix="ujc11fs_")
out = []
try:
    OLD = b"old value"
    # (limit, payload scale): 8192 / large payloads fail inside the body's write; 1024 / payloads smaller than the io buffer fail only
    # when the buffered data is flushed - at close
    for limit, big, nchar in ((8192, bytes(range(256)) * 200, 60000), (1024, bytes(range(256)) * 12, 3000)):
        def _sw(p):
            with staged_write(p, "wb") as f:
                f.write(big)
        cases = {"binary": (lambda p: st.BinaryFileStore(p), big), "pickle": (lambda p: st.PickleFileStore(p), [big, "tail"]),
                 "text": (lambda p: st.TextFileStore(p), "x" * nchar), "json": (lambda p: st.JsonFileStore(p), ["y" * nchar]),
                 "staged_write wb": (None, None)}
        for name, (mk, value) in cases.items():
            for pk in ("str", "pathlib"):
                path = os.path.join(d, "%s_%s_%d" % (name.replace(" ", "_"), pk, limit))
                with open(path, "wb") as f:
                    f.write(OLD)
                os.utime(path, (1_600_000_000, 1_600_000_000))
                pp = pathlib.Path(path) if pk == "pathlib" else path
                store = mk(pp) if mk else None
                resource.setrlimit(resource.RLIMIT_FSIZE, (limit, resource.RLIM_INFINITY))
                try:
                    store.write(value) if store is not None else _sw(pp)
                    oc = "returned"
                except OSError as e:
                    oc = "oserror"
                except BaseException as e:
                    oc = "raised %s" % type(e).__name__
                finally:
                    resource.setrlimit(resource.RLIMIT_FSIZE, (resource.RLIM_INFINITY, resource.RLIM_INFINITY))
                content = open(path, "rb").read()
                readback = None
                if oc == "returned" and store is not None:
                    try:
                        got = store.read()
                        readback = "equal" if got == value and type(got) is type(value) else "a different value (%d bytes in the file)" % len(content)
                    except BaseException as e:
                        readback = "raises %s" % type(e).__name__
                out.append({"case": name, "path": pk, "limit": limit, "outcome": oc, "readback": readback, "target_is_old": content == OLD, "target_len": len(content),
                            "mtime_moved": os.stat(path).st_mtime != 1_600_000_000,
                            "listing": sorted(x for x in os.listdir(d) if x.startswith(os.path.basename(path)))})
finally:
    shutil.rmtree(d, ignore_errors=True)
print(json.dumps({"uberjob": os.path.dirname(st.__file__), "out": out}))
'''


def file_size_limit(ctx):
    """The file system refuses data part-way (a file-size limit, a quota, a full disk - produced for real with RLIMIT_FSIZE in a helper
    process): the write fails with the OS error and the target keeps its previous value and modified time; a value cut short is never
    renamed into place."""
    import json
    import subprocess
    p = subprocess.run([core.PY, "-c", FSIZE_CHILD], env=core.repo_env(), stdout=subprocess.PIPE, stderr=subprocess.PIPE, text=True, timeout=120)
    ctx.case(("c11-file-size-limit",))
    if p.returncode != 0:
        ctx.broke("C11 file-size-limit helper failed", p.stderr[-1500:])
        return
    rep = json.loads(p.stdout)
    if not rep["uberjob"].startswith(core.REPO_SRC):
        ctx.broke("C11 helper imported uberjob from the wrong place", rep["uberjob"])
    for r in rep["out"]:
        ctx.case(("c11-file-size-limit", r["case"], r["path"], r["limit"]))
        if r["outcome"] != "oserror" or not r["target_is_old"] or r["mtime_moved"] or len(r["listing"]) != 1:
            ctx.fail("size-limit", "%s (%s path) under a file-size limit of %d bytes: the write %s; the target %s (%d bytes), its modified time %s; files: %r"
                     % (r["case"], r["path"], r["limit"], r["outcome"], "keeps the previous value" if r["target_is_old"] else "no longer holds the previous value", r["target_len"],
                        "moved" if r["mtime_moved"] else "did not move", r["listing"]), r)


def mounted_over_staged_copy(ctx):
    """A MountedStore whose "remote" is itself a file published with staged_write / staged_write_path: a fault in the middle of the copy
    leaves the published file with its previous content and modified time, and no staging file - the staging helpers are as atomic inside
    MountedStore.write as anywhere else."""
    import os
    import pathlib
    import shutil
    import tempfile
    import uberjob.stores as st
    from uberjob.stores._mounted_store import MountedStore
    m = cc.fs_mod()
    d = tempfile.mkdtemp(prefix="ujc11m_")
    try:
        n = 0
        for helper in ("staged_write", "staged_write_path"):
            for kind, cls, old, new in (("text", st.TextFileStore, "old " * 100, "new " * 120), ("json", st.JsonFileStore, ["old"] * 50, ["new"] * 70), ("pickle", st.PickleFileStore, b"o" * 400, b"n" * 500)):
                for pk in ("str", "pathlib"):
                    for fault in (True, False):
                        n += 1
                        target = os.path.join(d, "published_%d.dat" % n)
                        tpath = pathlib.Path(target) if pk == "pathlib" else target

                        class Published(MountedStore):
                            fail = False

                            def copy_from_local(self, local_path):
                                data = open(local_path, "rb").read()
                                if helper == "staged_write":
                                    with m.staged_write(tpath, "wb") as f:
                                        f.write(data[:len(data) // 2])
                                        f.flush()
                                        if Published.fail:
                                            raise ConnectionError("copy interrupted")
                                        f.write(data[len(data) // 2:])
                                else:
                                    with m.staged_write_path(tpath) as sp:
                                        with open(sp, "wb") as f:
                                            f.write(data[:len(data) // 2])
                                            f.flush()
                                            if Published.fail:
                                                raise ConnectionError("copy interrupted")
                                            f.write(data[len(data) // 2:])

                            def copy_to_local(self, local_path):
                                shutil.copyfile(target, local_path)

                            def get_modified_time(self):
                                return m.get_modified_time(tpath)
                        store = Published(cls)
                        store.write(old)
                        os.utime(target, ns=(cc.OLD_NS, cc.OLD_NS))
                        before = open(target, "rb").read()
                        Published.fail = fault
                        try:
                            store.write(new)
                            oc = "returned"
                        except ConnectionError:
                            oc = "raised"
                        except BaseException as e:      # noqa
                            oc = "raised %s" % type(e).__name__
                        Published.fail = False
                        after = open(target, "rb").read() if os.path.exists(target) else None
                        listing = sorted(x for x in os.listdir(d) if x.startswith(os.path.basename(target)))
                        ctx.case(("c11-mounted-over-staged-copy", helper, kind, pk, fault))
                        if fault:
                            if oc != "raised" or after != before or os.stat(target).st_mtime_ns != cc.OLD_NS or len(listing) != 1:
                                ctx.fail("mounted-staged-copy", "MountedStore publishing through %s (%s store, %s path), the copy interrupted half way: write %s; the published file %s "
                                         "(%s bytes, was %d), modified time %s; files: %r" % (helper, kind, pk, oc, "keeps its previous content" if after == before else "was CHANGED",
                                                                                              None if after is None else len(after), len(before),
                                                                                              "unchanged" if os.path.exists(target) and os.stat(target).st_mtime_ns == cc.OLD_NS else "moved", listing),
                                         {"helper": helper, "store": kind, "path_kind": pk})
                        else:
                            try:
                                got = store.read()
                            except BaseException as e:      # noqa
                                got = "raised %s" % type(e).__name__
                            if oc != "returned" or got != new or len(listing) != 1:
                                ctx.fail("mounted-staged-copy", "MountedStore publishing through %s (%s store): an uninterrupted write %s and read gives %r" % (helper, kind, oc, str(got)[:60]),
                                         {"helper": helper, "store": kind, "path_kind": pk})
    finally:
        shutil.rmtree(d, ignore_errors=True)
