"""C12: stores return what was written and report modified times faithfully."""
import datetime as dt
import io
import json
import locale
import os
import pathlib
import pickle
import re
import shutil
import struct
import tempfile
import time

import core

RULE = ("per store class a value stream: TextFileStore - every line terminator (\\n \\r \\r\\n \\x0b \\x0c \\x1c \\x1d \\x1e \\x85 "
        "U+2028 U+2029) alone / leading / trailing / doubled / embedded, all C0+C1 control characters, empty, a 1 MB value, random "
        "surrogate-free strings over the full code point range; BinaryFileStore - all byte values, empty, random, 1 MB; JsonFileStore - "
        "generated JSON values (nesting to depth 6 and one 200-deep, big ints, floats compared by float.hex incl. -0.0/inf/nan/denormals, "
        "strings from the text stream as values and keys); PickleFileStore - the JSON stream plus tuples, sets, frozensets, bytes, complex, "
        "class instances, shared and cyclic references; TouchFileStore - None; x encodings None/utf-8/utf-16/latin-1 (where the text is "
        "representable) x str/pathlib path x direct / through two MountedStore subclasses. A case is distinct by (store, value, encoding, "
        "path kind, mount); all are non-trivial (a real file is written and read back). The hypotheses H-enc/H-json/H-pickle/'no raw CR in "
        "json.dump output' are tested on the same values; the text-layer model is compared with CPython's open() on short strings")
TRUSTED_BASE = [
    "H-enc: s.encode(e).decode(e) == s for text representable in e (CPython codecs; premise of C12_text/json_roundtrip, tested per value)",
    "H-json: json.load(json.dump(v, indent=4)) == v and json.dump emits no raw CR and only ASCII (premises of C12_json_roundtrip, tested per value)",
    "H-pickle: pickle.loads(pickle.dumps(v)) == v (premise of C12_pickle_roundtrip, tested per value)",
    "H-clock: the file system clock does not run backwards between successive writes (FS.v stamps with a strictly increasing logical clock; "
    "the harness checks st_mtime_ns never decreases)",
    "universal-newline behaviour of io.TextIOWrapper (modelled by Codec.univ_nl / write_nl, compared with real files on every run)",
    "POSIX os.linesep == '\\n' (the harness asserts it)",
]
TERMS = ["\n", "\r", "\r\n", "\x0b", "\x0c", "\x1c", "\x1d", "\x1e", "\x85", "\u2028", "\u2029"]
HEADER = ("From Coq Require Import List Arith Bool ZArith.\nImport ListNotations.\n"
          "From UJ Require Import Store.FS Store.Staged Store.Codec Run.Exec_Staged Run.Exec_Codec.\nLocal Open Scope Z_scope.\n")


class Pt:
    """A picklable user class (module-level so that pickle can find it)."""

    def __init__(self, x, y):
        self.x, self.y = x, y

    def __eq__(self, o):
        return type(o) is Pt and same(self.x, o.x) and same(self.y, o.y)

    def __hash__(self):
        return 7


def same(a, b, depth=0):
    """Equal value of the same type, floats by float.hex, containers recursively (order of dict keys included)."""
    if type(a) is not type(b):
        return False
    if isinstance(a, float):
        return a.hex() == b.hex()
    if isinstance(a, complex):
        return same(a.real, b.real) and same(a.imag, b.imag)
    if isinstance(a, (list, tuple)):
        return len(a) == len(b) and all(same(x, y, depth + 1) for x, y in zip(a, b))
    if isinstance(a, dict):
        return len(a) == len(b) and all(same(k1, k2) and same(a[k1], b[k2], depth + 1) for k1, k2 in zip(a, b))
    if isinstance(a, (set, frozenset)):
        return a == b and all(any(same(x, y) for y in b) for x in a)
    return a == b


def rand_text(rng, n=None):
    n = rng.randint(0, 12) if n is None else n
    out = []
    for _ in range(n):
        r = rng.random()
        if r < 0.3:
            out.append(rng.choice(TERMS))
        elif r < 0.45:
            out.append(chr(rng.randint(0, 0x9f)))
        elif r < 0.7:
            out.append(chr(rng.randint(0x20, 0xff)))
        else:
            c = rng.randint(0, 0x10ffff)
            while 0xd800 <= c <= 0xdfff:
                c = rng.randint(0, 0x10ffff)
            out.append(chr(c))
    return "".join(out)


def text_values(ctx):
    vals = []
    for t in TERMS:
        for s in (t, "a" + t, t + "b", "a" + t + "b", t + t, "a" + t + t + "b" + t):
            vals.append(("terminator", s))
    vals.append(("terminator", "x".join(TERMS)))
    vals.append(("terminator", "\n\r\r\n\n\r"))
    vals.append(("control", "".join(chr(i) for i in range(0, 32)) + "\x7f" + "".join(chr(i) for i in range(0x80, 0xa0))))
    for i in list(range(0, 32)) + [0x7f, 0x85, 0xa0, 0xfeff, 0xfffe, 0xffff, 0x10000, 0x10ffff, 0xd7ff, 0xe000]:
        vals.append(("control", "a" + chr(i) + "b"))
    vals.append(("empty", ""))
    for s_ in ("\ufeff", "\ufeffhello", "\ufeff\ufeffx", "\ufeff\n", "\ufffe", "\ufffeabc", "\ufeff" + "é" * 3):
        vals.append(("bom-first", s_))          # U+FEFF as the first character is data, not a byte-order mark
    vals.append(("large", "line one\r\nline two\rline three\n\u2028é" * 25000))          # ~1 MB, implementation side only
    for _ in range(ctx.n(150, 3000)):
        vals.append(("random", rand_text(ctx.rng)))
    return vals


def rand_float(rng):
    r = rng.random()
    if r < 0.25:
        return rng.choice([0.0, -0.0, float("inf"), float("-inf"), float("nan"), 5e-324, 2.2250738585072014e-308,
                           1.7976931348623157e308, 0.1, 1e22, 1e23, 1 / 3, -1e-7])
    if r < 0.6:
        return struct.unpack("<d", struct.pack("<Q", rng.getrandbits(64)))[0]
    return rng.uniform(-1e6, 1e6)


def rand_json(rng, depth=0, maxdepth=6):
    r = rng.random()
    if depth >= maxdepth or r < 0.45:
        k = rng.randint(0, 6)
        if k == 0:
            return None
        if k == 1:
            return rng.random() < 0.5
        if k == 2:
            return rng.choice([0, -1, 2 ** 31, 2 ** 63, -2 ** 64, 2 ** 70 + 1, 10 ** 40, -10 ** 300, rng.randint(-10 ** 9, 10 ** 9)])
        if k == 3:
            return rand_float(rng)
        return rand_text(rng)
    if r < 0.72:
        return [rand_json(rng, depth + 1, maxdepth) for _ in range(rng.randint(0, 4))]
    d = {}
    for _ in range(rng.randint(0, 4)):
        d[rand_text(rng, rng.randint(0, 4))] = rand_json(rng, depth + 1, maxdepth)
    return d


def rand_pickle(rng, depth=0):
    r = rng.random()
    if depth >= 5 or r < 0.4:
        k = rng.randint(0, 8)
        if k == 0:
            return rng.randbytes(rng.randint(0, 9))
        if k == 1:
            return complex(rand_float(rng), rand_float(rng))
        if k == 2:
            return bytearray(rng.randbytes(3))
        if k == 3:
            return rng.choice([Ellipsis, NotImplemented, range(3), int, len, 2 ** 200])
        return rand_json(rng, 4)
    if r < 0.55:
        return tuple(rand_pickle(rng, depth + 1) for _ in range(rng.randint(0, 3)))
    if r < 0.65:
        return frozenset(rng.choice([1, "a", b"b", (1, 2), None, 2.5, 2 ** 70]) for _ in range(rng.randint(0, 4)))
    if r < 0.72:
        return set(rng.choice([1, "a", b"b", (1, 2), None, 2.5]) for _ in range(rng.randint(0, 4)))
    if r < 0.8:
        return Pt(rand_pickle(rng, depth + 1), rand_text(rng))
    if r < 0.9:
        return [rand_pickle(rng, depth + 1) for _ in range(rng.randint(0, 3))]
    return {rng.choice([1, "k", (1, "t"), b"b", None, 2.5]): rand_pickle(rng, depth + 1) for _ in range(rng.randint(0, 3))}


def cps(s):
    return core.coq_list([ord(c) for c in s], core.coq_Z)


def ints(out):
    return [int(x) for x in re.findall(r"-?\d+", out)]


def extra_scenarios(ctx):
    """(a) several stores whose paths differ only in the extension, written at overlapping times, each return their own
    value; (b) a store written over a pre-existing file of another kind / non-empty content returns what was written."""
    import pickle
    import shutil
    import uberjob.stores as st
    d = tempfile.mkdtemp(prefix="ujc12x_")
    try:
        # (a) the write of one store happens in the middle of the serialisation of its sibling
        for pk in ("str", "pathlib"):
            mk = (lambda n: os.path.join(d, n)) if pk == "str" else (lambda n: __import__("pathlib").Path(d) / n)
            txt = st.TextFileStore(mk("result.txt"))
            js = st.JsonFileStore(mk("result.json"))
            pkl = st.PickleFileStore(mk("result.pkl"))

            class Nested:
                def __reduce__(self):
                    txt.write("text value")          # a sibling store is written while this pickle is being written
                    js.write({"k": [1, 2]})
                    return (str, ("pickled",))
            ctx.case(("c12-siblings", pk))
            try:
                pkl.write([1, Nested(), 2])
                got = (pkl.read(), txt.read(), js.read())
            except BaseException as e:  # noqa
                got = ("error", type(e).__name__, str(e)[:80])
            want = ([1, "pickled", 2], "text value", {"k": [1, 2]})
            if got != want:
                ctx.fail("siblings:interference", "stores result.pkl / result.txt / result.json written at overlapping times read back %r, expected %r" % (got, want),
                         {"path_kind": pk, "listing": sorted(os.listdir(d))})
            for f in os.listdir(d):
                os.remove(os.path.join(d, f))
        # (a') two MountedStores whose operations overlap (as two workers of one run produce): the second store's complete
        # write/read happens on another thread while the first is between its local write and its upload / between its
        # download and its local read
        import threading
        from uberjob.stores._mounted_store import MountedStore

        class Remote(MountedStore):
            def __init__(self, create, hook):
                super().__init__(create)
                self.blob, self.hook = None, hook

            def copy_from_local(self, local_path):          # upload
                self.hook()
                with open(local_path, "rb") as f:
                    self.blob = f.read()

            def copy_to_local(self, local_path):            # download
                with open(local_path, "wb") as f:
                    f.write(self.blob)
                self.hook()

            def get_modified_time(self):
                return None

        for kind, create, va, vb in (("text", st.TextFileStore, "value of A", "B's much longer value " * 5),
                                     ("json", st.JsonFileStore, {"a": 1}, ["b", 2, 3]),
                                     ("pickle", st.PickleFileStore, ("A", 1), {"B": [2]}),
                                     ("binary", st.BinaryFileStore, b"A" * 10, b"B" * 300)):
            state = {"on": True, "timeout": False}
            b = Remote(create, lambda: None)

            def other():
                if not state["on"]:
                    return
                state["on"] = False

                def work():
                    b.write(vb)
                    state["b_read"] = b.read()
                th = threading.Thread(target=work, daemon=True)
                th.start()
                th.join(10)
                state["timeout"] = th.is_alive()
                state["on"] = True
            a = Remote(create, other)
            ctx.case(("c12-mounted-overlap", kind))
            try:
                a.write(va)
                got = (a.read(), state.get("b_read"))
                b_after = b.read()
            except BaseException as e:  # noqa
                got, b_after = ("error", "%s: %s" % (type(e).__name__, str(e)[:80])), None
            if state["timeout"]:
                ctx.count("mounted_overlap_blocked", kind)
            elif got != (va, vb) or b_after != vb:
                ctx.fail("mounted:interference", "two MountedStore(%s) whose operations overlap read back %r / %r, written %r / %r"
                         % (create.__name__, got, b_after, va, vb), {"store": kind})
        # (a'') pickle: the object GRAPH comes back - shared sub-objects stay shared, cycles stay cycles
        shared = [1, 2]
        cyc = [1]
        cyc.append(cyc)
        dcyc = {"k": 1}
        dcyc["self"] = dcyc
        child = Pt(None, "child")
        parent = Pt([child], "parent")
        child.x = parent
        for name, value, ok in (("shared", {"a": shared, "b": shared}, lambda g: g["a"] == [1, 2] and g["a"] is g["b"]),
                                ("self-list", cyc, lambda g: g[0] == 1 and g[1] is g),
                                ("self-dict", dcyc, lambda g: g["k"] == 1 and g["self"] is g),
                                ("parent-pointers", parent, lambda g: g.y == "parent" and g.x[0].y == "child" and g.x[0].x is g)):
            for via in ("direct", "mounted"):
                ctx.case(("c12-pickle-graph", name, via))
                try:
                    if via == "direct":
                        stp = st.PickleFileStore(os.path.join(d, "graph_%s.pkl" % name))
                    else:
                        stp = Remote(st.PickleFileStore, lambda: None)
                    stp.write(value)
                    got = stp.read()
                    good = type(got) is type(value) and ok(got)
                    detail = "read back an object graph of a different shape"
                except BaseException as e:      # noqa
                    good, detail = False, "raised %s: %s" % (type(e).__name__, str(e)[:100])
                if not good:
                    ctx.fail("pickle:graph", "PickleFileStore (%s) with a picklable value that has %s: %s" % (via, name, detail), {"value": name, "via": via})
        # (a3) a reader that overlaps writers never sees anything but a value that was written (the file is replaced atomically)
        import threading
        for cls, short, long_ in ((st.BinaryFileStore, b"short-value", b"L" * 300000), (st.TextFileStore, "short", "long " * 50000)):
            pth = os.path.join(d, "torn_%s.dat" % cls.__name__)
            store = cls(pth)
            store.write(short)
            stop = threading.Event()

            def writer():
                k = 0
                while not stop.is_set():
                    store.write(long_ if k % 2 == 0 else short)
                    k += 1
            th = threading.Thread(target=writer, daemon=True)
            th.start()
            torn = None
            try:
                for _ in range(ctx.n(3000, 30000)):
                    got = cls(pth).read()
                    if got != short and got != long_:
                        torn = got
                        break
            finally:
                stop.set()
                th.join(10)
            ctx.case(("c12-overlapping-read", cls.__name__))
            if torn is not None:
                ctx.fail("torn-read", "%s.read() overlapping writes of two values returned %d %s that were never written (a prefix: %r...)"
                         % (cls.__name__, len(torn), "bytes" if isinstance(torn, bytes) else "characters", torn[:12]), {"store": cls.__name__})
        # (a4) the device refuses part of the data (file size limit): the write fails and the previous value stays
        pid = os.fork()
        if pid == 0:
            code = 0
            try:
                import resource
                big = b"B" * (1 << 20) + b"tail" * 3000
                for via in ("direct", "mounted"):
                    target = st.BinaryFileStore(os.path.join(d, "quota_%s.bin" % via)) if via == "direct" else Remote(st.BinaryFileStore, lambda: None)
                    target.write(b"previous")
                    resource.setrlimit(resource.RLIMIT_FSIZE, (1 << 20, resource.RLIM_INFINITY))
                    try:
                        target.write(big)
                        outcome = "returned"
                    except OSError:
                        outcome = "oserror"
                    finally:
                        resource.setrlimit(resource.RLIMIT_FSIZE, (resource.RLIM_INFINITY, resource.RLIM_INFINITY))
                    got = target.read()
                    if not ((outcome == "oserror" and got == b"previous") or (outcome == "returned" and got == big)):
                        code |= 1 if via == "direct" else 2
            except BaseException:       # noqa
                code = 8
            os._exit(code)
        _, status = os.waitpid(pid, 0)
        code = os.waitstatus_to_exitcode(status)
        ctx.case(("c12-size-limit",))
        if code in (1, 2, 3):
            ctx.fail("short-write", "BinaryFileStore (%s) under a file-size limit: write() returned normally but read() does not return the value written "
                     "(nor was the previous value kept)" % ("direct" if code == 1 else "through a MountedStore" if code == 2 else "direct and mounted"),
                     {"child_exit": code})
        elif code != 0:
            ctx.count("size_limit_scenario_unavailable", code)
        # (a5) a store object that was copied or pickled is the same store: same path, same encoding
        import copy as _copy
        import pickle as _pickle
        for enc in (None, "utf-8", "utf-16", "latin-1"):
            for cls, val in ((st.TextFileStore, "h\u00e9llo\r\n"), (st.JsonFileStore, {"k": "\u00e9"})):
                for how in ("copy.copy", "copy.deepcopy", "pickle"):
                    orig = cls(os.path.join(d, "enc_%s_%s.dat" % (cls.__name__, enc)), encoding=enc) if enc else cls(os.path.join(d, "enc_%s_default.dat" % cls.__name__))
                    ctx.case(("c12-copied-store", cls.__name__, enc, how))
                    try:
                        dup = _copy.copy(orig) if how == "copy.copy" else _copy.deepcopy(orig) if how == "copy.deepcopy" else _pickle.loads(_pickle.dumps(orig))
                        orig.write(val)
                        a = dup.read()
                        dup.write(val)
                        b = orig.read()
                        okc = a == val and b == val
                        det = "read %r / %r" % (a, b)
                    except BaseException as e:      # noqa
                        okc, det = False, "raised %s: %s" % (type(e).__name__, str(e)[:80])
                    if not okc:
                        ctx.fail("copied-store", "%s(encoding=%r) duplicated with %s: a value written through one object and read through the other: %s, written %r"
                                 % (cls.__name__, enc, how, det, val), {"store": cls.__name__, "encoding": enc, "how": how})
        # (a6) a value overwritten by another of the same size, the file keeping the same modified time (coarse clocks, cp -p):
        # read returns what is stored now
        for cls, v1, v2 in ((st.PickleFileStore, ("value", 1), ("value", 2)), (st.JsonFileStore, {"k": 1}, {"k": 2}), (st.TextFileStore, "abc1", "abc2"),
                            (st.BinaryFileStore, b"abc1", b"abc2")):
            pth = os.path.join(d, "same_%s.dat" % cls.__name__)
            s_ = cls(pth)
            s_.write(v1)
            os.utime(pth, ns=(10 ** 18, 10 ** 18))
            r1 = s_.read()
            s_.write(v2)
            os.utime(pth, ns=(10 ** 18, 10 ** 18))
            r2 = cls(pth).read()
            r3 = s_.read()
            ctx.case(("c12-same-size-same-mtime", cls.__name__))
            if r1 != v1 or r2 != v2 or r3 != v2:
                ctx.fail("same-size-same-mtime", "%s: value %r overwritten by %r (same size, same modified time): reads gave %r then %r / %r"
                         % (cls.__name__, v1, v2, r1, r2, r3), {"store": cls.__name__})
        # (b) written over existing content
        for name, store, value in (("touch", st.TouchFileStore, None), ("text", st.TextFileStore, "new"), ("binary", st.BinaryFileStore, b"new"),
                                   ("json", st.JsonFileStore, {"a": 1}), ("pickle", st.PickleFileStore, (1, 2))):
            p = os.path.join(d, "x_" + name)
            with open(p, "wb") as f:
                f.write(b"previous content of another kind, longer than the new value " * 3)
            s_ = store(p)
            ctx.case(("c12-overwrite", name))
            try:
                s_.write(value)
                got = s_.read()
                ok = got == value and type(got) is type(value)
            except BaseException as e:  # noqa
                got, ok = "%s: %s" % (type(e).__name__, e), False
            if not ok:
                ctx.fail("overwrite:%s" % name, "%s written over an existing non-empty file reads back %r instead of %r" % (store.__name__, got, value), {"store": name})
    finally:
        shutil.rmtree(d, ignore_errors=True)


MTIME_CHILD = r'''
import datetime as dt, json, os, sys, tempfile, time, shutil, pathlib
time.tzset()
import uberjob.stores as st
from uberjob.stores._file_store import get_modified_time
req = json.load(sys.stdin)
root = tempfile.mkdtemp(prefix="ujc12tz_")
out = []
try:
    n = 0
    for ts in req["instants"]:
        for kind in ("text", "json", "pickle", "binary", "touch", "pathsource", "function"):
            for pk in ("str", "pathlib"):
                n += 1
                p = os.path.join(root, "f%d" % n)
                with open(p, "wb") as f:
                    f.write(b"null" if kind == "json" else b"")
                os.utime(p, (ts, ts))
                q = pathlib.Path(p) if pk == "pathlib" else p
                store = {"text": st.TextFileStore, "json": st.JsonFileStore, "pickle": st.PickleFileStore, "binary": st.BinaryFileStore,
                         "touch": st.TouchFileStore, "pathsource": st.PathSource}.get(kind)
                mt = get_modified_time(q) if store is None else store(q).get_modified_time()
                if mt is None:
                    out.append({"kind": kind, "path": pk, "ts": ts, "got": None})
                    continue
                want = dt.datetime.fromtimestamp(ts)
                denotes = mt.timestamp()        # a naive datetime is read as local time, honouring fold
                if denotes != ts or (mt.tzinfo is None and (mt != want or mt.fold != want.fold)):
                    out.append({"kind": kind, "path": pk, "ts": ts, "got": repr(mt), "fold": mt.fold, "denotes": denotes, "want": repr(want), "want_fold": want.fold})
finally:
    shutil.rmtree(root, ignore_errors=True)
print(json.dumps({"uberjob": os.path.dirname(st.__file__), "tzname": list(time.tzname), "bad": out, "n": n}))
'''


def mtime_zones(ctx):
    """a file store's modified time denotes the instant of the file's mtime in EVERY process time zone, also for instants inside the
    hour that local clocks repeat when daylight saving ends (the naive local datetime carries fold=1 there) and around the skipped hour"""
    import subprocess
    import zoneinfo
    utc = dt.timezone.utc
    zones = {"America/New_York": dt.datetime(2021, 11, 7, 6, 0, tzinfo=utc), "Europe/London": dt.datetime(2021, 10, 31, 1, 0, tzinfo=utc),
             "Australia/Lord_Howe": dt.datetime(2021, 4, 3, 15, 0, tzinfo=utc), "America/St_Johns": dt.datetime(2021, 11, 7, 4, 30, tzinfo=utc), "UTC": dt.datetime(2021, 7, 1, tzinfo=utc)}
    for z, back in zones.items():
        x = int(back.timestamp())
        spring = {"America/New_York": dt.datetime(2021, 3, 14, 7, 0, tzinfo=utc), "Europe/London": dt.datetime(2021, 3, 28, 1, 0, tzinfo=utc)}.get(z)
        instants = sorted({x + k * 600 for k in range(-9, 10)} | {x - 1, x + 1, x - 3601, x + 3599} | ({int(spring.timestamp()) + k * 900 for k in range(-3, 4)} if spring else set())
                          | {0, 1, -3600, 86400, 2 ** 31 + 5}) + [0.5, 1.25]    # the epoch itself (a zeroed / restored timestamp), just around it, past 2038
        env = core.repo_env()
        env["TZ"] = z
        p = subprocess.run([core.PY, "-c", MTIME_CHILD], input=json.dumps({"instants": instants}), env=env, stdout=subprocess.PIPE, stderr=subprocess.PIPE, text=True, timeout=300)
        ctx.case(("mtime-zones", z), nontrivial=z != "UTC")
        if p.returncode != 0:
            ctx.fail("mtime:zones-error", "TZ=%s: reading modified times of existing files raised: %s" % (z, p.stderr.strip().splitlines()[-1:] or "?"), {"zone": z, "stderr": p.stderr[-1500:]})
            continue
        rep = json.loads(p.stdout)
        if not rep["uberjob"].startswith(core.REPO_SRC):
            ctx.broke("C12 time-zone helper imported uberjob from the wrong place", rep["uberjob"])
        ctx.count("mtime_zone_probes", z, rep["n"])
        for b in rep["bad"][:3]:
            ctx.fail("mtime:zones", "TZ=%s: the modified time a %s reports for a file last modified at %s (UTC) is %s fold=%s, which denotes %s: not the file's mtime%s"
                     % (z, b["kind"], dt.datetime.fromtimestamp(b["ts"], utc).isoformat(), b["got"], b.get("fold"),
                        "nothing" if b["got"] is None else dt.datetime.fromtimestamp(b["denotes"], utc).isoformat(),
                        " (inside the repeated hour the naive local time must carry fold=%s)" % b.get("want_fold") if b.get("want_fold") else ""),
                     {"zone": z, "tzname": rep["tzname"], **b})


def size_limited_writes(ctx):
    """read after write under a file-size limit / full disk (RLIMIT_FSIZE in a helper process, shared with C11): a write that RETURNS
    must have stored the whole value - whether the OS error arrives in the middle of the body or only when the buffered tail is flushed
    at close."""
    import subprocess
    import c11
    p = subprocess.run([core.PY, "-c", c11.FSIZE_CHILD], env=core.repo_env(), stdout=subprocess.PIPE, stderr=subprocess.PIPE, text=True, timeout=120)
    ctx.case(("c12-file-size-limit",))
    if p.returncode != 0:
        ctx.broke("C12 file-size-limit helper failed", p.stderr[-1500:])
        return
    rep = json.loads(p.stdout)
    if not rep["uberjob"].startswith(core.REPO_SRC):
        ctx.broke("C12 helper imported uberjob from the wrong place", rep["uberjob"])
    for r in rep["out"]:
        ctx.case(("c12-file-size-limit", r["case"], r["path"], r["limit"]))
        if r["outcome"] == "returned" and r["readback"] not in (None, "equal"):
            ctx.fail("size-limit-readback", "%s (%s path) under a file-size limit of %d bytes: write() returned normally, and read() afterwards %s"
                     % (r["case"], r["path"], r["limit"], "returns " + r["readback"] if not r["readback"].startswith("raises") else r["readback"]), r)


def mounted_histories(ctx):
    """read returns what was LAST written to the mounted location, over histories: an upload that fails and is retried with the same
    value; two store objects on one location used alternately; the same value written again after another one; a store object reused
    after the remote object was replaced behind its back"""
    import uberjob.stores as st
    from uberjob.stores._mounted_store import MountedStore

    class Remote:
        def __init__(self):
            self.blob, self.mtime, self.fail_next = None, None, 0

    class Mounted(MountedStore):
        def __init__(self, remote, create):
            super().__init__(create)
            self.remote = remote

        def copy_from_local(self, local_path):
            if self.remote.fail_next:
                self.remote.fail_next -= 1
                raise ConnectionError("upload failed")
            with open(local_path, "rb") as f:
                self.remote.blob = f.read()
            self.remote.mtime = dt.datetime.now()

        def copy_to_local(self, local_path):
            with open(local_path, "wb") as f:
                f.write(self.remote.blob)

        def get_modified_time(self):
            return self.remote.mtime
    kinds = {"json": (st.JsonFileStore, [{"a": 1}, {"b": [2]}]), "pickle": (st.PickleFileStore, [(1, 2), {"k": b"v"}]), "text": (st.TextFileStore, ["one", "two"]),
             "binary": (st.BinaryFileStore, [b"\x00one", b"two"])}
    for kind, (cls, (va, vb)) in kinds.items():
        for history in ("failed-upload-then-retry", "two-handles-alternating", "a-b-a-one-handle", "replaced-behind-its-back"):
            remote = Remote()
            s1, s2 = Mounted(remote, cls), Mounted(remote, cls)
            steps, want = [], None
            try:
                if history == "failed-upload-then-retry":
                    s1.write(vb)
                    remote.fail_next = 1
                    try:
                        s1.write(va)
                        steps.append("the failing upload was not reported")
                    except ConnectionError:
                        pass
                    s1.write(va)        # the retry
                    want = va
                elif history == "two-handles-alternating":
                    s1.write(va)
                    s2.write(vb)
                    s1.write(va)
                    want = va
                elif history == "a-b-a-one-handle":
                    s1.write(va)
                    s1.write(vb)
                    s1.write(va)
                    want = va
                else:
                    s1.write(va)
                    remote.blob, remote.mtime = None, None          # the remote object is deleted by someone else
                    s2.write(vb)
                    s1.write(va)
                    want = va
                got = s1.read()
                got2 = s2.read()
            except Exception as e:      # noqa
                steps.append("raised %s: %s" % (type(e).__name__, e))
                got = got2 = None
            ctx.case(("mounted-history", kind, history))
            if steps or not same(got, want) or not same(got2, want) or remote.mtime is None:
                ctx.fail("mounted:history", "%s store on a mounted location, history %s: read returns %r (through the other store object %r), last written %r%s"
                         % (kind, history, got, got2, want, "; " + "; ".join(steps) if steps else ""), {"store": kind, "history": history})


def run(ctx):
    core.use_repo()
    import translate_mtime
    translate_mtime.check(ctx)       # get_modified_time (and the delegating methods) compiled from _file_store.py / _path_source.py and linked to Codec.store_mtime
    mounted_histories(ctx)
    mtime_zones(ctx)
    size_limited_writes(ctx)
    extra_scenarios(ctx)
    import uberjob.stores as st
    from uberjob.stores._mounted_store import MountedStore
    from uberjob.stores._file_store import get_modified_time, staged_write

    if os.linesep != "\n":
        ctx.broke("C12 harness expects POSIX os.linesep", repr(os.linesep))
    root = tempfile.mkdtemp(prefix="ujc12_")
    counter = [0]

    def fresh(pk):
        counter[0] += 1
        p = os.path.join(root, "f%d.dat" % counter[0])
        return pathlib.Path(p) if pk == "pathlib" else p

    class MemMounted(MountedStore):
        """remote object = bytes in memory, as uberjob/_testing/test_mounted_file_store.py builds one"""

        def __init__(self, create):
            super().__init__(create)
            self.blob, self.mtime = None, None

        def copy_from_local(self, local_path):
            with open(local_path, "rb") as f:
                self.blob = f.read()
            self.mtime = dt.datetime.now()

        def copy_to_local(self, local_path):
            with open(local_path, "wb") as f:
                f.write(self.blob)

        def get_modified_time(self):
            return self.mtime

    try:
        from uberjob._testing.test_mounted_file_store import TestMountedFileStore
    except Exception as e:       # pragma: no cover
        TestMountedFileStore = None
        ctx.broke("cannot import uberjob._testing.TestMountedFileStore", repr(e))

    def make(kind, pk, enc, mount):
        """returns (store, path or None, raw_bytes())"""
        def create(p):
            if kind == "text":
                return st.TextFileStore(p, encoding=enc)
            if kind == "json":
                return st.JsonFileStore(p, encoding=enc)
            if kind == "pickle":
                return st.PickleFileStore(p)
            if kind == "binary":
                return st.BinaryFileStore(p)
            return st.TouchFileStore(p)
        if mount == "direct":
            p = fresh(pk)
            return create(p), p, lambda: open(p, "rb").read()
        if mount == "mem":
            s = MemMounted(create)
            return s, None, lambda: s.blob
        s = TestMountedFileStore(create)
        return s, None, lambda: s.remote_store.value

    try:
        _run(ctx, st, make, fresh, get_modified_time, staged_write, TestMountedFileStore, root)
    finally:
        shutil.rmtree(root, ignore_errors=True)


def _run(ctx, st, make, fresh, get_modified_time, staged_write, TestMountedFileStore, root):
    rng = ctx.rng
    default_enc = locale.getpreferredencoding(False)
    ctx.notes["default_encoding"] = default_enc
    mounts = ["direct", "mem"] + (["testmounted"] if TestMountedFileStore else [])

    def representable(s, enc):
        try:
            b = s.encode(enc or default_enc)
        except UnicodeError:
            return False
        ctx.compared("H-enc")
        if b.decode(enc or default_enc) != s:
            ctx.broke("H-enc fails: decode(encode(s)) != s", {"encoding": enc, "text": ascii(s)[:200]})
            return False
        return True

    def roundtrip(kind, cls, v, enc, pk, mount, eq=same, show=None):
        store, path, raw = make(kind, pk, enc, mount)
        ctx.case((kind, ascii(v)[:300] if show is None else show, enc, pk, mount))
        ctx.count("store", kind)
        ctx.count("%s_class" % kind, cls)
        ctx.count("mount", mount)
        ctx.count("encoding", enc if kind in ("text", "json") else "-")
        ctx.count("pathkind", pk)
        replay = {"store": kind, "value": ascii(v)[:500] if show is None else show, "encoding": enc, "path": pk, "mount": mount}
        key = "%s:%s" % (kind, "cr" if (kind == "text" and "\r" in v) else cls)
        try:
            before = store.get_modified_time()
            store.write(v)
            got = store.read()
            after = store.get_modified_time()
        except Exception as e:
            ctx.fail(key, "%s write/read raised %s: %s" % (kind, type(e).__name__, e), replay)
            return None
        if not eq(got, v):
            replay["read_back"] = ascii(got)[:500]
            ctx.fail(key, "%s read after write returned a different value (or type %s for %s)" % (kind, type(got).__name__, type(v).__name__), replay)
        if before is not None:
            ctx.fail("%s:mtime-before" % kind, "get_modified_time is not None although nothing is stored", replay)
        if after is None:
            ctx.fail("%s:mtime-after" % kind, "get_modified_time is None after a write", replay)
        if path is not None and after is not None:
            want = dt.datetime.fromtimestamp(os.path.getmtime(path))
            if after != want:
                ctx.fail("%s:mtime-faithful" % kind, "get_modified_time %r differs from the file's mtime %r" % (after, want), replay)
        return raw

    # ------------------------------------------------------------------ text
    tvals = text_values(ctx)
    for cls, s in tvals:
        combos = [(e, pk, m) for e in (None, "utf-8", "utf-16", "latin-1") for pk in ("str", "pathlib") for m in mounts]
        if cls in ("random", "large") or (ctx.quick and cls == "control" and len(s) == 3):
            combos = [rng.choice(combos) for _ in range(2)]
        elif ctx.quick:
            combos = [c for c in combos if c[2] == "direct" or rng.random() < 0.35]
        for enc, pk, m in combos:
            if not representable(s, enc):
                ctx.count("unrepresentable_skipped", enc)
                continue
            raw = roundtrip("text", cls, s, enc, pk, m, show=(ascii(s)[:300] if len(s) < 2000 else "1MB:%d" % len(s)))
            if raw is not None and len(s) < 2000:
                # the bytes on disk are exactly the encoded text (no newline translation on the way out)
                ctx.compared("text bytes on disk")
                if raw() != s.encode(enc or default_enc):
                    ctx.fail("text:%s" % ("cr" if "\r" in s else cls), "TextFileStore wrote bytes that are not the encoding of the value",
                             {"value": ascii(s)[:300], "encoding": enc, "disk": raw().hex()[:400]})

    # ------------------------------------------------------------------ binary
    bvals = [("allbytes", bytes(range(256))), ("empty", b""), ("terminator", b"a\r\nb\rc\n"), ("large", os.urandom(0) + bytes(rng.getrandbits(8) for _ in range(1000)) * 1049)]
    bvals += [("random", rng.randbytes(rng.randint(0, 40))) for _ in range(ctx.n(60, 1000))]
    # values that ARE (or merely begin like) payloads of common container / compression / text formats: a store must not sniff them
    import bz2
    import gzip
    import lzma
    import zlib
    bvals += [("lookalike", v) for v in (
        gzip.compress(b"payload"), gzip.compress(b"a") + gzip.compress(b"b"), b"\x1f\x8b", b"\x1f\x8b\x08\x00junk", bz2.compress(b"p"), b"BZh9",
        lzma.compress(b"p"), b"\xfd7zXZ\x00", zlib.compress(b"p"), b"\x78\x9c", b"PK\x03\x04", b"PK\x05\x06" + b"\0" * 18, b"\x28\xb5\x2f\xfd", b"\x04\x22\x4d\x18",
        pickle.dumps([1, 2]), b"\x80\x04", b'{"a": 1}', b"\xef\xbb\xbf", b"\xff\xfe", b"\xfe\xff\x00a", b"aGVsbG8=", b"deadbeef", b"%PDF-1.4", b"\x89PNG\r\n\x1a\n",
        b"#!/bin/sh\n", b"\x00\x00\x00\x00", b"\x1f", b"\x8b\x1f")]
    for cls, b in bvals:
        for pk in ("str", "pathlib"):
            for m in mounts:
                if cls == "random" and rng.random() < 0.6:
                    continue
                raw = roundtrip("binary", cls, b, None, pk, m, show=b.hex()[:200] if len(b) < 5000 else "1MB:%d" % len(b))
                if raw is not None and raw() != b:
                    ctx.fail("binary:%s" % cls, "BinaryFileStore wrote different bytes", {"value": b.hex()[:200]})

    # ------------------------------------------------------------------ json
    jvals = [("scalar", x) for x in (None, True, False, 0, -1, 2 ** 70 + 1, 10 ** 40, -0.0, float("inf"), float("nan"), 5e-324, "", "\r", "a\r\nb", "\u2028", "\x00")]
    deep = cur = []
    for _ in range(200):
        nxt = []
        cur.append(nxt)
        cur = nxt
    jvals.append(("deep200", deep))
    jvals.append(("deep-dict", {"": {"\r": {"\n": {"\u2029": [1, {"k": [[]]}]}}}}))
    jvals += [("terminator-string", "a" + t + "b") for t in TERMS] + [("terminator-key", {t: t}) for t in TERMS]
    jvals.append(("control-string", "".join(chr(i) for i in range(0, 0xa0))))
    jvals.append(("large", ["x" * 1000, 1.5, None] * 300))
    jvals += [("random", rand_json(rng)) for _ in range(ctx.n(200, 4000))]
    for cls, v in jvals:
        # hypotheses on this very value, as the store uses json: dump(v, fp, indent=4) / load(fp)
        buf = io.StringIO()
        json.dump(v, buf, indent=4)
        text = buf.getvalue()
        ctx.compared("H-json")
        if not same(json.loads(text), v):
            ctx.broke("H-json fails: json.loads(json.dumps(v)) != v", {"value": ascii(v)[:300]})
            continue
        if "\r" in text or not text.isascii():
            ctx.broke("H-json: json.dump output contains a raw CR or non-ASCII text", {"value": ascii(v)[:300]})
        combos = [(e, pk, m) for e in (None, "utf-8", "utf-16", "latin-1") for pk in ("str", "pathlib") for m in mounts]
        combos = [rng.choice(combos) for _ in range(2)] if (cls in ("random", "large") or ctx.quick) else combos
        for enc, pk, m in combos:
            roundtrip("json", cls, v, enc, pk, m)

    # ------------------------------------------------------------------ pickle
    shared = [1, 2]
    cyc = [1]
    cyc.append(cyc)
    pvals = [("scalar", x) for x in (None, True, 2 ** 200, -0.0, float("nan"), b"", b"\r\n", "\r", (), frozenset(), Ellipsis, 1j)]
    pvals += [("shared", [shared, shared, (shared,)]), ("instance", Pt((1, b"x"), {"k": {1, 2}})), ("large", [b"x" * 70000, "y" * 70000, list(range(5000))])]
    pvals += [("json-like", v) for _, v in jvals[:40]]
    pvals += [("random", rand_pickle(rng)) for _ in range(ctx.n(200, 4000))]
    for cls, v in pvals:
        ctx.compared("H-pickle")
        if not same(pickle.loads(pickle.dumps(v)), v):
            ctx.broke("H-pickle fails: pickle.loads(pickle.dumps(v)) != v", {"value": ascii(v)[:300]})
            continue
        for pk, m in ([(pk, m) for pk in ("str", "pathlib") for m in mounts] if cls != "random" and not ctx.quick else [(rng.choice(("str", "pathlib")), rng.choice(mounts)) for _ in range(2)]):
            roundtrip("pickle", cls, v, None, pk, m)
    # identity structure survives: sharing and cycles
    for pk in ("str", "pathlib"):
        for m in mounts:
            store, _, _ = make("pickle", pk, None, m)
            store.write([shared, shared, cyc])
            g = store.read()
            ctx.case(("pickle", "sharing", pk, m))
            if not (g[0] is g[1] and g[0] == [1, 2] and g[2][1] is g[2] and g[2][0] == 1 and len(g[2]) == 2):
                ctx.fail("pickle:sharing", "shared / cyclic references did not survive the round trip", {"path": pk, "mount": m})

    # ------------------------------------------------------------------ touch
    for pk in ("str", "pathlib"):
        for m in mounts:
            raw = roundtrip("touch", "none", None, None, pk, m)
            if raw is not None and raw() != b"":
                ctx.fail("touch:content", "TouchFileStore wrote a non-empty file", {"path": pk, "mount": m})
        p = fresh(pk)
        t = st.TouchFileStore(p)
        try:
            t.write(0)
            ctx.fail("touch:domain", "TouchFileStore accepted a value other than None", {"value": 0})
        except TypeError:
            pass
        if os.path.exists(p) or t.get_modified_time() is not None:
            ctx.fail("touch:domain", "a rejected TouchFileStore write created the file", {"value": 0})
        with open(p, "wb") as f:
            f.write(b"x")
        try:
            t.read()
            ctx.fail("touch:nonempty", "TouchFileStore.read accepted a non-empty file", {})
        except OSError:
            pass
        ctx.case(("touch", "domain", pk))

    # ------------------------------------------------------------------ modified times: presence and monotonicity
    hist_terms, hist_impl = [], []
    for i in range(ctx.n(40, 400)):
        ops = [0 if rng.random() < 0.7 else 1 for _ in range(rng.randint(1, 7))]
        pk = rng.choice(("str", "pathlib"))
        p = fresh(pk)
        store = rng.choice([st.BinaryFileStore(p), st.TextFileStore(p), st.JsonFileStore(p), st.PickleFileStore(p)])
        val = {"BinaryFileStore": b"\x01", "TextFileStore": "x", "JsonFileStore": [1], "PickleFileStore": (1,)}[type(store).__name__]
        flags, prev = [], None
        if store.get_modified_time() is not None:
            ctx.fail("mtime:absent", "get_modified_time is not None for a path that does not exist", {"store": type(store).__name__})
        for o in ops:
            if o == 0:
                t_before = time.time()
                store.write(val)
                mt_w = store.get_modified_time()
                # faithful: the reported time is the time of THIS write (file-system clocks may lag the wall clock by a few ms), not that of an earlier one
                if mt_w is not None and mt_w.timestamp() < t_before - 0.05:
                    ctx.fail("mtime:not-the-time-of-the-write", "after a write that began at %.3f the store reports a modified time of %.3f (%.0f ms earlier): the time of an earlier write"
                             % (t_before, mt_w.timestamp(), (t_before - mt_w.timestamp()) * 1000), {"store": type(store).__name__, "ops": ops})
                time.sleep(0.06)
            else:
                try:
                    os.remove(p)
                except FileNotFoundError:
                    pass
            mt = store.get_modified_time()
            exists = os.path.exists(p)
            if (mt is None) != (not exists):
                ctx.fail("mtime:none-iff-absent", "get_modified_time is None = %s but the file exists = %s" % (mt is None, exists),
                         {"store": type(store).__name__, "ops": ops})
            ns = os.stat(p).st_mtime_ns if exists else None
            if exists and mt != dt.datetime.fromtimestamp(os.path.getmtime(p)):
                ctx.fail("mtime:faithful", "get_modified_time differs from the file's mtime", {"store": type(store).__name__, "ops": ops})
            mono = True if (prev is None or ns is None) else ns >= prev
            if not mono:
                ctx.fail("mtime:decreased", "modified time decreased across successive writes (%r -> %r)" % (prev, ns), {"store": type(store).__name__, "ops": ops})
            flags += [int(mt is not None), int(mono)]
            prev = ns if ns is not None else prev
        ctx.case(("mtime-history", tuple(ops), type(store).__name__, pk))
        ctx.count("mtime_history_len", len(ops))
        hist_terms.append("exec_presence %s" % core.coq_list(ops, lambda x: "%d%%nat" % x))
        hist_impl.append((ops, flags))
    # a directory exists -> a time; a path below a missing directory / a file used as directory -> None
    ctx.case(("mtime", "odd paths"))
    if get_modified_time(root) is None or get_modified_time(os.path.join(root, "no", "such")) is not None:
        ctx.fail("mtime:odd-path", "get_modified_time wrong for a directory / a missing parent", {})
    for pk in ("str", "pathlib"):
        for m in [x for x in ("mem", "testmounted") if x in mounts]:
            store, _, _ = make("binary", pk, None, m)
            times = []
            if store.get_modified_time() is not None:
                ctx.fail("mounted:mtime-before", "mounted store reports a time before anything was written", {"mount": m})
            for k in range(4):
                store.write(bytes([k]))
                times.append(store.get_modified_time())
            ctx.case(("mounted-mtime", pk, m))
            if any(t is None for t in times) or any(b < a for a, b in zip(times, times[1:])):
                ctx.fail("mounted:mtime", "mounted store modified times missing or decreasing: %r" % times, {"mount": m})

    # ------------------------------------------------------------------ model vs CPython: text layer and latin-1 TextFileStore
    alphabet = ["\r", "\n", "a", "\x85", "\u2028", "\x0c", "\x00", "é", "\x1c"]
    strings = [""] + TERMS + ["\r\r\n", "\n\r", "\r\n\r\n", "a\r", "\ra"]
    for _ in range(ctx.n(120, 1500)):
        strings.append("".join(rng.choice(alphabet if rng.random() < 0.8 else ["\r", "\n"]) for _ in range(rng.randint(0, 8))))
    terms, expect = [], []
    probe = os.path.join(root, "probe.txt")
    for s in strings:
        # read side: bytes -> text
        with open(probe, "wb") as f:
            f.write(s.encode("utf-8"))
        with open(probe, encoding="utf-8") as f:
            r_none = f.read()
        with open(probe, encoding="utf-8", newline="") as f:
            r_raw = f.read()
        terms.append("exec_univ_nl %s" % cps(s))
        expect.append(("univ_nl", s, [ord(c) for c in r_none]))
        if r_raw != s:
            ctx.broke("open(newline='') is not the identity on read", ascii(s))
        # write side: text -> bytes
        for raw_flag, nl in ((False, None), (True, "")):
            with open(probe, "w", encoding="utf-8", newline=nl) as f:
                f.write(s)
            with open(probe, "rb") as f:
                w = f.read().decode("utf-8")
            terms.append("exec_text_out %s %s" % (core.coq_bool(raw_flag), cps(s)))
            expect.append(("text_out raw=%s" % raw_flag, s, [ord(c) for c in w]))
        if all(ord(c) < 256 for c in s):
            # current TextFileStore
            p = fresh("str")
            ts = st.TextFileStore(p, encoding="latin-1")
            ts.write(s)
            disk = open(p, "rb").read()
            back = ts.read()
            terms.append("exec_text_store true %s" % cps(s))
            expect.append(("TextFileStore latin-1", s, list(disk) + [-1] + [ord(c) for c in back]))
            # the pre-fix store, re-enacted with the very calls it made: staged_write(path, encoding=e) / open(path, encoding=e)
            p2 = fresh("str")
            with staged_write(p2, encoding="latin-1") as f:
                f.write(s)
            disk2 = open(p2, "rb").read()
            with open(p2, encoding="latin-1") as f:
                back2 = f.read()
            terms.append("exec_text_store false %s" % cps(s))
            expect.append(("pre-fix TextFileStore latin-1", s, list(disk2) + [-1] + [ord(c) for c in back2]))
        ctx.case(("text-layer", s))
        ctx.count("text_layer_len", len(s))
    outs = core.coq_eval(HEADER, terms, ty="list Z", shard=300)
    houts = core.coq_eval(HEADER, hist_terms, ty="list nat", shard=300)
    for (what, s, exp), out in zip(expect, outs):
        ctx.compared("Store/Codec.v text layer / TextFileStore vs CPython open()")
        if ints(out) != exp:
            ctx.broke("correspondence Store/Codec.v (%s) vs CPython/uberjob" % what, {"text": ascii(s), "model": ints(out), "impl": exp})
    for (ops, flags), out in zip(hist_impl, houts):
        ctx.compared("Store/Codec.v modified-time history vs FileStore.get_modified_time")
        if ints(out) != flags:
            ctx.broke("correspondence Store/Codec.v (exec_presence) vs /repo", {"ops": ops, "model": ints(out), "impl": flags})
    ctx.samples.append({"text_values": len(tvals), "json_values": len(jvals), "pickle_values": len(pvals), "text_layer_strings": len(strings)})
