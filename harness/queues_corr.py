"""Correspondence + monitors for uberjob/_execution/scheduler.py queues vs coq/theories/Engine/Queues.v.

run_queues(ctx): random op sequences (put x / get) on real `create_simple_queue`, `RandomQueue`, `PriorityQueue` objects,
driven either directly through `_put/_get/_qsize` or through the stdlib `put / get(block=False) / task_done`.
`random` in the scheduler module namespace is replaced by a recording proxy (shuffle / randrange), so the index chosen
by RandomQueue._put is known and the model (`rq_put i x l`) is deterministic.
Compared with the model (Exec_Queues.exec_fifo / exec_rq / exec_pq): initial unfinished_tasks, qsize after every put, the
item returned by every get, the final contents (exact list for deque and RandomQueue, sorted (key, item) pairs for the heap).
Model-free monitors (C04 "no loss, no duplication"): after every op the multiset of items held equals
initial + puts - gets, every get returns an item that was held; unfinished_tasks = initial + puts - task_dones;
H-heapq / H-shuffle are tested (multiset preserved by heapify/heappush/heappop and by random.shuffle);
PriorityQueue returns an item of minimal priority.
"""
import collections
import queue as pyqueue

import core
import graphgen as gg

RULE_QUEUES = ("random op sequences of length 0-30 over items 0..14 (item 0 plays DONE: lowest priority, may repeat) on the three "
               "queue classes x {direct _put/_get, put/get(block=False)/task_done}; distinct by (class, mode, initial items, ops, "
               "recorded random indices); non-trivial = at least one get after a put")
TRUSTED_BASE_QUEUES = ["H-heapq: heapq.heapify/heappush/heappop preserve the multiset of entries and pop a minimal one (tested on every op)",
                       "H-shuffle: random.shuffle permutes in place; random.randrange(n) returns 0 <= i < n (the recording proxy checks both)",
                       "queue.Queue put/get/task_done bookkeeping (stdlib; unfinished_tasks +1 per put, -1 per task_done)"]
HEADER = ("From Coq Require Import List Arith Bool.\nImport ListNotations.\n"
          "From UJ Require Import Run.Exec_Queues.\n")
NITEMS = 15


class RandProxy:
    """stands in for the `random` module inside uberjob._execution.scheduler"""

    def __init__(self, rng):
        self.rng, self.ranges, self.shuffles = rng, [], []

    def shuffle(self, lst):
        before = list(lst)
        self.rng.shuffle(lst)
        self.shuffles.append((before, list(lst)))

    def randrange(self, n):
        i = self.rng.randrange(n)
        self.ranges.append((n, i))
        return i

    def __getattr__(self, name):   # anything else the module might start using: fail closed
        raise AttributeError("scheduler uses random.%s, which the harness does not model" % name)


def run_queues(ctx, n_cases=None):
    core.use_repo()
    import uberjob._execution.scheduler as sch

    n_cases = n_cases or ctx.n(450, 6000)
    rng = ctx.rng
    proxy = RandProxy(rng)
    saved_random = sch.random
    sch.random = proxy
    terms, expect = [], []
    try:
        for ci in range(n_cases):
            disc = ("fifo", "random", "priority")[ci % 3]
            mode = rng.choice(["direct", "api"])
            # priorities: distinct per distinct item; item 0 = DONE gets -1 (shifted key 0)
            perm = list(range(1, NITEMS))
            rng.shuffle(perm)
            table = [0] + perm                       # shifted key of item x (real priority = table[x] - 1)
            init = [rng.randrange(1, NITEMS) for _ in range(rng.choice([0, 0, 1, 2, 3, 5]))]
            if disc == "priority":
                init = list(dict.fromkeys(init))     # ties only between identical items (DONE), as in the engine
            proxy.ranges.clear()
            proxy.shuffles.clear()
            if disc == "fifo":
                q = sch.create_simple_queue(list(init))
            elif disc == "random":
                q = sch.RandomQueue(list(init))
            else:
                q = sch.PriorityQueue(list(init), lambda x: table[x] - 1)
            key = "queue:%s" % disc
            replay = {"class": disc, "mode": mode, "initial": init}

            def contents():
                if disc == "priority":
                    return [kv.value for kv in q.queue]
                return list(q.queue)

            held = collections.Counter(init)
            if collections.Counter(contents()) != held:
                ctx.fail(key + ":init", "constructor lost or duplicated an initial item", dict(replay, contents=contents()))
            if q.unfinished_tasks != len(init):
                ctx.fail(key + ":unfinished", "constructor: unfinished_tasks != number of initial items",
                         dict(replay, unfinished_tasks=q.unfinished_tasks))
            if disc == "random":
                if len(proxy.shuffles) != 1 or sorted(proxy.shuffles[0][1]) != sorted(init):
                    ctx.broke("H-shuffle / RandomQueue.__init__", dict(replay, shuffles=proxy.shuffles))
            shuffled = contents() if disc == "random" else None
            obs = [q.unfinished_tasks]
            ops = []
            used = set(init)
            puts = dones = gets_after_put = 0
            nops = rng.choice([0, 1, 3, 6, 10, 18, 30])
            bad = False
            for _ in range(nops):
                size = q._qsize()
                if size != sum(held.values()):
                    ctx.fail(key + ":qsize", "_qsize differs from the number of items held", dict(replay, ops=ops, qsize=size))
                    bad = True
                    break
                do_put = size == 0 or rng.random() < 0.55
                if size == 0 and rng.random() < 0.15:
                    # get on an empty queue: the stdlib must refuse before _get is reached
                    try:
                        q.get(block=False)
                        ctx.fail(key + ":empty-get", "get(block=False) on an empty queue returned", dict(replay, ops=ops))
                    except pyqueue.Empty:
                        pass
                    ops.append((1, 0, 0))
                    obs.append(0)
                    continue
                if do_put:
                    if disc == "priority":
                        cand = [x for x in range(1, NITEMS) if x not in used] + [0, 0]
                        x = rng.choice(cand)
                    else:
                        x = rng.randrange(NITEMS)
                    used.add(x)
                    nr = len(proxy.ranges)
                    if mode == "direct":
                        q._put(x)
                    else:
                        q.put(x)
                    puts += 1
                    held[x] += 1
                    i = 0
                    if disc == "random":
                        if len(proxy.ranges) != nr + 1 or proxy.ranges[-1][0] != q._qsize():
                            ctx.broke("RandomQueue._put no longer draws one randrange(len(queue)) per put", dict(replay, ops=ops))
                            bad = True
                            break
                        i = proxy.ranges[-1][1]
                    ops.append((0, x, i))
                    obs.append(q._qsize())
                else:
                    before = +held
                    y = q._get() if mode == "direct" else q.get(block=False)
                    if puts:
                        gets_after_put += 1
                    ops.append((1, 0, 0))
                    obs.append(y + 1)
                    if before[y] <= 0:
                        ctx.fail(key + ":phantom", "get returned an item that was not in the queue", dict(replay, ops=ops, got=y))
                        bad = True
                        break
                    held[y] -= 1
                    held = +held
                    if disc == "priority" and any(table[z] < table[y] for z in before):
                        ctx.fail(key + ":not-min", "PriorityQueue returned an item that does not have the smallest priority",
                                 dict(replay, ops=ops, got=y, held=sorted(before.elements())))
                    if mode == "api" and rng.random() < 0.7:
                        q.task_done()
                        dones += 1
                if collections.Counter(contents()) != held:
                    ctx.fail(key + ":lost-or-dup", "queue contents lost or duplicated an item",
                             dict(replay, ops=ops, contents=contents(), expected=sorted(held.elements())))
                    bad = True
                    break
                if mode == "api" and q.unfinished_tasks != len(init) + puts - dones:
                    ctx.fail(key + ":unfinished", "unfinished_tasks != initial + puts - task_dones",
                             dict(replay, ops=ops, unfinished_tasks=q.unfinished_tasks))
            ctx.case((disc, mode, tuple(init), tuple(ops)), nontrivial=gets_after_put > 0,
                     sample=dict(replay, ops=ops[:8]) if ci < 3 else None)
            ctx.count("queues.class", disc)
            ctx.count("queues.mode", mode)
            ctx.count("queues.ops", nops)
            if bad:
                continue
            cops = "[" + "; ".join("(%d,%d,%d)" % o for o in ops) + "]"
            if disc == "fifo":
                term = "exec_fifo %s %s" % (gg.coq_nats(init), cops)
                final = contents()
            elif disc == "random":
                term = "exec_rq %s %s" % (gg.coq_nats(shuffled), cops)
                final = contents()
            else:
                term = "exec_pq %s %s %s" % (gg.coq_nats(table), gg.coq_nats(init), cops)
                final = sorted((table[kv.value], kv.value) for kv in q.queue)
                if any(kv.key != table[kv.value] - 1 for kv in q.queue):
                    ctx.broke("PriorityQueue entry key is not priority(item)", dict(replay, ops=ops))
            terms.append(term)
            expect.append((disc, obs, final, dict(replay, ops=ops, shuffled=shuffled)))
    finally:
        sch.random = saved_random

    outs = core.coq_eval(HEADER, terms, ty="list nat", tag="queues")
    for (disc, obs, final, replay), o in zip(expect, outs):
        nums = gg.parse_nats(o)
        ctx.compared("Engine/Queues.v vs scheduler.%s" % {"fifo": "create_simple_queue", "random": "RandomQueue", "priority": "PriorityQueue"}[disc])
        try:
            cut = nums.index(999)
        except ValueError:
            ctx.broke("correspondence Engine/Queues.v (%s): model stopped" % disc, dict(replay, model=nums, impl=obs))
            continue
        mobs, mfinal = nums[:cut], nums[cut + 1:]
        if disc == "priority":
            mfinal = sorted((mfinal[i], mfinal[i + 1]) for i in range(0, len(mfinal), 2))
        if mobs != obs or list(mfinal) != list(final):
            ctx.broke("correspondence Engine/Queues.v vs scheduler (%s)" % disc,
                      dict(replay, model_obs=mobs, impl_obs=obs, model_final=mfinal, impl_final=final))
