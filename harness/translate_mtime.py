"""Translator tie for the modified-time query of the file stores (C12, C05, C18): `get_modified_time` in src/uberjob/stores/_file_store.py and
the methods that delegate to it (`FileStore.get_modified_time`, `PathSource.get_modified_time`) are parsed with `ast` on every run; the
function's control structure (try / except OSError -> None / what is returned when the stat succeeded) is compiled to a Gallina function over
Store/FS.v (coq/gen/MtimeGen.v); coq/gen/MtimeLink.v (hand-written, committed) proves `generated_get_modified_time_is_model :
gen_get_modified_time p s = Codec.store_mtime p s` and restates C12's "None exactly when nothing is stored" of the generated function.
Fail-closed: any other statement shape (a truthiness test on the timestamp, a default, another exception class) is a broken tie.

Trusted: this file; `os.path.getmtime(path)` is FS.v's modified time of the file at `path` and raises OSError exactly when there is none
(py_getmtime); `dt.datetime.fromtimestamp(t)` is total and denotes the instant t (the naive local datetime of that instant, fold included:
measured per zone by the C12 / C18 monitors) - in the model both are the integer t."""
import ast
import os
import subprocess

import core
from translate_stale import GEN, TranslationError, _expect, _fn, _src


def _body(f):
    return [s for s in f.body if not (isinstance(s, ast.Expr) and isinstance(s.value, ast.Constant))]


def translate(path, path_source=None):
    path_source_text = ""
    tree = ast.parse(open(path).read())
    f = _fn(tree, "get_modified_time")
    _expect([a.arg for a in f.args.args] == ["path"] and not f.decorator_list and f.args.vararg is None and f.args.kwarg is None and not f.args.kwonlyargs
            and not f.args.defaults, "def get_modified_time(path)", f)
    b = _body(f)
    _expect(len(b) == 2 and isinstance(b[0], ast.Try) and isinstance(b[1], ast.Return), "get_modified_time: try statement, then return", f)
    t = b[0]
    _expect(not t.orelse and not t.finalbody and len(t.handlers) == 1 and len(t.body) == 1, "try with one statement and one handler", t)
    _expect(isinstance(t.body[0], ast.Assign) and len(t.body[0].targets) == 1 and isinstance(t.body[0].targets[0], ast.Name)
            and _src(t.body[0].value) == "os.path.getmtime(path)", "<name> = os.path.getmtime(path)", t.body[0])
    var = t.body[0].targets[0].id
    h = t.handlers[0]
    _expect(_src(h.type) == "OSError" and h.name is None and [_src(s) for s in h.body] == ["return None"], "except OSError: return None", h)
    _expect(_src(b[1].value) == "dt.datetime.fromtimestamp(%s)" % var, "return dt.datetime.fromtimestamp(%s)" % var, b[1])
    # the methods of the stores delegate to the function, with the store's own path
    cls = next((n for n in tree.body if isinstance(n, ast.ClassDef) and n.name == "FileStore"), None)
    _expect(cls is not None, "class FileStore", tree)
    m = next((n for n in cls.body if isinstance(n, ast.FunctionDef) and n.name == "get_modified_time"), None)
    _expect(m is not None and [_src(s) for s in _body(m)] == ["return get_modified_time(self.path)"] and not m.decorator_list,
            "FileStore.get_modified_time returns get_modified_time(self.path)", m or cls)
    init = next((n for n in cls.body if isinstance(n, ast.FunctionDef) and n.name == "__init__"), None)
    _expect(init is not None and any(_src(s) == "self.path = path" for s in init.body), "FileStore.__init__ keeps the path it is given", init or cls)
    if path_source is not None:
        ptree = ast.parse(open(path_source).read())
        pcls = next((n for n in ptree.body if isinstance(n, ast.ClassDef) and n.name == "PathSource"), None)
        _expect(pcls is not None, "class PathSource", ptree)
        pm = next((n for n in pcls.body if isinstance(n, ast.FunctionDef) and n.name == "get_modified_time"), None)
        _expect(pm is not None and [_src(s) for s in _body(pm)] == ["return self._get_modified_time(self.required)"], "PathSource.get_modified_time returns self._get_modified_time(self.required)", pm or pcls)
        pg = next((n for n in pcls.body if isinstance(n, ast.FunctionDef) and n.name == "_get_modified_time"), None)
        _expect(pg is not None and [a.arg for a in pg.args.args] == ["self", "required"], "PathSource._get_modified_time(self, required)", pg or pcls)
        pb = _body(pg)
        _expect(len(pb) == 3 and _src(pb[0]) == "modified_time = get_modified_time(self.path)" and isinstance(pb[1], ast.If) and not pb[1].orelse
                and _src(pb[1].test) == "modified_time is None and required" and len(pb[1].body) == 1 and isinstance(pb[1].body[0], ast.Raise)
                and _src(pb[1].body[0].exc).startswith("OSError(") and _src(pb[2]) == "return modified_time",
                "PathSource._get_modified_time: the function's result; OSError when it is None and the path is required; else the result", pg)
        pinit = next((n for n in pcls.body if isinstance(n, ast.FunctionDef) and n.name == "__init__"), None)
        _expect(pinit is not None and {"self.path = path", "self.required = required"} <= {_src(s) for s in pinit.body}, "PathSource.__init__ keeps path and required", pinit or pcls)
        path_source_text = ("\n(* PathSource._get_modified_time: modified_time = get_modified_time(self.path); if modified_time is None and required: raise OSError(..); return modified_time *)\n"
                            "Definition gen_path_source_mtime (required : bool) (p : path) (s : state) : py_result (option Z) :=\n"
                            "  let modified_time := gen_get_modified_time p s in\n"
                            "  if (match modified_time with None => true | Some _ => false end) && required then RaisedOSError else Returned modified_time.\n")
    return ("(* GENERATED by harness/translate_mtime.py from %s - do not edit *)\n"
            "From Coq Require Import List ZArith Bool.\nFrom UJ Require Import Store.FS.\nLocal Open Scope Z_scope.\n\n"
            "(* os.path.getmtime(path): the file's modified time, or OSError when there is no such file *)\n"
            "Inductive py_result (A : Type) := Returned (a : A) | RaisedOSError.\nArguments Returned {A} a.\nArguments RaisedOSError {A}.\n"
            "Definition py_getmtime (s : state) (p : path) : py_result Z := match mtime_of s p with Some t => Returned t | None => RaisedOSError end.\n"
            "(* dt.datetime.fromtimestamp(t): the datetime denoting the instant t *)\nDefinition py_fromtimestamp (t : Z) : Z := t.\n\n"
            "(* try: %s = os.path.getmtime(path) / except OSError: return None / return dt.datetime.fromtimestamp(%s) *)\n"
            "Definition gen_get_modified_time (p : path) (s : state) : option Z :=\n"
            "  match py_getmtime s p with\n  | RaisedOSError => None\n  | Returned %s => Some (py_fromtimestamp %s)\n  end.\n"
            % (os.path.relpath(path, core.REPO), var, var, var, var)) + path_source_text


def check(ctx):
    src = os.path.join(core.REPO_SRC, "uberjob", "stores", "_file_store.py")
    psrc = os.path.join(core.REPO_SRC, "uberjob", "stores", "_path_source.py")
    ctx.notes["translator_mtime"] = "harness/translate_mtime.py: _file_store.py get_modified_time (+ the delegating methods) -> coq/gen/MtimeGen.v, link theorems coq/gen/MtimeLink.v"
    try:
        text = translate(src, psrc)
    except (TranslationError, SyntaxError, OSError) as e:
        ctx.broke("translator: get_modified_time in _file_store.py / its delegating methods no longer have the shape the translator reads (fail-closed)", str(e))
        return
    import shutil
    gen_dir = core.gen_dir()
    shutil.copy(os.path.join(GEN, "MtimeLink.v"), gen_dir)
    with open(os.path.join(gen_dir, "MtimeGen.v"), "w") as f:
        f.write(text)
    ctx.compared("translator: _file_store.py get_modified_time -> Gallina, linked to Store/Codec.v store_mtime by a theorem")
    flags = ["-Q", os.path.join(core.COQ, "theories"), core.LOGICAL, "-Q", gen_dir, "UJGen", "-w", "none"]
    for f in ("MtimeGen.v", "MtimeLink.v"):
        p = subprocess.run(["timeout", "300", "coqc"] + flags + [os.path.join(gen_dir, f)], cwd=core.COQ, stdout=subprocess.PIPE, stderr=subprocess.STDOUT, text=True)
        if p.returncode != 0:
            break
    ok = p.returncode == 0 and (p.stdout or "").count("Closed under the global context") == 3
    ctx.notes["translator_mtime_link_theorems"] = "UJGen.MtimeLink.{generated_get_modified_time_is_model, C12_mtime_none_iff_absent_on_source, generated_path_source_mtime_is_model}: %s" % ("proved, closed" if ok else "NOT proved")
    if not ok:
        # the monitors of the same check (files dated at the epoch, in every zone, every store class) exhibit the concrete file
        ctx.broke("translator link theorems UJGen.MtimeLink no longer check: get_modified_time of _file_store.py differs from Store/Codec.v store_mtime", (p.stdout or "")[-1500:])
