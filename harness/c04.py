"""C04: each needed call runs exactly once and nothing unneeded runs."""
import core
import engine_corr
import planlevel

RULE = engine_corr_rule = ("(a) engine level: random DAGs x configs x controlled schedules (see C01 rule), every trace must be accepted by "
        "Engine.v and satisfy the at-most-once / exactly-once monitors; (b) plan level: random plans through uberjob.run "
        "with recording call functions and outputs none/node/structure/literal/all: executed set must equal the ancestors of the output")
TRUSTED_BASE = ["harness/detsched.py (deterministic scheduler), harness/engine_corr.py (event-to-choice mapping)",
                "harness/planlevel.py (plan generator, dependency closure oracle)"]


def run(ctx):
    engine_corr.campaign(ctx, {"C04"})
    planlevel.plan_campaign(ctx, {"C04"})
    import prune_corr
    import queues_corr
    import translate_prune
    translate_prune.check(ctx)       # pruning.py's literal elision translated to Gallina and linked to Cache/Prune.v by a theorem
    import translate_nxutil
    translate_nxutil.check(ctx)      # networkx_util.py (Kahn, all_ancestors, predecessor_count, is_source_node) compiled from the source and linked to Base/Topo.v
    prune_corr.run_prune(ctx)       # real prune_plan / prune_source_literals vs Cache/Prune.v (exact node order + keyed edges)
    import translate_scheduler
    translate_scheduler.check(ctx)    # scheduler.py (the three queue disciplines, create_queue's dispatch) compiled from the source and linked to Engine/Queues.v
    queues_corr.run_queues(ctx)     # real RandomQueue / PriorityQueue / deque op sequences vs Engine/Queues.v
    gather_temporaries(ctx)


def gather_temporaries(ctx):
    """plan.gather() of short-lived structures (the interpreter reuses their addresses): each gather node is its own node and a
    run executes exactly what the requested one needs"""
    uj = core.use_repo()
    for workers in (1, 3):
        executed = []
        plan = uj.Plan()
        calls = {n: plan.call(lambda n=n: (executed.append(n), n)[1]) for n in "abcdef"}
        g1 = plan.gather([calls["a"], calls["b"]])
        g2 = plan.gather([calls["c"], calls["d"]])
        g3 = plan.gather({"k": calls["e"]})
        g4 = plan.gather((calls["f"], 1))
        for out, want, val in ((g2, ["c", "d"], ["c", "d"]), (g3, ["e"], {"k": "e"}), (g1, ["a", "b"], ["a", "b"]), (g4, ["f"], ("f", 1))):
            del executed[:]
            got = uj.run(plan, output=out, max_workers=workers, progress=None)
            ctx.case(("gather-temporaries", workers, tuple(want)))
            if sorted(executed) != want or got != val:
                ctx.fail("gather-temporaries", "plan.gather of short-lived structures: run(output=<gather of %r>) executed %r and returned %r" % (want, sorted(executed), got),
                         {"max_workers": workers, "wanted": want})
