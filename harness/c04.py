"""C04: each needed call runs exactly once and nothing unneeded runs."""
import core
import engine_corr
import planlevel

RULE = engine_corr_rule = ("(a) engine level: random DAGs x configs x controlled schedules (see C01 rule), every trace must be accepted by "
        "Engine.v and satisfy the at-most-once / exactly-once monitors; (b) plan level: random plans through uberjob.run "
        "with recording call functions and outputs none/node/structure/literal/all: executed set must equal the ancestors of the output")
TRUSTED_BASE = ["harness/detsched.py (deterministic scheduler), harness/engine_corr.py (event-to-choice mapping)",
                "harness/planlevel.py (plan generator, dependency closure oracle)"]


def run(ctx):
    engine_corr.campaign(ctx, {"C04"})
    planlevel.plan_campaign(ctx, {"C04"})
    try:
        import prune_corr, queues_corr  # delivered by the Base/Topo, Cache/Prune work
        prune_corr.run_prune(ctx)
        queues_corr.run_queues(ctx)
    except ImportError:
        ctx.notes["prune_queue_correspondence"] = "not yet integrated"
