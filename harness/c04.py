"""C04: each needed call runs exactly once and nothing unneeded runs."""
import core
import engine_corr
import planlevel

RULE = engine_corr_rule = ("(a) engine level: random DAGs x configs x controlled schedules (see C01 rule), every trace must be accepted by "
        "Engine.v and satisfy the at-most-once / exactly-once monitors; (b) plan level: random plans through uberjob.run "
        "with recording call functions and outputs none/node/structure/literal/all: executed set must equal the ancestors of the output")
TRUSTED_BASE = ["harness/detsched.py (deterministic scheduler), harness/engine_corr.py (event-to-choice mapping)",
                "harness/planlevel.py (plan generator, dependency closure oracle)"]


def run(ctx):
    outcome_under_every_progress(ctx)
    falsy_results_under_retry(ctx)
    interrupted_is_not_success(ctx)
    engine_corr.campaign(ctx, {"C04"})
    planlevel.plan_campaign(ctx, {"C04"})
    import prune_corr
    import queues_corr
    import translate_prune
    translate_prune.check(ctx)       # pruning.py's literal elision translated to Gallina and linked to Cache/Prune.v by a theorem
    import translate_nxutil
    translate_nxutil.check(ctx)      # networkx_util.py (Kahn, all_ancestors, predecessor_count, is_source_node) compiled from the source and linked to Base/Topo.v
    prune_corr.run_prune(ctx)       # real prune_plan / prune_source_literals vs Cache/Prune.v (exact node order + keyed edges)
    import translate_scheduler
    translate_scheduler.check(ctx)    # scheduler.py (the three queue disciplines, create_queue's dispatch) compiled from the source and linked to Engine/Queues.v
    queues_corr.run_queues(ctx)     # real RandomQueue / PriorityQueue / deque op sequences vs Engine/Queues.v
    gather_temporaries(ctx)


def gather_temporaries(ctx):
    """plan.gather() of short-lived structures (the interpreter reuses their addresses): each gather node is its own node and a
    run executes exactly what the requested one needs"""
    uj = core.use_repo()
    for workers in (1, 3):
        executed = []
        plan = uj.Plan()
        calls = {n: plan.call(lambda n=n: (executed.append(n), n)[1]) for n in "abcdef"}
        g1 = plan.gather([calls["a"], calls["b"]])
        g2 = plan.gather([calls["c"], calls["d"]])
        g3 = plan.gather({"k": calls["e"]})
        g4 = plan.gather((calls["f"], 1))
        for out, want, val in ((g2, ["c", "d"], ["c", "d"]), (g3, ["e"], {"k": "e"}), (g1, ["a", "b"], ["a", "b"]), (g4, ["f"], ("f", 1))):
            del executed[:]
            got = uj.run(plan, output=out, max_workers=workers, progress=None)
            ctx.case(("gather-temporaries", workers, tuple(want)))
            if sorted(executed) != want or got != val:
                ctx.fail("gather-temporaries", "plan.gather of short-lived structures: run(output=<gather of %r>) executed %r and returned %r" % (want, sorted(executed), got),
                         {"max_workers": workers, "wanted": want})


def outcome_under_every_progress(ctx):
    """Whatever progress display is attached - none, the bundled ones, a list, a composite of composites, a user observer - a run in which a
    call fails RAISES (a run that returns normally is one in which every needed call ran exactly once), and a run in which nothing fails
    executes every needed call once and returns the value."""
    import contextlib
    import io
    uj = core.use_repo()
    from uberjob.progress import Progress, ProgressObserver, composite_progress, console_progress, html_progress, null_progress

    class Quiet(ProgressObserver):
        def __enter__(self):
            pass

        def __exit__(self, *a):
            pass

        def increment_total(self, **k):
            pass

        increment_running = increment_completed = increment_failed = increment_total
    kinds = {
        "None": lambda: None, "False": lambda: False, "null_progress": lambda: null_progress, "console": lambda: console_progress, "html(callable)": lambda: html_progress(lambda b: None),
        "list of two": lambda: [null_progress, Progress(Quiet)], "tuple of one": lambda: (Progress(Quiet),), "composite_progress": lambda: composite_progress(null_progress, Progress(Quiet)),
        "nested composite": lambda: composite_progress(composite_progress(Progress(Quiet)), [null_progress]) if False else composite_progress(composite_progress(Progress(Quiet)), null_progress),
        "user observer": lambda: Progress(Quiet),
    }
    for name, mk in kinds.items():
        for failing in (False, True):
            for workers in (1, 3):
                executed = []
                plan = uj.Plan()
                a = plan.call(lambda: executed.append("a") or 1)
                b = plan.call(lambda v: executed.append("b") or v + 1, a)

                def cfn(v):
                    executed.append("c")
                    if failing:
                        raise ValueError("c fails")
                    return v + 1
                c = plan.call(cfn, b)
                d = plan.call(lambda v: executed.append("d") or v + 1, c)
                ctx.case(("outcome-under-progress", name, failing, workers))
                try:
                    with contextlib.redirect_stdout(io.StringIO()), contextlib.redirect_stderr(io.StringIO()):
                        res = core.call_watched(lambda: uj.run(plan, output=d, progress=mk(), max_workers=workers), timeout=60)
                    oc = "returned %r" % (res,)
                except uj.CallError:
                    oc = "callerror"
                except BaseException as e:      # noqa
                    oc = "raised %s: %s" % (type(e).__name__, e)
                want_oc, want_exec = ("callerror", ["a", "b", "c"]) if failing else ("returned 4", ["a", "b", "c", "d"])
                if oc != want_oc or executed != want_exec:
                    ctx.fail("outcome-under-progress", "progress=%s, %s: run %s having executed %r; expected %s and %r - a run that returns normally must have executed every "
                             "needed call exactly once" % (name, "the third of four chained calls fails" if failing else "no call fails", oc, executed, want_oc, want_exec),
                             {"progress": name, "failing": failing, "max_workers": workers})


def falsy_results_under_retry(ctx):
    """Calls whose (successful) result is None / 0 / "" / False / an empty container, under every retry setting (none, an int, a user
    decorator): a successful run executes each needed call exactly once - a result is a result, whatever its truth value."""
    import threading
    uberjob = core.use_repo()
    results = {"None": None, "0": 0, "empty str": "", "False": False, "empty list": [], "empty dict": {}, "7": 7}

    def twice(fn):
        def wrapper(*a, **k):
            try:
                return fn(*a, **k)
            except Exception:      # noqa
                return fn(*a, **k)
        return wrapper
    for rname, retry in (("None", None), ("1", 1), ("2", 2), ("3", 3), ("a user decorator", twice)):
        for workers in (1, 4):
            for scheduler in ("default", "random"):
                count, lock = {}, threading.Lock()

                def mk(name, layer):
                    def f(*a):
                        with lock:
                            count[(name, layer)] = count.get((name, layer), 0) + 1
                        return results[name]
                    return f
                plan = uberjob.Plan()
                first = {n: plan.call(mk(n, 1)) for n in results}
                second = {n: plan.call(mk(n, 2), *first.values()) for n in results}
                ctx.case(("falsy-results-under-retry", rname, workers, scheduler))
                try:
                    got = uberjob.run(plan, output=list(second.values()), retry=retry, max_workers=workers, scheduler=scheduler, progress=None)
                    oc = None if got == [results[n] for n in second] else "returned %r" % (got,)
                except BaseException as e:      # noqa
                    oc = "raised %s: %r" % (type(e).__name__, getattr(e, "__cause__", None))
                wrong = {"%s (layer %d)" % n: c for n, c in count.items() if c != 1}
                if oc or wrong or len(count) != 14:
                    ctx.fail("falsy-results-under-retry", "retry=%s, max_workers=%d, scheduler=%s, 14 calls returning None / 0 / '' / False / [] / {} / 7: %s; executions per call other than 1: %r"
                             % (rname, workers, scheduler, oc or "the run succeeded", wrong), {"retry": rname, "max_workers": workers, "scheduler": scheduler})


def interrupted_is_not_success(ctx):
    """Ctrl-C (a real SIGINT to the calling thread, sent from inside the k-th call) while the run is under way: the run may raise
    KeyboardInterrupt - but if it RETURNS normally it claims success, and then every call the output depends on was executed exactly once."""
    import signal
    import threading
    import time
    uberjob = core.use_repo()
    if threading.current_thread() is not threading.main_thread():
        ctx.notes["interrupted_is_not_success"] = "skipped: the check does not run on the main thread"
        return
    old = signal.getsignal(signal.SIGINT)
    try:
        for workers in (1, 3):
            for k in (0, 2):
                for shape in ("chain", "independent"):
                    n = 8
                    count, lock = {}, threading.Lock()

                    def mk(i):
                        def f(*a):
                            with lock:
                                count[i] = count.get(i, 0) + 1
                                me = sum(count.values()) - 1
                            if me == k:
                                time.sleep(0.25)     # the pool has finished starting (the start-up window is finding F6, judged under C17): the caller waits in queue.join()
                                signal.pthread_kill(threading.main_thread().ident, signal.SIGINT)
                                time.sleep(0.15)
                            return i
                        return f
                    plan = uberjob.Plan()
                    calls = []
                    for i in range(n):
                        calls.append(plan.call(mk(i), *(calls[-1:] if shape == "chain" else [])))
                    ctx.case(("interrupted-is-not-success", workers, k, shape))
                    try:
                        try:
                            got = uberjob.run(plan, output=calls, max_workers=workers, progress=None)
                            oc = "returned"
                            time.sleep(0.2)      # a late interrupt is absorbed here, not in the next trial
                        except KeyboardInterrupt:
                            oc = "interrupted"
                        except BaseException as e:      # noqa
                            oc = "raised %s" % type(e).__name__
                    except KeyboardInterrupt:
                        oc = "interrupted"
                    ctx.count("interrupted_is_not_success_outcome", oc)
                    wrong = {i: count.get(i, 0) for i in range(n) if count.get(i, 0) != 1}
                    if oc == "returned" and (wrong or got != list(range(n))):
                        ctx.fail("interrupted-but-returned", "Ctrl-C from inside call number %d of %d (%s, max_workers=%d): run returned normally (%r) although executions per call are %r"
                                 % (k + 1, n, shape, workers, got, {i: count.get(i, 0) for i in range(n)}), {"max_workers": workers, "k": k, "shape": shape})
                    over = {i: c for i, c in count.items() if c > 1}
                    if over:
                        ctx.fail("interrupted-executed-twice", "Ctrl-C from inside call number %d (%s, max_workers=%d): calls executed more than once: %r" % (k + 1, shape, workers, over),
                                 {"max_workers": workers, "k": k, "shape": shape})
                    signal.signal(signal.SIGINT, old if callable(old) or old in (signal.SIG_DFL, signal.SIG_IGN) else signal.default_int_handler)
    finally:
        try:
            signal.signal(signal.SIGINT, old)
        except (TypeError, ValueError):
            pass
