"""C04: each needed call runs exactly once and nothing unneeded runs."""
import core
import engine_corr
import planlevel

RULE = engine_corr_rule = ("(a) engine level: random DAGs x configs x controlled schedules (see C01 rule), every trace must be accepted by "
        "Engine.v and satisfy the at-most-once / exactly-once monitors; (b) plan level: random plans through uberjob.run "
        "with recording call functions and outputs none/node/structure/literal/all: executed set must equal the ancestors of the output")
TRUSTED_BASE = ["harness/detsched.py (deterministic scheduler), harness/engine_corr.py (event-to-choice mapping)",
                "harness/planlevel.py (plan generator, dependency closure oracle)"]


def run(ctx):
    engine_corr.campaign(ctx, {"C04"})
    planlevel.plan_campaign(ctx, {"C04"})
    import prune_corr
    import queues_corr
    import translate_prune
    translate_prune.check(ctx)       # pruning.py's literal elision translated to Gallina and linked to Cache/Prune.v by a theorem
    prune_corr.run_prune(ctx)       # real prune_plan / prune_source_literals vs Cache/Prune.v (exact node order + keyed edges)
    queues_corr.run_queues(ctx)     # real RandomQueue / PriorityQueue / deque op sequences vs Engine/Queues.v
