"""C04: each needed call runs exactly once and nothing unneeded runs."""
import core
import engine_corr
import planlevel

RULE = engine_corr_rule = ("(a) engine level: random DAGs x configs x controlled schedules (see C01 rule), every trace must be accepted by "
        "Engine.v and satisfy the at-most-once / exactly-once monitors; (b) plan level: random plans through uberjob.run "
        "with recording call functions and outputs none/node/structure/literal/all: executed set must equal the ancestors of the output")
TRUSTED_BASE = ["harness/detsched.py (deterministic scheduler), harness/engine_corr.py (event-to-choice mapping)",
                "harness/planlevel.py (plan generator, dependency closure oracle)"]


def run(ctx):
    outcome_under_every_progress(ctx)
    engine_corr.campaign(ctx, {"C04"})
    planlevel.plan_campaign(ctx, {"C04"})
    import prune_corr
    import queues_corr
    import translate_prune
    translate_prune.check(ctx)       # pruning.py's literal elision translated to Gallina and linked to Cache/Prune.v by a theorem
    import translate_nxutil
    translate_nxutil.check(ctx)      # networkx_util.py (Kahn, all_ancestors, predecessor_count, is_source_node) compiled from the source and linked to Base/Topo.v
    prune_corr.run_prune(ctx)       # real prune_plan / prune_source_literals vs Cache/Prune.v (exact node order + keyed edges)
    import translate_scheduler
    translate_scheduler.check(ctx)    # scheduler.py (the three queue disciplines, create_queue's dispatch) compiled from the source and linked to Engine/Queues.v
    queues_corr.run_queues(ctx)     # real RandomQueue / PriorityQueue / deque op sequences vs Engine/Queues.v
    gather_temporaries(ctx)


def gather_temporaries(ctx):
    """plan.gather() of short-lived structures (the interpreter reuses their addresses): each gather node is its own node and a
    run executes exactly what the requested one needs"""
    uj = core.use_repo()
    for workers in (1, 3):
        executed = []
        plan = uj.Plan()
        calls = {n: plan.call(lambda n=n: (executed.append(n), n)[1]) for n in "abcdef"}
        g1 = plan.gather([calls["a"], calls["b"]])
        g2 = plan.gather([calls["c"], calls["d"]])
        g3 = plan.gather({"k": calls["e"]})
        g4 = plan.gather((calls["f"], 1))
        for out, want, val in ((g2, ["c", "d"], ["c", "d"]), (g3, ["e"], {"k": "e"}), (g1, ["a", "b"], ["a", "b"]), (g4, ["f"], ("f", 1))):
            del executed[:]
            got = uj.run(plan, output=out, max_workers=workers, progress=None)
            ctx.case(("gather-temporaries", workers, tuple(want)))
            if sorted(executed) != want or got != val:
                ctx.fail("gather-temporaries", "plan.gather of short-lived structures: run(output=<gather of %r>) executed %r and returned %r" % (want, sorted(executed), got),
                         {"max_workers": workers, "wanted": want})


def outcome_under_every_progress(ctx):
    """Whatever progress display is attached - none, the bundled ones, a list, a composite of composites, a user observer - a run in which a
    call fails RAISES (a run that returns normally is one in which every needed call ran exactly once), and a run in which nothing fails
    executes every needed call once and returns the value."""
    import contextlib
    import io
    uj = core.use_repo()
    from uberjob.progress import Progress, ProgressObserver, composite_progress, console_progress, html_progress, null_progress

    class Quiet(ProgressObserver):
        def __enter__(self):
            pass

        def __exit__(self, *a):
            pass

        def increment_total(self, **k):
            pass

        increment_running = increment_completed = increment_failed = increment_total
    kinds = {
        "None": lambda: None, "False": lambda: False, "null_progress": lambda: null_progress, "console": lambda: console_progress, "html(callable)": lambda: html_progress(lambda b: None),
        "list of two": lambda: [null_progress, Progress(Quiet)], "tuple of one": lambda: (Progress(Quiet),), "composite_progress": lambda: composite_progress(null_progress, Progress(Quiet)),
        "nested composite": lambda: composite_progress(composite_progress(Progress(Quiet)), [null_progress]) if False else composite_progress(composite_progress(Progress(Quiet)), null_progress),
        "user observer": lambda: Progress(Quiet),
    }
    for name, mk in kinds.items():
        for failing in (False, True):
            for workers in (1, 3):
                executed = []
                plan = uj.Plan()
                a = plan.call(lambda: executed.append("a") or 1)
                b = plan.call(lambda v: executed.append("b") or v + 1, a)

                def cfn(v):
                    executed.append("c")
                    if failing:
                        raise ValueError("c fails")
                    return v + 1
                c = plan.call(cfn, b)
                d = plan.call(lambda v: executed.append("d") or v + 1, c)
                ctx.case(("outcome-under-progress", name, failing, workers))
                try:
                    with contextlib.redirect_stdout(io.StringIO()), contextlib.redirect_stderr(io.StringIO()):
                        res = core.call_watched(lambda: uj.run(plan, output=d, progress=mk(), max_workers=workers), timeout=60)
                    oc = "returned %r" % (res,)
                except uj.CallError:
                    oc = "callerror"
                except BaseException as e:      # noqa
                    oc = "raised %s: %s" % (type(e).__name__, e)
                want_oc, want_exec = ("callerror", ["a", "b", "c"]) if failing else ("returned 4", ["a", "b", "c", "d"])
                if oc != want_oc or executed != want_exec:
                    ctx.fail("outcome-under-progress", "progress=%s, %s: run %s having executed %r; expected %s and %r - a run that returns normally must have executed every "
                             "needed call exactly once" % (name, "the third of four chained calls fails" if failing else "no call fails", oc, executed, want_oc, want_exec),
                             {"progress": name, "failing": failing, "max_workers": workers})
