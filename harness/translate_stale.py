"""Translator tie for the stale decision (C05): the body of `_get_stale_nodes.process` / `process_no_stale_ancestor` in
src/uberjob/_transformations/caching.py is parsed with `ast` on every run and re-emitted as Gallina (coq/gen/StaleGen.v);
coq/gen/StaleLink.v (hand-written, committed) proves that the generated step function IS Logical.stale_step, the function
all C03/C05/C08 theorems are about.  The translator is fail-closed: any statement or expression shape it does not know
makes it refuse (TranslationError) instead of guessing.

Trusted: this file (about 150 lines); the meaning given to the library's helpers: `safe_max` = Logical.smax (maximum ignoring
None; tested below on samples), `_to_naive_utc_time` = identity on instants (that is C18: Store/Time.v), a datetime is truthy,
`registry.get(node)` is None iff the node has no value store."""
import ast
import os
import re
import subprocess

import core


class TranslationError(Exception):
    pass


def _fn(tree, name):
    for n in ast.walk(tree):
        if isinstance(n, ast.FunctionDef) and n.name == name:
            return n
    raise TranslationError("function %s not found" % name)


def _src(n):
    return ast.unparse(n)


def _expect(cond, what, node=None):
    if not cond:
        raise TranslationError("unexpected shape: %s%s" % (what, " in `%s`" % _src(node) if node is not None else ""))


OTIME = {"max_ancestor_modified_time": "ma", "fresh_time": "fresh", "modified_time": "(Some t)"}
NONNULL = {"modified_time"}


def otime(e):
    """expression denoting an Optional[datetime] -> Gallina term of type option Z"""
    if isinstance(e, ast.Name) and e.id in OTIME:
        return OTIME[e.id]
    if isinstance(e, ast.Call) and isinstance(e.func, ast.Name) and e.func.id == "safe_max" and not e.keywords and len(e.args) >= 2:
        parts = [otime(a) for a in e.args]
        t = parts[-1]
        for p in reversed(parts[:-1]):
            t = "(smax %s %s)" % (p, t)
        return t
    raise TranslationError("not a time expression: `%s`" % _src(e))


def nonnull(e):
    if isinstance(e, ast.Name):
        return e.id in NONNULL
    if isinstance(e, ast.Call) and isinstance(e.func, ast.Name) and e.func.id == "safe_max":
        return any(nonnull(a) for a in e.args)
    return False


def boolean(e):
    """expression in boolean context -> Gallina term of type bool"""
    if isinstance(e, ast.BoolOp):
        op = " && " if isinstance(e.op, ast.And) else " || "
        return "(" + op.join(boolean(v) for v in e.values) + ")"
    if isinstance(e, ast.UnaryOp) and isinstance(e.op, ast.Not):
        return "(negb %s)" % boolean(e.operand)
    if isinstance(e, ast.Name) and e.id in OTIME:
        return "(is_some %s)" % OTIME[e.id]            # a datetime is truthy, None is not
    if isinstance(e, ast.Attribute) and _src(e) == "registry.mapping[node].is_source":
        return "is_source"
    if isinstance(e, ast.Compare) and len(e.ops) == 1 and len(e.comparators) == 1:
        a, b = e.left, e.comparators[0]
        _expect(nonnull(a) and nonnull(b), "comparison of possibly-None times", e)
        op = {ast.Gt: "ogt %s %s", ast.Lt: "ogt %s %s", ast.GtE: "oge %s %s", ast.LtE: "oge %s %s"}.get(type(e.ops[0]))
        _expect(op is not None, "comparison operator", e)
        x, y = otime(a), otime(b)
        if isinstance(e.ops[0], (ast.Lt, ast.LtE)):
            x, y = y, x
        return "(" + op % (x, y) + ")"
    raise TranslationError("not a boolean expression the translator knows: `%s`" % _src(e))


def _is_set_true(stmts, target):
    return (len(stmts) == 2 and isinstance(stmts[0], ast.Assign) and _src(stmts[0]) == "%s = True" % target
            and isinstance(stmts[1], ast.Return) and stmts[1].value is None)


def translate_safe_max(util_path):
    """`safe_max` of src/uberjob/_util/__init__.py -> Gallina over lists of optional times.  Trusted: the builtin `max(iterable, default=None)`
    is py_max_default_none (None for an empty iterable, else the fold of the binary maximum from the left), a generator expression
    `(v for v in it if v is not None)` is py_not_none (the non-None elements, in order, each produced once), and `args[0] if len(args) == 1
    else args` makes the two call forms safe_max(iterable) / safe_max(a, b, ...) both a maximum over a list."""
    tree = ast.parse(open(util_path).read())
    f = _fn(tree, "safe_max")
    _expect(not f.args.args and f.args.vararg is not None and f.args.vararg.arg == "args" and not f.args.kwonlyargs and f.args.kwarg is None
            and not f.decorator_list, "def safe_max(*args)", f)
    body = [st for st in f.body if not (isinstance(st, ast.Expr) and isinstance(st.value, ast.Constant))]
    _expect(len(body) == 2, "safe_max has %d statements" % len(body), f)
    _expect(_src(body[0]) == "iterable = args[0] if len(args) == 1 else args", "safe_max: statement 1 (one iterable or several values)", body[0])
    r = body[1]
    _expect(isinstance(r, ast.Return) and isinstance(r.value, ast.Call) and isinstance(r.value.func, ast.Name) and r.value.func.id == "max"
            and len(r.value.args) == 1 and [(k.arg, _src(k.value)) for k in r.value.keywords] == [("default", "None")], "safe_max: return max(<generator>, default=None)", r)
    g = r.value.args[0]
    _expect(isinstance(g, ast.GeneratorExp) and len(g.generators) == 1, "safe_max: one generator expression", g)
    c = g.generators[0]
    _expect(isinstance(c.target, ast.Name) and isinstance(g.elt, ast.Name) and g.elt.id == c.target.id and _src(c.iter) == "iterable" and not c.is_async
            and [_src(i) for i in c.ifs] == ["%s is not None" % c.target.id], "safe_max: (v for v in iterable if v is not None)", g)
    return ("(* safe_max, from %s: %s *)\n"
            "Definition py_not_none (l : list (option Z)) : list Z := flat_map (fun v => match v with Some x => x :: nil | None => nil end) l.\n"
            "Definition py_max_default_none (l : list Z) : option Z := match l with nil => None | x :: r => Some (fold_left Z.max r x) end.\n"
            "Definition gen_safe_max (iterable : list (option Z)) : option Z := py_max_default_none (py_not_none iterable).\n\n"
            % (os.path.relpath(util_path, core.REPO), _src(r).replace("*)", "* )")))


def translate(path):
    tree = ast.parse(open(path).read())
    safe_max_text = translate_safe_max(os.path.join(os.path.dirname(os.path.dirname(os.path.abspath(path))), "_util", "__init__.py"))
    gsn = _fn(tree, "_get_stale_nodes")
    pnsa, proc = _fn(gsn, "process_no_stale_ancestor"), _fn(gsn, "process")
    b = pnsa.body
    _expect(len(b) == 7, "process_no_stale_ancestor has %d statements" % len(b))
    _expect(re.sub(r"\s+", " ", _src(b[0])) == "max_ancestor_modified_time = safe_max((modified_time_lookup[predecessor].value for predecessor in plan.graph.predecessors(node)))",
            "statement 1", b[0])
    _expect(_src(b[1]) == "value_store = registry.get(node)", "statement 2", b[1])
    _expect(isinstance(b[2], ast.If) and _src(b[2].test) == "value_store is None" and not b[2].orelse and len(b[2].body) == 2
            and _src(b[2].body[0]) == "modified_time_lookup[node].value = max_ancestor_modified_time"
            and isinstance(b[2].body[1], ast.Return) and b[2].body[1].value is None, "statement 3 (no value store: relay the newest upstream time)", b[2])
    _expect(_src(b[3]) == "modified_time = _to_naive_utc_time(retry(value_store.get_modified_time)())", "statement 4", b[3])
    _expect(isinstance(b[4], ast.If) and _src(b[4].test) == "modified_time is None" and not b[4].orelse
            and _is_set_true(b[4].body, "stale_lookup[node].value"), "statement 5 (nothing stored: stale)", b[4])
    _expect(isinstance(b[5], ast.If) and not b[5].orelse and _is_set_true(b[5].body, "stale_lookup[node].value"), "statement 6", b[5])
    cond = boolean(b[5].test)
    _expect(_src(b[6]) == "modified_time_lookup[node].value = modified_time", "statement 7", b[6])
    p = proc.body
    _expect(len(p) == 2 and re.sub(r"\s+", " ", _src(p[0])) == "has_stale_ancestor = any((stale_lookup[predecessor].value for predecessor in plan.graph.predecessors(node)))",
            "process: statement 1", p[0] if p else None)
    _expect(isinstance(p[1], ast.If) and _src(p[1].test) == "has_stale_ancestor" and len(p[1].body) == 1 and _src(p[1].body[0]) == "stale_lookup[node].value = True"
            and len(p[1].orelse) == 1 and _src(p[1].orelse[0]) == "process_no_stale_ancestor(node)", "process: statement 2", p[1])
    # fresh_time = _to_naive_utc_time(fresh_time) must precede the nested functions
    _expect(any(isinstance(s, ast.Assign) and _src(s) == "fresh_time = _to_naive_utc_time(fresh_time)" for s in gsn.body), "fresh_time conversion")
    return ("(* GENERATED by harness/translate_stale.py from %s - do not edit *)\n"
            "From Coq Require Import List ZArith Bool.\nFrom UJ Require Import Cache.Logical.\nLocal Open Scope Z_scope.\n\n"
            "Definition ogt (a b : option Z) : bool := match a, b with Some x, Some y => y <? x | _, _ => false end.\n"
            "Definition oge (a b : option Z) : bool := match a, b with Some x, Some y => y <=? x | _, _ => false end.\n\n"
            "%s"
            "(* the test of the third `if` of process_no_stale_ancestor: %s *)\n"
            "Definition gen_cond (ma : option Z) (t : Z) (fresh : option Z) (is_source : bool) : bool :=\n  %s.\n\n"
            "(* process_no_stale_ancestor: entry = None if the node has no value store, else (is_source, modified time) *)\n"
            "Definition gen_no_stale_ancestor (entry : option (bool * option Z)) (ma fresh : option Z) : bool * option Z :=\n"
            "  match entry with\n  | None => (false, ma)\n  | Some (is_source, None) => (true, None)\n"
            "  | Some (is_source, Some t) => if gen_cond ma t fresh is_source then (true, None) else (false, Some t)\n  end.\n\n"
            "(* process *)\nDefinition gen_process (has_stale_ancestor : bool) (entry : option (bool * option Z)) (ma fresh : option Z) : bool * option Z :=\n"
            "  if has_stale_ancestor then (true, None) else gen_no_stale_ancestor entry ma fresh.\n"
            % (os.path.relpath(path, core.REPO), safe_max_text, re.sub(r"\s+", " ", _src(b[5].test)).replace("*)", "* )"), cond))


GEN = os.path.join(core.COQ, "gen")


def check(ctx):
    """regenerate, compile, prove the link; on failure look for a concrete decision that differs from the specification"""
    uberjob = core.use_repo()
    from uberjob._util import safe_max
    gen = lambda *xs: (x for x in xs)      # noqa: E731   (the stale check passes a generator of predecessor times)
    for args, want in (((None, None), None), ((3, None, 5), 5), ((None, 2), 2), (([1, None, 4],), 4), (([],), None), ((gen(None, 3, None, 2),), 3),
                       ((gen(2, None),), 2), ((gen(None, None),), None), ((gen(),), None), ((gen(1, 5, None, 4),), 5), ((None, 7, None), 7)):
        if safe_max(*args) != want:
            ctx.fail("translator:safe_max", "safe_max%r = %r, the translator reads it as %r" % (args, safe_max(*args), want), {"args": repr(args)})
    src = os.path.join(core.REPO_SRC, "uberjob", "_transformations", "caching.py")
    ctx.notes["translator"] = "harness/translate_stale.py: caching.py -> coq/gen/StaleGen.v, link theorem coq/gen/StaleLink.v"
    try:
        text = translate(src)
    except (TranslationError, SyntaxError, OSError) as e:
        ctx.broke("translator: the stale decision in caching.py no longer has the shape the translator reads (fail-closed)", str(e))
        return
    scratch = True           # always compile in a directory private to this process (core.gen_dir): parallel checks must not share one
    gen_dir = core.gen_dir()
    if scratch:
        import shutil
        shutil.copy(os.path.join(GEN, "StaleLink.v"), gen_dir)
    with open(os.path.join(gen_dir, "StaleGen.v"), "w") as f:
        f.write(text)
    ctx.compared("translator: caching.py stale decision -> Gallina, linked to Logical.stale_step by a theorem")
    flags = ["-Q", os.path.join(core.COQ, "theories"), core.LOGICAL, "-Q", gen_dir, "UJGen", "-w", "none"]
    for f in ("StaleGen.v", "StaleLink.v"):
        p = subprocess.run(["timeout", "300", "coqc"] + flags + [os.path.join(gen_dir, f)], cwd=core.COQ, stdout=subprocess.PIPE, stderr=subprocess.STDOUT, text=True)
        if p.returncode != 0:
            break
    ok = p.returncode == 0 and (p.stdout or "").count("Closed under the global context") == 3
    ctx.notes["translator_link_theorem"] = "UJGen.StaleLink.{generated_step_is_model, generated_safe_max_is_model, generated_step_on_source_safe_max}: %s" % ("proved, closed" if ok else "NOT proved")
    if ok:
        return
    # the proof no longer goes through: search the decision table for a concrete difference
    q = ("From Coq Require Import List ZArith Bool.\nImport ListNotations.\nFrom UJ Require Import Cache.Logical.\nFrom UJGen Require Import StaleGen.\nLocal Open Scope Z_scope.\n"
         "Definition dom : list (option Z) := [None; Some 1; Some 2; Some 3].\n"
         "Definition model_cond (ma : option Z) (t : Z) (fresh : option Z) (src : bool) := (is_some ma || negb src) && (gt_opt ma t || gt_opt fresh t).\n"
         "Eval vm_compute in (flat_map (fun ma => flat_map (fun fr => flat_map (fun t => flat_map (fun s =>\n"
         "  if Bool.eqb (gen_cond ma t fr s) (model_cond ma t fr s) then [] else [(ma, t, fr, s, gen_cond ma t fr s)]) [true; false]) [1; 2; 3]) dom) dom).\n")
    qf = os.path.join(gen_dir, "StaleSearch.v")
    with open(qf, "w") as f:
        f.write(q)
    p2 = subprocess.run(["timeout", "300", "coqc"] + flags + [qf], cwd=core.COQ, stdout=subprocess.PIPE, stderr=subprocess.STDOUT, text=True)
    diffs = re.findall(r"\((None|Some \d+), (\d+), (None|Some \d+), (true|false), (true|false)\)", p2.stdout)
    if diffs:
        ma, t, fr, s, g = diffs[0]
        ctx.fail("translator:stale-decision", "the stale decision read from caching.py differs from the specification: with newest upstream time %s, the store's "
                 "modified time %s, fresh_time %s, is_source=%s the code decides %s" % (ma, t, fr, s, "out of date" if g == "true" else "up to date"),
                 {"newest_upstream_time": ma, "modified_time": t, "fresh_time": fr, "is_source": s, "code_says_stale": g,
                  "generated": text.split("Definition gen_cond")[1].split("\n\n")[0], "differences": len(diffs)})
    else:
        ctx.broke("translator link theorem UJGen.StaleLink.generated_step_is_model no longer checks", (p.stdout or "")[-1500:])
