"""Deterministic (baton-passing) scheduler for the REAL engine with REAL threads.

Only the thread holding the baton runs.  Yield points: every bytecode of the engine's own functions
(sys.settrace + f_trace_opcodes on frames of uberjob/_execution/run_function_on_graph.py) and every
operation that could block (queue.get on empty, queue.join, Thread.join, Lock acquire), which are
made cooperative.  stdlib frames (queue.py, threading.py) and user callbacks are not traced, so
put/get/task_done are atomic w.r.t. the baton - the model's granularity.

The run produces an event list from which (a) the model's choice list is derived (trace acceptance)
and (b) the model-free monitors are evaluated.
"""
import ast
import dis
import inspect
import sys
import threading


class Deadlock(BaseException):
    pass


class T:
    __slots__ = ("name", "sem", "cond", "done", "idx", "started")

    def __init__(self, name, idx):
        self.name, self.idx = name, idx
        self.sem = threading.Semaphore(0)
        self.cond = None
        self.done = False
        self.started = True


class Sched:
    """chooser(runnable_names, current_name, must_switch) -> name.  Decisions are recorded for replay."""

    def __init__(self, chooser, max_steps=400000):
        self.chooser = chooser
        self.ts = {}
        self.cur = None
        self.deadlock = None
        self.decisions = []
        self.steps = 0
        self.max_steps = max_steps
        self.no_preempt = 0
        self.preemptions = 0

    def register(self, name):
        t = T(name, len(self.ts))
        self.ts[name] = t
        return t

    def runnable(self, t):
        return t.started and not t.done and (t.cond is None or t.cond())

    def _choose(self, me, must_switch):
        cands = [t for t in self.ts.values() if t is not me and self.runnable(t)]
        if not must_switch:
            cands = [me] + cands
        if not cands:
            return None
        if len(cands) == 1:
            return cands[0]
        names = [t.name for t in cands]
        pick = self.chooser(names, me.name, must_switch)
        self.decisions.append(names.index(pick))
        return self.ts[pick]

    def _switch(self, me, nxt):
        if nxt is me:
            return
        self.cur = nxt
        nxt.sem.release()
        me.sem.acquire()
        if self.deadlock:
            raise Deadlock(self.deadlock)

    def yield_point(self):
        me = self.cur
        if self.deadlock:
            raise Deadlock(self.deadlock)
        self.steps += 1
        if self.steps > self.max_steps:
            self._declare("step budget exhausted (livelock?)")
        if self.no_preempt:
            return
        nxt = self._choose(me, False)
        if nxt is not me:
            self.preemptions += 1
        self._switch(me, nxt)

    def block_until(self, cond, what):
        me = self.cur
        while not cond():
            if self.deadlock:
                raise Deadlock(self.deadlock)
            me.cond = cond
            nxt = self._choose(me, True)
            if nxt is None:
                self._declare("no runnable thread while %s waits for %s" % (me.name, what))
            self._switch(me, nxt)
        me.cond = None

    def _declare(self, msg):
        waiting = {t.name: (t.cond is not None) for t in self.ts.values() if not t.done}
        self.deadlock = "%s; waiting=%r" % (msg, waiting)
        for t in self.ts.values():
            t.sem.release()
        raise Deadlock(self.deadlock)

    def thread_exit(self, me):
        me.done = True
        if self.deadlock:
            return
        nxt = self._choose(me, True)
        if nxt is None:
            # the last runnable thread exited while others still wait: the run can never finish
            if any(not t.done for t in self.ts.values()):
                waiting = {t.name: (t.cond is not None) for t in self.ts.values() if not t.done}
                self.deadlock = "thread %s exited and no thread is runnable; waiting=%r" % (me.name, waiting)
                for t in self.ts.values():
                    t.sem.release()
            return
        self.cur = nxt
        nxt.sem.release()


# ------------------------------------------------------------------------------------------------
# Locating the engine's statements through the AST (never by line number constants)
# ------------------------------------------------------------------------------------------------
class Sites:
    def __init__(self, rfg_module):
        src = inspect.getsource(rfg_module)
        self.tree = ast.parse(src)
        self.file = rfg_module.__file__
        self.lines = {}
        fn = {n.name: n for n in ast.walk(self.tree) if isinstance(n, ast.FunctionDef)}
        self.fn = fn
        pn = fn.get("process_node")
        for n in (ast.walk(pn) if pn is not None else ()):
            if isinstance(n, ast.If) and isinstance(n.test, ast.Name) and n.test.id == "stop":
                self.lines["readstop"] = n.lineno
            if isinstance(n, ast.AugAssign) and isinstance(n.target, ast.Name) and n.target.id == "error_count":
                self.lines["failblk"] = n.lineno
            if isinstance(n, ast.AugAssign) and isinstance(n.target, ast.Subscript) and isinstance(n.op, ast.Sub):
                self.lines["dec"] = n.lineno
            if isinstance(n, ast.With):
                nm = ast.unparse(n.items[0].context_expr)
                if nm == "failure_lock":
                    self.lines["fail_with"] = (n.lineno, n.end_lineno)
                if nm == "remaining_pred_count_lock":
                    self.lines["rem_with"] = (n.lineno, n.end_lineno)
        rf = fn.get("run_function_on_graph")
        inner = set(ast.walk(pn)) if pn is not None else set()
        for n in (ast.walk(rf) if rf is not None else ()):
            if isinstance(n, ast.Assign) and isinstance(n.targets[0], ast.Name) and n.targets[0].id == "stop" \
                    and isinstance(n.value, ast.Constant) and n.value.value is True and n not in inner:
                self.lines["setstop"] = n.lineno
        self.missing = [k for k in ("readstop", "failblk", "dec", "setstop") if k not in self.lines]
        self.missing += ["function:" + k for k in ("process_node", "run_function_on_graph", "worker_thread", "worker_pool", "prepare_nodes") if k not in fn]
        # fail-closed: without every statement the tracer keys on, an instrumented run means nothing (and may not even terminate)
        self.usable = not self.missing

    def skeleton(self):
        """Normalised AST dump of the four engine functions: the synchronisation skeleton the model was written against."""
        out = []
        for name in ("worker_thread", "worker_pool", "prepare_nodes", "run_function_on_graph"):
            node = self.fn.get(name)
            out.append("MISSING:" + name if node is None else ast.dump(node, annotate_fields=False, include_attributes=False))
        return "\n".join(out)


# ------------------------------------------------------------------------------------------------
# Cooperative replacements for the blocking primitives (stdlib behaviour, not uberjob's)
# ------------------------------------------------------------------------------------------------
class Run:
    """One controlled execution of run_function_on_graph."""

    def __init__(self, uj_rfg, sites, chooser, pause_in_fn=True, opcodes=True, extra_files=()):
        self.opcodes = opcodes
        self.extra_files = set(extra_files)      # further source files whose frames yield at every bytecode (e.g. caching.py)
        self.rfg = uj_rfg
        self.sites = sites
        self.sched = Sched(chooser)
        self.events = []
        self.wnames = []
        self.pause_in_fn = pause_in_fn
        self.in_fn = {}
        self.maxinflight = 0

    def ev(self, *e):
        self.events.append(e)

    def me(self):
        return self.sched.cur.name

    # -- tracing
    def local_extra(self, frame, event, arg):
        sc = self.sched
        if threading.current_thread() is self._owner(sc.cur) and event in ("line", "opcode") and not sc.deadlock:
            sc.yield_point()
        return self.local_extra

    def tracer(self, frame, event, arg):
        if frame.f_code.co_filename in self.extra_files:
            frame.f_trace_opcodes = True
            return self.local_extra
        if frame.f_code.co_filename != self.sites.file:
            return None
        frame.f_trace_opcodes = self.opcodes
        return self.local

    def local(self, frame, event, arg):
        sc = self.sched
        if threading.current_thread() is not self._owner(sc.cur):
            return self.local  # not ours (should not happen)
        fid = id(frame)
        if event == "line":
            ln = frame.f_lineno
            L = self.sites.lines
            name = frame.f_code.co_name
            self._atomic_line.pop(fid, None)
            np_end = self._np_frames.get(fid)
            if np_end is not None and not (L.get("fail_with", (0, 0))[0] <= ln <= np_end):
                del self._np_frames[fid]
                sc.no_preempt -= 1
            # yield BEFORE the statement, then emit the event and execute the whole line without a
            # yield in between: the event is the statement's linearisation point
            sc.yield_point()
            if name == "process_node":
                if ln == L.get("readstop"):
                    self.ev("readstop", self.me())
                    self._atomic_line[fid] = ln
                elif ln == L.get("failblk"):
                    self.ev("failblk", self.me())
                    sc.no_preempt += 1
                    self._np_frames[fid] = L.get("fail_with", (ln, ln))[1]
                elif ln == L.get("dec"):
                    self.ev("dec", self.me(), frame.f_locals.get("successor"))
            elif name == "run_function_on_graph" and ln == L.get("setstop"):
                self.ev("setstop")
                self._atomic_line[fid] = ln
            return self.local
        if event == "return":
            self._atomic_line.pop(fid, None)
            if fid in self._np_frames:
                del self._np_frames[fid]
                sc.no_preempt -= 1
        elif event == "opcode":
            if self._atomic_line.get(fid) != frame.f_lineno:
                sc.yield_point()
        return self.local

    def _owner(self, t):
        return self._thr.get(t.name)

    # -- the run
    def execute(self, graph, fn, worker_count, max_errors, scheduler, interrupt_at=None):
        rfg, sc, R = self.rfg, self.sched, self
        self._np_frames = {}
        self._atomic_line = {}
        self._thr = {"main": threading.current_thread()}
        main = sc.register("main")
        sc.cur = main
        real_threading = rfg.threading
        real_create_queue = rfg.create_queue
        DONE = rfg.DONE
        before = set(threading.enumerate())

        class CoopLock:
            def __init__(self):
                self.owner = None

            def __enter__(self):
                sc.block_until(lambda: self.owner is None, "lock")
                self.owner = sc.cur.name
                return self

            def __exit__(self, *a):
                self.owner = None
                return False

            def acquire(self, *a, **k):
                self.__enter__()
                return True

            def release(self):
                self.owner = None

            def locked(self):
                return self.owner is not None

        class CoopThread(real_threading.Thread):
            def __init__(s, target=None, **kw):
                super().__init__(target=s._run, daemon=True)
                s._target_fn = target
                s.t = sc.register("w%d" % len(R.wnames))
                s.t.started = False
                R.wnames.append(s.t.name)
                R._thr[s.t.name] = s

            def start(s):
                R.ev("spawn", s.t.name)
                s.t.started = True
                super().start()

            def _run(s):
                s.t.sem.acquire()
                if sc.deadlock:
                    return
                sys.settrace(R.tracer)
                try:
                    s._target_fn()
                except Deadlock:
                    pass
                finally:
                    sys.settrace(None)
                    R.ev("exit", s.t.name)
                    sc.thread_exit(s.t)

            def join(s, timeout=None):
                sc.block_until(lambda: s.t.done, "join of %s" % s.t.name)
                R.ev("joined", s.t.name)

        class Shim:
            Lock = CoopLock
            Thread = CoopThread

            def __getattr__(self, k):
                return getattr(real_threading, k)

        def coop_queue(q):
            base = q.__class__

            class Coop(base):
                def get(s, block=True, timeout=None):
                    if not block and s._qsize() == 0:
                        import queue as _q
                        raise _q.Empty
                    sc.block_until(lambda: s._qsize() > 0, "queue.get")
                    item = base.get(s, block=False)
                    R.ev("get", R.me(), item)
                    return item

                def put(s, item, block=True, timeout=None):
                    R.ev("put", R.me(), item)
                    return base.put(s, item, block=False)

                def task_done(s):
                    R.ev("taskdone", R.me())
                    return base.task_done(s)

                def join(s):
                    R.ev("join_enter")
                    if interrupt_at is not None and interrupt_at[0] == "join":
                        # KeyboardInterrupt delivered while the coordinator waits in queue.join(),
                        # after `interrupt_at[1]` function starts
                        sc.block_until(lambda: s.unfinished_tasks == 0 or R.nstarts >= interrupt_at[1], "queue.join")
                        if s.unfinished_tasks != 0:
                            R.ev("intr")
                            raise KeyboardInterrupt()
                    else:
                        sc.block_until(lambda: s.unfinished_tasks == 0, "queue.join")
                    R.ev("join_ret")

            q.__class__ = Coop
            return q

        def create_queue(graph_, initial, scheduler_):
            return coop_queue(real_create_queue(graph_, initial, scheduler_))

        R.nstarts = 0

        def wrapped(node):
            me = R.me()
            R.nstarts += 1
            for t_ in threading.enumerate():
                if t_ not in before and not isinstance(t_, CoopThread):
                    R.__dict__.setdefault("_untracked_seen", []).append(t_.name)
            R.ev("start", me, node)
            R.in_fn[me] = node
            R.maxinflight = max(R.maxinflight, len(R.in_fn))
            try:
                if R.pause_in_fn:
                    sc.yield_point()
                r = fn(node)
                if R.pause_in_fn:
                    sc.yield_point()
            except BaseException as e:
                if isinstance(e, Deadlock):
                    raise
                del R.in_fn[me]
                R.ev("end", me, node, False)
                raise
            del R.in_fn[me]
            R.ev("end", me, node, True)
            return r

        rfg._verif_real = (real_threading, real_create_queue)      # for force_restore() after a run that had to be abandoned
        rfg.threading = Shim()
        rfg.create_queue = create_queue
        outcome = None
        sys.settrace(self.tracer)
        try:
            try:
                rfg.run_function_on_graph(graph, wrapped, worker_count=worker_count, max_errors=max_errors, scheduler=scheduler)
                outcome = ("returned", None)
            except Deadlock as d:
                outcome = ("deadlock", str(d))
            except KeyboardInterrupt:
                outcome = ("interrupted", None)
            except BaseException as e:
                outcome = ("raised", e)
        finally:
            sys.settrace(None)
            rfg.threading = real_threading
            rfg.create_queue = real_create_queue
        self.ev("final", outcome[0])
        # leak detector
        import time
        deadline = time.time() + 2.0
        leaked = []
        while time.time() < deadline:
            leaked = [t for t in threading.enumerate() if t not in before and t.is_alive()]
            if not leaked or sc.deadlock:
                break
            time.sleep(0.001)
        self.leaked = [getattr(getattr(t, "t", None), "name", t.name) for t in leaked]
        # threads the engine started behind the shim's back (not CoopThreads): the baton does not control them
        self.untracked = [t.name for t in threading.enumerate() if t not in before and not isinstance(t, CoopThread)] + list(getattr(self, "_untracked_seen", []))
        if sc.deadlock:
            for t in sc.ts.values():
                t.sem.release()
        self.outcome = outcome
        return outcome


def force_restore(rfg):
    """undo the patching of an execute() that was abandoned (its thread is stuck in a primitive the scheduler does not replace)"""
    real = getattr(rfg, "_verif_real", None)
    if real is not None:
        rfg.threading, rfg.create_queue = real


# ------------------------------------------------------------------------------------------------
# Choosers
# ------------------------------------------------------------------------------------------------
def random_chooser(rng, p_switch):
    def ch(names, cur, must):
        if not must and cur in names and rng.random() >= p_switch:
            return cur
        return rng.choice(names)
    return ch


def pct_chooser(rng, nthreads_hint=8, depth=3, horizon=3000):
    """PCT: random priorities, `depth` priority-change points."""
    prio = {}
    change = sorted(rng.randrange(horizon) for _ in range(depth))
    state = {"step": 0, "low": 0}

    def ch(names, cur, must):
        state["step"] += 1
        for n in names:
            if n not in prio:
                prio[n] = rng.random() + 1.0
        while change and state["step"] >= change[0]:
            change.pop(0)
            state["low"] -= 1
            if cur in prio:
                prio[cur] = state["low"]
        return max(names, key=lambda n: prio[n])
    return ch


def deviation_chooser(deviations, record):
    """Default schedule = keep running the current thread; when it blocks or exits, the first runnable one.
    `deviations`: {decision index: option index} - at those decision points another option is taken.
    `record`: list receiving, per decision point, (number of options, index of the default option)."""
    state = {"i": 0}

    def ch(names, cur, must):
        i = state["i"]
        state["i"] = i + 1
        default = names.index(cur) if (not must and cur in names) else 0
        record.append((len(names), default))
        k = deviations.get(i)
        return names[k] if k is not None and k < len(names) else names[default]
    return ch


def replay_chooser(decisions):
    it = iter(decisions)

    def ch(names, cur, must):
        try:
            i = next(it)
        except StopIteration:
            i = 0
        return names[i % len(names)]
    return ch
