"""Real uberjob.run under the deterministic scheduler: while a `Controlled` block is active, run_physical's (and the stale
check's) run_function_on_graph goes through detsched.Run, so a chooser decides every interleaving of the worker threads at
bytecode granularity of run_function_on_graph.py.  Everything else (plan copy, gather, pruning, binding of arguments,
observers, stores) is the unmodified library code."""
import detsched

SHAPES = {
    "join2": [("a", []), ("b", []), ("j", ["a", "b"])],
    "double-join": [("a", []), ("b", []), ("h", []), ("j", ["a", "b"]), ("k", ["j", "h"])],
    "join3-chain": [("a", []), ("b", []), ("c", []), ("j", ["a", "b", "c"]), ("h", []), ("k", ["j", "h"]), ("m", ["k", "a"])],
    "two-joins": [("a", []), ("b", []), ("j1", ["a", "b"]), ("j2", ["b", "a"]), ("h", []), ("k", ["j1", "j2", "h"])],
}


class Controlled:
    def __init__(self, stale_check=False, trace_caching=False):
        import uberjob._execution.run_physical as rp
        import uberjob._execution.run_function_on_graph as rfg
        import uberjob._transformations.caching as caching
        self.rp, self.rfg, self.caching = rp, rfg, caching
        self.sites = detsched.Sites(rfg)
        self.chooser = None
        self.runs = []
        self.stale_check = stale_check
        self.extra_files = [caching.__file__] if trace_caching else []

    def _rfg(self, graph, fn, *, worker_count=None, max_errors=0, scheduler=None):
        import core
        core.alive()
        if getattr(self, "abandoned", False):
            return self._orig[0](graph, fn, worker_count=worker_count, max_errors=max_errors, scheduler=scheduler)
        r = detsched.Run(self.rfg, self.sites, self.chooser, extra_files=self.extra_files)
        try:
            outcome = core.call_watched(lambda: r.execute(graph, fn, worker_count, max_errors, scheduler), timeout=40)
        except core.Hang:
            # the engine blocks in something the scheduler does not replace: from now on run the library as it is (real threads)
            core.HANGS[0] -= 1
            self.abandoned = True
            detsched.force_restore(self.rfg)
            return self._orig[0](graph, fn, worker_count=worker_count, max_errors=max_errors, scheduler=scheduler)
        self.runs.append(r)
        if outcome[0] == "raised":
            raise outcome[1]
        if outcome[0] != "returned":
            raise RuntimeError("controlled run ended with %r" % (outcome,))

    def __enter__(self):
        self._orig = (self.rp.run_function_on_graph, self.caching.run_function_on_graph)
        if not self.sites.usable:        # the engine lacks the statements the tracer keys on: run the library as it is (real threads)
            return self
        self.rp.run_function_on_graph = self._rfg
        if self.stale_check:
            self.caching.run_function_on_graph = self._rfg
        return self

    def __exit__(self, *a):
        self.rp.run_function_on_graph, self.caching.run_function_on_graph = self._orig

    def set(self, chooser):
        self.chooser = chooser
        self.runs = []

    @property
    def last(self):
        return self.runs[-1] if self.runs else None


def stress_chooser(rng, si):
    return detsched.random_chooser(rng, rng.choice([0.3, 0.5, 0.7])) if si % 3 else \
        detsched.pct_chooser(rng, depth=rng.choice([2, 4, 6]), horizon=rng.choice([200, 500]))
