"""Integration-level runs through the public API (uberjob.Plan / uberjob.run) with recording call functions.

Used by C01/C04/C06/C10 for the path plan -> prune -> run_physical -> engine (real threads, OS schedule)."""
import itertools
import threading

import core


class PlanBoom(Exception):
    pass


class PlanBaseBoom(BaseException):
    pass


class PlanFalsyBoom(Exception):
    def __bool__(self):
        return False

    def __len__(self):
        return 0


HANG_TIMEOUT = 30


class Hang(Exception):
    pass


class Recorder:
    def __init__(self):
        self.lock = threading.Lock()
        self.seq = 0
        self.log = []          # (seq, kind, call_id)
        self.inflight = 0
        self.maxinflight = 0
        self.raised = {}

    def ev(self, kind, cid):
        with self.lock:
            self.seq += 1
            self.log.append((self.seq, kind, cid))
            if kind == "start":
                self.inflight += 1
                self.maxinflight = max(self.maxinflight, self.inflight)
            elif kind in ("ok", "fail"):
                self.inflight -= 1


def gen_plan(rng, uberjob, rec, ncalls, failing_frac=0.0, exc_kinds=("Exception",), barrier=None):
    """Random plan. Returns (plan, calls, deps, nodes) where calls[i] is the Call node of call i,
    deps[i] = set of call ids it depends on directly (args, kwargs, nested structures, add_dependency, via literals)."""
    plan = uberjob.Plan()
    calls, deps, failing = [], [], set()
    pending_lits = []

    def mk(i, fail_kind):
        def f(*args, **kwargs):
            rec.ev("start", i)
            if barrier:
                barrier(i)
            if fail_kind:
                e = {"Exception": PlanBoom, "BaseException": PlanBaseBoom, "KeyboardInterrupt": KeyboardInterrupt,
                     "SystemExit": SystemExit, "Falsy": PlanFalsyBoom}[fail_kind]("call %d" % i)
                rec.raised[i] = e
                rec.ev("fail", i)
                raise e
            rec.ev("ok", i)
            return i
        f.__name__ = "f%d" % i
        f.__qualname__ = "f%d" % i
        return f

    for i in range(ncalls):
        fk = rng.choice(exc_kinds) if rng.random() < failing_frac else None
        if fk:
            failing.add(i)
        d = set()
        args, kwargs = [], {}
        if calls:
            for _ in range(rng.choice([0, 1, 1, 2, 3])):
                j = rng.randrange(len(calls))
                form = rng.choice(["plain", "plain", "list", "dict", "tuple", "kw"])
                d.add(j)
                if form == "plain":
                    args.append(calls[j])
                elif form == "list":
                    args.append([calls[j], 7])
                elif form == "tuple":
                    args.append((1, (calls[j],)))
                elif form == "dict":
                    args.append({"k": calls[j]})
                else:
                    kwargs["k%d" % len(kwargs)] = calls[j]
        if rng.random() < 0.3:
            args.append(rng.choice([1, "x", [1, 2], None]))
        if pending_lits:
            l_, j_ = pending_lits.pop()
            args.append(l_)
            d.add(j_)                # the literal depends on calls[j_], hence so does every call that takes it
        if calls and rng.random() < 0.15:
            # ordering routed through TWO adjacent literals that both survive pruning because each is also an argument of
            # a call: calls[j] -> l1 -> l2 -> (this call takes l2; a later call takes l1)
            j = rng.randrange(len(calls))
            l1, l2 = plan.lit("chain-1"), plan.lit("chain-2")
            plan.add_dependency(calls[j], l1)
            plan.add_dependency(l1, l2)
            args.append(l2)
            pending_lits.append((l1, j))
            d.add(j)
        if calls and rng.random() < 0.15:
            # SEVERAL literals gated on the same producer, all of them arguments of this call (each survives pruning)
            j = rng.randrange(len(calls))
            for gi_ in range(rng.choice([2, 2, 3])):
                gl = plan.lit("gated-%d" % gi_)
                plan.add_dependency(calls[j], gl)
                if rng.random() < 0.3:
                    kwargs["g%d" % gi_] = gl
                else:
                    args.append(gl)
            d.add(j)
        c = plan.call(mk(i, fk), *args, **kwargs)
        calls.append(c)
        deps.append(d)
        if len(calls) > 1 and rng.random() < 0.25:
            j = rng.randrange(len(calls) - 1)
            if rng.random() < 0.5:
                plan.add_dependency(calls[j], c)
            else:
                lit = plan.lit("via-literal")
                plan.add_dependency(calls[j], lit)
                plan.add_dependency(lit, c)
            deps[i].add(j)
        if len(calls) > 3 and rng.random() < 0.2:
            # a literal used purely as an ordering gate with m predecessors and n successors (m, n in 1..3)
            m_, n_ = rng.choice([1, 2, 2, 3]), rng.choice([1, 2, 2])
            ps = rng.sample(range(len(calls) - 1), min(m_, len(calls) - 1))
            gate = plan.lit("gate")
            succ = [i] + ([rng.randrange(max(ps) + 1, len(calls)) for _ in range(n_ - 1)] if max(ps) + 1 < len(calls) else [])
            consumer_first = rng.random() < 0.5          # the order in which the user wires the gate must not matter
            if not consumer_first:
                for j in ps:
                    plan.add_dependency(calls[j], gate)
            for t in set(succ):
                if t > max(ps):
                    plan.add_dependency(gate, calls[t])
                    deps[t] |= set(ps)
            if consumer_first:
                for j in ps:
                    plan.add_dependency(calls[j], gate)
    return plan, calls, deps, failing


def closure(deps):
    anc = []
    for i, d in enumerate(deps):
        a = set(d)
        for j in d:
            a |= anc[j]
        anc.append(a)
    return anc


def run_plan_case(ctx, uberjob, rng, props, found, barrier_width=None):
    ncalls = rng.randrange(0, 13)
    rec = Recorder()
    exc_kinds = rng.choice([("Exception",), ("Exception",), ("Exception", "BaseException"), ("SystemExit",), ("KeyboardInterrupt",), ("Falsy",), ("Falsy", "Exception")])
    plan, calls, deps, failing = gen_plan(rng, uberjob, rec, ncalls, failing_frac=rng.choice([0, 0, 0.15, 0.3]), exc_kinds=exc_kinds)
    anc = closure(deps)
    outkind = rng.choice(["none", "node", "struct", "literal", "all"])
    if not calls and outkind in ("node", "struct"):
        outkind = "literal"
    if outkind == "none":
        output, wanted = None, set()
    elif outkind == "node":
        j = rng.randrange(ncalls)
        output, wanted = calls[j], {j} | anc[j]
    elif outkind == "struct":
        js = [rng.randrange(ncalls) for _ in range(rng.randrange(1, 4))]
        output = {"a": [calls[j] for j in js], "b": (1, 2)}
        wanted = set(js) | set().union(*[anc[j] for j in js])
    elif outkind == "literal":
        output, wanted = [1, "two", (3,)], set()
    else:
        output, wanted = list(calls), set(range(ncalls))
    workers = rng.choice([1, 1, 2, 4, ncalls + 2])
    max_errors = rng.choice([0, 0, 1, None])
    scheduler = rng.choice([None, "default", "random"])
    # retry only matters for calls that fail (those are counted by C10's retry grids): with no failing call every call runs once
    retry = rng.choice([None, None, 2, 3]) if not failing else None
    # a transform_physical that changes nothing (returns what it got / a copy of it) must change nothing
    transform = rng.choice([None, None, lambda pl, out: (pl, out), lambda pl, out: (pl.copy(), out)])
    case = {"ncalls": ncalls, "retry": retry, "deps": [sorted(d) for d in deps], "failing": sorted(failing), "output": outkind,
            "wanted": sorted(wanted), "workers": workers, "max_errors": max_errors, "scheduler": scheduler, "exc": list(exc_kinds)}
    before = set(threading.enumerate())
    box = {}

    def target():
        try:
            box["o"] = ("returned", uberjob.run(plan, output=output, max_workers=workers, max_errors=max_errors,
                                                scheduler=scheduler, progress=None, retry=retry, transform_physical=transform))
        except uberjob.CallError as e:
            box["o"] = ("raised", e)
        except BaseException as e:  # noqa
            box["o"] = ("other", e)
    th = threading.Thread(target=target, daemon=True)
    th.start()
    th.join(HANG_TIMEOUT)
    if th.is_alive():
        # run never returned: C07.  The stuck threads are daemons; stop the campaign here.
        found.append(("C07", "plan:hang", "uberjob.run did not return within %ds" % HANG_TIMEOUT, dict(case, log=rec.log[:200])))
        raise Hang()
    outcome = box["o"]
    res = outcome[1]
    before.add(th)
    case["outcome"] = outcome[0]
    started = {}
    ok, failed, order = set(), set(), []
    add = lambda p, k, w: found.append((p, k, w, dict(case, log=rec.log[:200])))
    for seq, kind, cid in rec.log:
        if kind == "start":
            started[cid] = started.get(cid, 0) + 1
            miss = [m for m in anc[cid] if m not in ok]
            if miss:
                add("C01", "plan:start-before-deps", "call %d started before dependencies %r finished successfully" % (cid, sorted(miss)))
            if anc[cid] & failed:
                add("C06", "plan:downstream-of-failure", "call %d started although %r failed" % (cid, sorted(anc[cid] & failed)))
        elif kind == "ok":
            ok.add(cid)
        else:
            failed.add(cid)
            order.append(cid)
    for cid, k in started.items():
        if k > 1:
            add("C04", "plan:started-twice", "call %d executed %d times" % (cid, k))
        if cid not in wanted:
            add("C04", "plan:unneeded-call", "call %d executed but the requested output does not depend on it" % cid)
    if outcome[0] == "returned":
        if failed:
            add("C06", "plan:returned-despite-failure", "run returned although %r raised" % sorted(failed))
        missing = [c for c in wanted if started.get(c, 0) != 1]
        if missing:
            add("C04", "plan:needed-not-once", "successful run: needed calls %r executed %r times" % (missing, [started.get(c, 0) for c in missing]))
        exp = {"none": None, "literal": [1, "two", (3,)], "all": list(range(ncalls))}.get(outkind, "skip")
        if outkind in ("none", "literal", "all") and res != exp:
            add("C02", "plan:wrong-output", "run returned %r, expected %r" % (res, exp))
    elif outcome[0] == "raised":
        e = outcome[1]
        idx = next((i for i, c in enumerate(calls) if c is e.call), None)
        if idx is None or idx not in failed:
            add("C06", "plan:error-names-non-failure", "CallError.call is not a call that raised (failed: %r)" % sorted(failed))
        elif e.__cause__ is not rec.raised.get(idx):
            add("C06", "plan:wrong-cause", "CallError.__cause__ is not the exception object raised by call %d" % idx)
        elif workers == 1 and idx != order[0]:
            add("C06", "plan:not-first-failure", "single worker: CallError names call %d but %d failed first" % (idx, order[0]))
    else:
        if not failing:
            add("C06", "plan:unexpected-exception", "run raised %r" % (outcome[1],))
        else:
            add("C06", "plan:not-callerror", "run raised %r instead of CallError" % (outcome[1],))
    if rec.maxinflight > workers:
        add("C10", "plan:too-many-in-flight", "%d calls in flight with max_workers=%d" % (rec.maxinflight, workers))
    if outcome[0] in ("returned", "raised"):
        if max_errors is not None and len(failed) > max_errors + workers:
            add("C10", "plan:too-many-failures", "%d failures, max_errors=%d workers=%d" % (len(failed), max_errors, workers))
        elig = [c for c in wanted if c in failing and not (anc[c] & failing)]
        if workers == 1 and max_errors is not None and len(failed) != min(max_errors + 1, len(elig)):
            add("C10", "plan:single-worker-failures", "single worker: %d failures, expected %d" % (len(failed), min(max_errors + 1, len(elig))))
        if max_errors is None:
            should = {c for c in wanted if not (anc[c] & failing)}
            if set(started) != should:
                add("C10", "plan:none-runs-all", "max_errors=None: executed %r expected %r" % (sorted(started), sorted(should)))
    import time
    t0 = time.time()
    while time.time() - t0 < 2:
        leaked = [t for t in threading.enumerate() if t not in before]
        if not leaked:
            break
        time.sleep(0.002)
    else:
        add("C07", "plan:leaked-thread", "threads alive after run: %r" % leaked)
    if rec.inflight != 0:
        add("C07", "plan:in-flight-at-return", "%d calls still executing when run returned" % rec.inflight)
    ctx.case(("plan", ncalls, tuple(map(tuple, case["deps"])), tuple(case["failing"]), outkind, workers, max_errors, scheduler),
             nontrivial=ncalls >= 2)
    ctx.count("plan_ncalls", ncalls)
    ctx.count("plan_output", outkind)
    ctx.count("plan_outcome", outcome[0])
    return case


def multi_run_case(ctx, uberjob, rng, found):
    """Several runs of ONE plan object in one process, with different outputs: every run executes exactly the calls ITS output
    needs (nothing remembered from earlier runs); an output that is a Literal node with prerequisites (add_dependency) needs them."""
    ncalls = rng.randrange(3, 9)
    rec = Recorder()
    plan, calls, deps, _ = gen_plan(rng, uberjob, rec, ncalls)
    anc = closure(deps)
    pre = sorted(rng.sample(range(ncalls), rng.choice([1, 2])))
    lit = plan.lit("literal-output")
    for j in pre:
        plan.add_dependency(calls[j], lit)
    outputs = []
    for _ in range(rng.choice([3, 4, 5])):
        kind = rng.choice(["node", "node", "none", "literal-node", "struct", "plain-literal"])
        if kind == "node":
            j = rng.randrange(ncalls)
            outputs.append((kind, calls[j], {j} | anc[j], j))
        elif kind == "none":
            outputs.append((kind, None, set(), None))
        elif kind == "literal-node":
            outputs.append((kind, lit, set(pre) | set().union(*[anc[j] for j in pre]), "literal-output"))
        elif kind == "plain-literal":
            outputs.append((kind, 7, set(), 7))
        else:
            js = [rng.randrange(ncalls) for _ in range(2)]
            outputs.append((kind, [calls[js[0]], {"k": calls[js[1]]}], set(js) | anc[js[0]] | anc[js[1]], [js[0], {"k": js[1]}]))
    history = []
    for ri, (kind, output, wanted, expected) in enumerate(outputs):
        rec.log = []
        workers = rng.choice([1, 3])
        try:
            res = uberjob.run(plan, output=output, max_workers=workers, scheduler=rng.choice([None, "random"]), progress=None,
                              retry=rng.choice([None, 2, 4]))
            err = None
        except BaseException as e:      # noqa
            res, err = None, e
        started = [cid for _, k, cid in rec.log if k == "start"]
        history.append({"output": kind, "wanted": sorted(wanted), "executed": sorted(started)})
        ctx.case(("plan-multi", ncalls, tuple(map(tuple, [sorted(d) for d in deps])), tuple(h["output"] for h in history), ri), nontrivial=True)
        ctx.count("plan_multi_output", kind)
        rep = {"ncalls": ncalls, "deps": [sorted(d) for d in deps], "literal_prerequisites": pre, "runs": list(history), "workers": workers}
        if err is not None:
            found.append(("C04", "plan-multi:raised", "run %d of the same plan (output %s) raised %r" % (ri + 1, kind, err), rep))
            break
        if sorted(started) != sorted(wanted):
            found.append(("C04", "plan-multi:executed-set", "run %d of the same plan (output %s): executed calls %r, the output needs exactly %r"
                          % (ri + 1, kind, sorted(started), sorted(wanted)), rep))
            break
        if res != expected:
            found.append(("C02", "plan-multi:wrong-output", "run %d of the same plan (output %s) returned %r, expected %r" % (ri + 1, kind, res, expected), rep))
            break


def plan_campaign(ctx, props, n_quick=150, n_thorough=3000):
    uberjob = core.use_repo()
    found = []
    for _ in range(ctx.n(40, 600)):
        multi_run_case(ctx, uberjob, ctx.rng, found)
    import sys
    old_si = sys.getswitchinterval()
    try:
        for k_ in range(ctx.n(n_quick, n_thorough)):
            # every other case runs with a 1 us interpreter switch interval: the engine's real threads are preempted between almost any
            # two bytecodes, which exposes check-then-act windows that the default 5 ms interval hides
            sys.setswitchinterval(1e-6 if k_ % 2 else old_si)
            try:
                run_plan_case(ctx, uberjob, ctx.rng, props, found)
            except Hang:
                ctx.broke("plan-level campaign aborted: uberjob.run hung", found[-1][2])
                break
    finally:
        sys.setswitchinterval(old_si)
    for prop, key, what, replay in found:
        if prop in props:
            ctx.fail(key, what, replay)
    ctx.notes["plan_level_runs"] = ctx.n(n_quick, n_thorough)


def equal_constants(ctx, uj, with_registry, report):
    """Constants that compare equal but are different values (1, True, 1.0, Fraction(1), Decimal(1); 0, False, 0.0, -0.0; (1,), (True,)) used
    by different calls of one plan - in one scope, directly, by keyword and inside containers: every call receives ITS constant.  With a
    registry the results are also stored, the run repeated, and both outputs and stored values compared with direct evaluation."""
    import datetime as dt
    import decimal
    import fractions
    import itertools
    clock = itertools.count(1)
    groups = [[1, True, 1.0, fractions.Fraction(1), decimal.Decimal(1)], [0, False, 0.0, -0.0], [(1,), (True,), (1.0,)], [frozenset({1}), frozenset({True})]]

    class Mem(uj.ValueStore):
        def __init__(self):
            self.v, self.t = None, None

        def read(self):
            return self.v

        def write(self, v):
            self.v, self.t = v, dt.datetime(2020, 1, 1) + dt.timedelta(seconds=next(clock))

        def get_modified_time(self):
            return self.t

    def show(x):
        return "%s:%r" % (type(x).__name__, x)
    for how in ("positional", "keyword", "in-list", "in-dict-value"):
        for order in (0, 1):
            for workers in (1, 3):
                plan, reg = uj.Plan(), uj.Registry()
                nodes, want, stores = [], [], []
                for g in groups:
                    for c in (g if order == 0 else list(reversed(g))):
                        if how == "positional":
                            n = plan.call(show, c)
                        elif how == "keyword":
                            n = plan.call(lambda x: show(x), x=c)
                        elif how == "in-list":
                            n = plan.call(lambda box: show(box[0]), [c, "pad"])
                        else:
                            n = plan.call(lambda box: show(box["k"]), {"k": c})
                        nodes.append(n)
                        want.append(show(c))
                        if with_registry:
                            st = Mem()
                            reg.add(n, st)
                            stores.append(st)
                ctx.case(("equal-constants", how, order, workers, with_registry))
                outs = []
                for attempt in range(2 if with_registry else 1):
                    try:
                        outs.append(uj.run(plan, output=nodes, registry=reg if with_registry else None, max_workers=workers, progress=None))
                    except BaseException as e:      # noqa
                        outs.append("raised %s: %r" % (type(e).__name__, getattr(e, "__cause__", None)))
                stored = [st.v for st in stores]
                if any(o != want for o in outs) or (with_registry and stored != want):
                    bad = next((i for i, o in enumerate(outs) if o != want), None)
                    report("equal-constants", "constants that compare equal but differ (%s, %s): run %s returned %r%s; direct evaluation gives %r"
                           % (how, "ascending" if order == 0 else "descending", bad, outs[bad] if bad is not None else outs[0],
                              "; stored values %r" % (stored,) if with_registry and stored != want else "", want),
                           {"how": how, "order": order, "max_workers": workers, "registry": with_registry})
