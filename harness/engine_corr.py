"""Trace acceptance of the real engine by Engine.v + model-free monitors for C01/C04/C06/C07/C10/C17."""
import hashlib
import os

import core
import detsched

HEADER = ("From Coq Require Import List Arith Bool.\nImport ListNotations.\n"
          "From UJ Require Import Engine.Engine Run.Exec_Engine.\n")

# sha1 of Sites.skeleton() for the engine source the model was written against
SKELETON_SHA = None  # filled from harness/engine_skeleton.sha on import
_p = os.path.join(os.path.dirname(__file__), "engine_skeleton.sha")
if os.path.exists(_p):
    SKELETON_SHA = open(_p).read().strip()


class Boom(Exception):
    pass


class BaseBoom(BaseException):
    pass


class FalsyBoom(Exception):
    """an exception instance that is falsy (e.g. an aggregate error with no sub-errors)"""

    def __bool__(self):
        return False

    def __len__(self):
        return 0


def gen_graph(rng, maxn=9):
    """Random DAG (ints, topologically numbered then relabelled) with parallel edges. Returns (nodes, edges) with
    edges as (u, v, keykind)."""
    fam = rng.choice(["layered", "chain", "fanin", "fanout", "random", "diamond", "sp"])
    n = rng.randrange(0, maxn + 1) if fam != "diamond" else 4
    edges = []
    if fam == "layered":
        layers, i = [], 0
        while i < n:
            k = rng.randrange(1, 4)
            layers.append(list(range(i, min(n, i + k))))
            i += k
        for a, b in zip(layers, layers[1:]):
            for v in b:
                for u in rng.sample(a, rng.randrange(1, len(a) + 1)):
                    edges.append((u, v))
    elif fam == "chain":
        edges = [(i, i + 1) for i in range(n - 1)]
        for _ in range(rng.randrange(0, 3)):
            if n > 2:
                a = rng.randrange(0, n - 2)
                edges.append((a, rng.randrange(a + 2, n)))
    elif fam == "fanin":
        edges = [(i, n - 1) for i in range(n - 1)]
    elif fam == "fanout":
        edges = [(0, i) for i in range(1, n)]
    elif fam == "diamond":
        edges = [(0, 1), (0, 2), (1, 3), (2, 3)]
    elif fam == "sp":
        edges = []
        for v in range(1, n):
            for u in rng.sample(range(v), min(v, rng.randrange(1, 3))):
                edges.append((u, v))
    else:
        p = rng.choice([0.15, 0.3, 0.5])
        edges = [(u, v) for u in range(n) for v in range(u + 1, n) if rng.random() < p]
    # parallel edges
    out = []
    for (u, v) in edges:
        out.append((u, v, "pos"))
        r = rng.random()
        if r < 0.15:
            out.append((u, v, "dep"))
        elif r < 0.25:
            out.append((u, v, "kw"))
            out.append((u, v, "dep"))
    # relabel so that node ids are not topologically ordered
    perm = list(range(n))
    rng.shuffle(perm)
    nodes = [perm[i] for i in range(n)]
    order = list(range(n))
    rng.shuffle(order)
    nodes = [perm[i] for i in order]
    out = [(perm[u], perm[v], k) for (u, v, k) in out]
    rng.shuffle(out)
    return fam, nodes, out


def build_nx(uj, nodes, edges):
    import networkx as nx
    from uberjob.graph import Dependency, KeywordArg, PositionalArg
    g = nx.MultiDiGraph()
    for n in nodes:
        g.add_node(n)
    cnt = {}
    for (u, v, k) in edges:
        i = cnt.get(v, 0)
        cnt[v] = i + 1
        key = PositionalArg(i) if k == "pos" else KeywordArg("k%d" % i, i) if k == "kw" else Dependency()
        g.add_edge(u, v, key)
    return g


def ancestors(nodes, edges):
    pred = {n: set() for n in nodes}
    for (u, v, _) in edges:
        pred[v].add(u)
    anc = {}

    def go(n):
        if n in anc:
            return anc[n]
        a = set()
        for p in pred[n]:
            a.add(p)
            a |= go(p)
        anc[n] = a
        return a
    for n in nodes:
        go(n)
    return anc


def to_choices(run, nodes, edges, DONE):
    """Derive the model's choice list and the expected ghost history from the observed events."""
    ch, hist = [], []
    held, phase, pending = {}, {}, {}
    wi = lambda w: int(w[1:])
    code = lambda it: 0 if it is DONE else it + 1
    seen_joined = False
    for e in run.events:
        k = e[0]
        if k == "spawn":
            ch.append((7, 0, 0))
        elif k == "join_enter":
            ch.append((7, 0, 0))
        elif k == "join_ret":
            ch.append((7, 0, 0))
        elif k == "intr":
            ch.append((8, 0, 0))
            hist.append((6, 0))
        elif k == "setstop":
            ch.append((7, 0, 0))
        elif k == "put" and e[1] == "main":
            ch.append((7, 0, 0))
        elif k == "joined":
            if not seen_joined:
                seen_joined = True
                ch.append((7, 0, 0))      # CPut workers -> CJoinW 0
            ch.append((7, 0, 0))
        elif k == "final":
            if e[1] in ("returned", "raised", "interrupted"):
                if not seen_joined:
                    ch.append((7, 0, 0))
                ch.append((7, 0, 0))      # CJoinW nsp -> CFinal
        elif k == "get":
            w = wi(e[1])
            ch.append((9, w, code(e[2])))
            held[w] = e[2]
            phase[w] = "got" if e[2] is not DONE else "tddone"
        elif k == "readstop":
            w = wi(e[1])
            ch.append((1, w, 0))
            phase[w] = "readstop"
            hist.append(["skip?", held[w]])
        elif k == "start":
            w = wi(e[1])
            if hist and hist[-1] == ["skip?", e[2]]:
                hist[-1] = (1, e[2])
            else:
                # find the pending marker of this node
                for i in range(len(hist) - 1, -1, -1):
                    if hist[i] == ["skip?", e[2]]:
                        hist[i] = (1, e[2])
                        break
                else:
                    hist.append((1, e[2]))
            phase[w] = "run"
        elif k == "end":
            w = wi(e[1])
            ch.append((2, w, 0))
            hist.append((2 if e[3] else 3, e[2]))
            phase[w] = "succ" if e[3] else "fail"
        elif k == "failblk":
            ch.append((3, wi(e[1]), 0))
        elif k == "dec":
            w = wi(e[1])
            ch.append((4, w, e[2]))
            pending[w] = e[2]
        elif k == "put":
            w = wi(e[1])
            if pending.get(w, None) == e[2] and e[2] is not DONE:
                pending[w] = None
            else:
                ch.append((4, w, e[2] if e[2] is not DONE else 0))
        elif k == "taskdone":
            if e[1] == "main":
                continue
            w = wi(e[1])
            if phase.get(w) == "succ":
                ch.append((5, w, 0))
            ch.append((6, w, 0))
            if held.get(w) is not DONE and w in held:
                hist.append((5, held[w]))
            phase[w] = "idle"
            pending[w] = None
    exp = []
    for h in hist:
        if isinstance(h, list):
            exp += [4, h[1]]
        else:
            exp += [h[0], h[1]]
    return ch, exp


def monitors(ctx, pid_keys, run, nodes, edges, workers, max_errors, failing, exc_objs, outcome, case):
    """Model-free statements of the properties on the implementation's own events. Returns list of (prop, key, what)."""
    out = []
    anc = ancestors(nodes, edges)
    started, ended_ok, failed, order = {}, set(), set(), []
    for e in run.events:
        if e[0] == "start":
            n = e[2]
            started[n] = started.get(n, 0) + 1
            missing = [m for m in anc[n] if m not in ended_ok]
            if missing:
                out.append(("C01", "start-before-deps", "call %r started before its dependencies %r finished successfully" % (n, sorted(missing))))
            bad = [m for m in anc[n] if m in failed]
            if bad:
                out.append(("C06", "downstream-of-failure", "call %r started although its dependency %r failed" % (n, sorted(bad))))
        elif e[0] == "end":
            (ended_ok if e[3] else failed).add(e[2])
            if not e[3]:
                order.append(e[2])
    for n, k in started.items():
        if k > 1:
            out.append(("C04", "started-twice", "call %r executed %d times" % (n, k)))
    if outcome[0] == "deadlock":
        out.append(("C07", "deadlock", "run never returns: %s" % outcome[1]))
    if run.leaked:
        out.append(("C07", "leaked-thread", "threads still alive after run returned: %r" % run.leaked))
    if outcome[0] in ("returned", "raised", "interrupted"):
        fin = next(i for i, e in enumerate(run.events) if e[0] == "final")
        late = [e for e in run.events[fin + 1:] if e[0] in ("start", "end")]
        if late:
            out.append(("C07", "late-call", "a call ran after run returned: %r" % (late[:2],)))
        if run.in_fn:
            out.append(("C07", "in-flight-at-return", "calls still executing when run returned: %r" % run.in_fn))
    if outcome[0] == "returned":
        if failed:
            out.append(("C06", "returned-despite-failure", "run returned although %r raised" % sorted(failed)))
        miss = [n for n in nodes if started.get(n, 0) != 1]
        if miss:
            out.append(("C04", "not-exactly-once", "successful run but calls %r were executed %r times" % (miss, [started.get(n, 0) for n in miss])))
    if outcome[0] == "raised":
        err = outcome[1]
        node = getattr(err, "node", None)
        if type(err).__name__ != "NodeError":
            out.append(("C06", "wrong-error-type", "run raised %r instead of NodeError" % (err,)))
        elif node not in failed:
            out.append(("C06", "error-names-non-failure", "raised error names %r which did not fail (failed: %r)" % (node, sorted(failed))))
        else:
            if err.__cause__ is not exc_objs.get(node):
                out.append(("C06", "wrong-cause", "__cause__ is not the exception object raised by %r" % (node,)))
            if workers == 1 and order and node != order[0]:
                out.append(("C06", "not-first-failure", "single worker: raised error names %r but %r failed first" % (node, order[0])))
    if failed and outcome[0] not in ("raised", "deadlock", "interrupted"):
        pass
    if run.maxinflight > workers:
        out.append(("C10", "too-many-in-flight", "%d calls in flight with max_workers=%d" % (run.maxinflight, workers)))
    if outcome[0] in ("returned", "raised"):
        if max_errors is not None and len(failed) > max_errors + workers:
            out.append(("C10", "too-many-failures", "%d failures with max_errors=%d, workers=%d" % (len(failed), max_errors, workers)))
        eligible = [n for n in nodes if n in failing and not (anc[n] & failing)]
        if workers == 1 and max_errors is not None:
            want = min(max_errors + 1, len(eligible))
            if len(failed) != want:
                out.append(("C10", "single-worker-failures", "single worker, max_errors=%d: %d calls failed, expected %d" % (max_errors, len(failed), want)))
        if max_errors is None:
            should = {n for n in nodes if not (anc[n] & failing)}
            if set(started) != should:
                out.append(("C10", "none-runs-all", "max_errors=None: executed %r, expected %r" % (sorted(started), sorted(should))))
    return out


class EngineCampaign:
    """Shared by c01/c04/c06/c07/c10: runs the campaign once per process and files results per property."""

    def __init__(self, ctx):
        self.ctx = ctx
        self.uj = core.use_repo()
        import uberjob._execution.run_function_on_graph as rfg
        self.rfg = rfg
        self.sites = detsched.Sites(rfg)
        self.model_cases = []
        self.found = []   # (prop, key, what, replay)
        self.usable = self.sites.usable      # False: the engine no longer has the statements the tracer keys on; instrumented runs are skipped

    def sentinel(self):
        ctx = self.ctx
        if self.sites.missing:
            ctx.broke("engine sentinel: statements not found in run_function_on_graph.py", self.sites.missing)
        sha = hashlib.sha1(self.sites.skeleton().encode()).hexdigest()
        ctx.notes["engine_skeleton_sha1"] = sha
        if SKELETON_SHA and sha != SKELETON_SHA:
            ctx.broke("engine sentinel: the synchronisation skeleton of run_function_on_graph.py differs from the one Engine.v was written against",
                      {"expected": SKELETON_SHA, "actual": sha})

    def one(self, nodes, edges, workers, max_errors, scheduler, failing, exc_kind, chooser, tag, interrupt_at=None, pause=True,
            opcodes=True, dedupe=None, degraded=False):
        core.alive()
        uj_graph = build_nx(self.uj, nodes, edges)
        exc_objs = {}
        failing = set(failing)

        def fn(node):
            if node in failing:
                e = {"Exception": Boom, "BaseException": BaseBoom, "KeyboardInterrupt": KeyboardInterrupt,
                     "SystemExit": SystemExit, "Falsy": FalsyBoom}[exc_kind]("fail %r" % (node,))
                exc_objs[node] = e
                raise e
        run = detsched.Run(self.rfg, self.sites, chooser, pause_in_fn=pause, opcodes=opcodes)
        outcome = run.execute(uj_graph, fn, workers, max_errors, scheduler, interrupt_at=interrupt_at)
        case = {"nodes": nodes, "edges": edges, "workers": workers, "max_errors": max_errors, "scheduler": scheduler,
                "failing": sorted(failing), "exc_kind": exc_kind, "schedule": tag, "decisions": run.sched.decisions[:4000],
                "interrupt_at": interrupt_at, "outcome": outcome[0]}
        if degraded:
            case["mode"] = "controlled schedule at bytecode granularity, model-free monitors only (the engine lacks the statements Engine.v's events are read from)"
            if run.untracked:
                # the engine started threads the scheduler does not control: what was observed is not a faithful execution
                self.ctx.count("degraded_run_discarded", "untracked threads")
                return run, outcome
        for prop, key, what in monitors(self.ctx, None, run, nodes, edges, workers, max_errors, failing, exc_objs, outcome, case):
            self.found.append((prop, key, what, dict(case, events=[repr(e) for e in run.events[:400]])))
        if dedupe is not None:
            # systematic exploration: many schedules give the same event trace; the model judges each distinct trace once
            key = tuple(repr(e) for e in run.events)
            if key in dedupe:
                return run, outcome
            dedupe.add(key)
        if outcome[0] != "deadlock" and not degraded:
            try:
                ch, exp = to_choices(run, nodes, edges, self.rfg.DONE)
            except Exception as e:      # e.g. calls executed on the coordinating thread: no model-level trace exists
                self.ctx.broke("the engine's events cannot be mapped to Engine.v's steps (%s: %s)" % (type(e).__name__, e),
                               {"case": {k: case[k] for k in ("nodes", "edges", "workers", "max_errors", "scheduler", "failing", "outcome")},
                                "events": [repr(x) for x in run.events[:60]]})
                return run, outcome
            rc = {"returned": 1, "raised": 2, "interrupted": 3}[outcome[0]]
            rn = getattr(outcome[1], "node", 0) if outcome[0] == "raised" else 0
            self.model_cases.append((case, ch, exp, rc, rn if isinstance(rn, int) else 0, run))
        return run, outcome

    def eval_model(self):
        """Evaluate all collected traces in Coq and compare."""
        ctx = self.ctx
        terms = []
        for case, ch, exp, rc, rn, run in self.model_cases:
            es = sorted({(u, v) for (u, v, _) in case["edges"]} | set()) if False else [(u, v) for (u, v, _) in case["edges"]]
            terms.append("exec_engine %s %s %d %s %s %s" % (
                core.coq_list(case["nodes"]), core.coq_list(es, lambda t: "(%d,%d)" % t), case["workers"],
                core.coq_option(case["max_errors"]), core.coq_list(case["failing"]),
                core.coq_list(ch, lambda t: "(%d,%d,%d)" % t)))
        if not terms:
            return
        outs = core.coq_eval(HEADER, terms, ty="list nat", shard=60, tag="engine")
        import re
        for (case, ch, exp, rc, rn, run), o in zip(self.model_cases, outs):
            v = [int(x) for x in re.findall(r"\d+", o)]
            ctx.compared("Engine.v accepts the trace of the real engine (controlled schedule)")
            i999 = v.index(999)
            i998 = v.index(998)
            hist = v[i999 + 1:i998]
            head = v[:i999]
            ok, bad_idx, mrc, mrn = head[0], head[1], head[2], head[3]
            detail = None
            if not ok:
                detail = {"why": "model rejects choice #%d %r" % (bad_idx, ch[bad_idx] if bad_idx < len(ch) else None)}
            elif mrc != rc or (rc == 2 and mrn != rn):
                detail = {"why": "outcome differs", "model": (mrc, mrn), "impl": (rc, rn)}
            elif hist != exp:
                detail = {"why": "history differs", "model": hist[:60], "impl": exp[:60]}
            if detail:
                detail["case"] = {k: case[k] for k in ("nodes", "edges", "workers", "max_errors", "scheduler", "failing", "schedule", "outcome")}
                detail["events"] = [repr(e) for e in run.events[:120]]
                ctx.broke("correspondence Engine.v vs run_function_on_graph (trace acceptance)", detail)


def campaign(ctx, props):
    """Runs graphs x configurations x schedules. `props`: which properties' failures are reported by this check."""
    camp = EngineCampaign(ctx)
    camp.sentinel()
    import translate_engine
    translate_engine.check(ctx)      # the engine's atomic blocks compiled from the source and linked to Engine.v's init / next by theorems
    if not camp.usable:
        ctx.notes["engine_campaign"] = ("degraded: run_function_on_graph.py lacks statements the tracer keys on (reported as a broken sentinel); controlled "
                                        "schedules are still explored and judged by the model-free monitors only")
        degraded_campaign(ctx, camp)
        file_findings(ctx, camp, props)
        return camp
    rng = ctx.rng
    targeted(ctx, camp)
    failing_sibling_stress(ctx, camp)
    systematic(ctx, camp)
    ngraphs = ctx.n(36, 400)
    nsched = ctx.n(5, 12)
    for gi in range(ngraphs):
        fam, nodes, edges = gen_graph(rng, maxn=ctx.n(8, 11))
        n = len(nodes)
        workers = rng.choice([1, 1, 2, 3, 5, n + 2])
        max_errors = rng.choice([0, 0, 1, 2, None])
        scheduler = rng.choice(["default", "random", "cheap", None])
        nf = rng.choice([0, 0, 1, 1, 2, 3])
        failing = rng.sample(nodes, min(nf, n))
        exc_kind = rng.choice(["Exception", "Exception", "BaseException", "KeyboardInterrupt", "SystemExit", "Falsy"])
        multi = sum(1 for v in nodes if len({u for (u, w, _) in edges if w == v}) >= 2)
        ctx.count("family", fam)
        ctx.count("nodes", n)
        ctx.count("workers", workers)
        ctx.count("max_errors", max_errors)
        ctx.count("scheduler", scheduler)
        ctx.count("failing", len(failing))
        ctx.count("multi_parent_nodes", multi)
        for si in range(nsched):
            kind = si % 3
            if kind == 0:
                chooser, tag = detsched.random_chooser(rng, rng.choice([0.02, 0.1, 0.4])), "random"
            elif kind == 1:
                chooser, tag = detsched.pct_chooser(rng, depth=rng.choice([1, 2, 4]), horizon=rng.choice([300, 1500, 5000])), "pct"
            else:
                chooser, tag = detsched.random_chooser(rng, 0.005), "mostly-sequential"
            run, outcome = camp.one(nodes, edges, workers, max_errors, scheduler, failing, exc_kind, chooser, tag)
            ctx.case((tuple(nodes), tuple(edges), workers, max_errors, scheduler, tuple(failing), tuple(run.sched.decisions[:200])),
                     nontrivial=n >= 2,
                     sample={"nodes": nodes, "edges": edges, "workers": workers, "max_errors": max_errors, "failing": failing,
                             "scheduler": scheduler, "outcome": outcome[0], "events": len(run.events),
                             "preemptions": run.sched.preemptions} if gi == 3 and si == 0 else None)
            ctx.count("outcome", outcome[0])
            ctx.count("preemptions>0", run.sched.preemptions > 0)
    camp.eval_model()
    file_findings(ctx, camp, props)
    return camp


def degraded_campaign(ctx, camp):
    """The engine was restructured: Engine.v's events cannot be read off it any more (a broken tie, already reported).  The baton
    scheduler still controls every thread the engine starts through its `threading` / `create_queue` names, so schedules are still
    explored at bytecode granularity; each run is executed under a time limit (an engine that blocks in primitives the scheduler
    does not replace simply times out and is skipped) and judged by the model-free monitors only: start before dependencies,
    downstream of a failure, executed twice / not at all, deadlock, leaked thread, wrong error."""
    rng = ctx.rng
    shapes = [
        ("fanin2", [0, 1, 2], [(0, 2, "pos"), (1, 2, "pos")]),
        ("fanin3", [0, 1, 2, 3], [(0, 3, "pos"), (1, 3, "pos"), (2, 3, "dep")]),
        ("fanin2-parallel", [0, 1, 2], [(0, 2, "pos"), (1, 2, "pos"), (1, 2, "dep")]),
        ("diamond", [0, 1, 2, 3], [(0, 1, "pos"), (0, 2, "pos"), (1, 3, "pos"), (2, 3, "kw")]),
        ("double-join", [0, 1, 2, 3, 4], [(0, 3, "pos"), (1, 3, "pos"), (3, 4, "pos"), (2, 4, "pos")]),
        ("chain", [0, 1, 2], [(0, 1, "pos"), (1, 2, "pos")]),
        ("independent3", [0, 1, 2], []),
    ]
    timeouts = 0
    jobs = []
    for name, nodes, edges in shapes:
        for workers in (2, 3, 1):
            for exc_kind, failing, max_errors in (("Exception", [], 0), ("Exception", [nodes[0]], 0), ("Exception", [nodes[1]], 1), ("BaseException", [nodes[0]], None),
                                                  ("SystemExit", [nodes[1]], 0), ("Exception", [nodes[0]], 2), ("Exception", [nodes[1]], None)):
                for si in range(ctx.n(14, 40) if workers > 1 and (failing or "fanin" in name or "join" in name or name == "diamond") else ctx.n(4, 12)):
                    jobs.append((name, nodes, edges, workers, max_errors, failing, exc_kind, si))
    for gi in range(ctx.n(20, 150)):
        fam, nodes, edges = gen_graph(rng, maxn=7)
        if len(nodes) >= 2:
            jobs.append((fam, nodes, edges, rng.choice([1, 2, 3]), rng.choice([0, 1, None]), rng.sample(nodes, rng.choice([0, 0, 1])), "Exception", gi))
    for name, nodes, edges, workers, max_errors, failing, exc_kind, si in jobs:
        if timeouts >= 3:
            ctx.count("degraded_campaign", "stopped after 3 timed-out runs")
            break
        chooser = detsched.random_chooser(rng, rng.choice([0.1, 0.3, 0.6])) if si % 2 == 0 else detsched.pct_chooser(rng, depth=3, horizon=600)
        try:
            run, outcome = core.call_watched(lambda: camp.one(nodes, edges, workers, max_errors, rng.choice(["cheap", "random", "default"]), failing, exc_kind,
                                                              chooser, "degraded:" + name, degraded=True), timeout=20)
        except core.Hang:
            timeouts += 1
            core.HANGS[0] -= 1          # not a finding: the scheduler cannot drive this engine
            detsched.force_restore(camp.rfg)
            ctx.count("degraded_campaign", "run timed out (skipped)")
            continue
        except Exception as e:          # noqa - the instrumentation itself failed on the restructured engine
            ctx.count("degraded_campaign", "instrumentation error %s" % type(e).__name__)
            timeouts += 1
            continue
        ctx.case(("degraded", name, workers, max_errors, tuple(failing), tuple(run.sched.decisions[:200])))
        ctx.count("degraded_outcome", outcome[0])


def targeted(ctx, camp):
    """Small fixed shapes that exercise the narrow windows: independent nodes with a worker-killing exception,
    fan-in with simultaneous predecessors, failure with dependents and max_errors >= 1."""
    if not camp.usable:
        return
    rng = ctx.rng
    shapes = [
        ("independent3", [0, 1, 2], []),
        ("fanin3", [0, 1, 2, 3], [(0, 3, "pos"), (1, 3, "pos"), (2, 3, "dep")]),
        ("fanin2-parallel", [0, 1, 2], [(0, 2, "pos"), (1, 2, "pos"), (1, 2, "dep")]),
        ("diamond", [0, 1, 2, 3], [(0, 1, "pos"), (0, 2, "pos"), (1, 3, "pos"), (2, 3, "kw")]),
        ("chain-fail-mid", [0, 1, 2, 3], [(0, 1, "pos"), (1, 2, "pos"), (2, 3, "pos"), (0, 3, "dep")]),
        # a join W of two predecessors feeding a second join Y whose other predecessor Z is independent:
        # a duplicated W would release Y while Z is still running
        ("double-join", [0, 1, 2, 3, 4], [(0, 3, "pos"), (1, 3, "pos"), (3, 4, "pos"), (2, 4, "pos")]),
    ]
    # a call that is in flight when the error limit is exceeded finishes successfully afterwards: none of its (failing)
    # dependents may start - the stop must be sticky, not a one-time purge of the queue
    for workers in (2, 3):
        for max_errors in (0, 1):
            for si in range(ctx.n(6, 40)):
                nodes = [0, 1, 2, 3, 4, 5, 6]
                edges = [(1, k, "pos") for k in (2, 3, 4, 5, 6)]
                failing = [0, 2, 3, 4, 5, 6] if max_errors == 0 else [0, 2, 3, 4, 5, 6]
                chooser = detsched.random_chooser(rng, rng.choice([0.2, 0.5])) if si % 2 else detsched.pct_chooser(rng, depth=3, horizon=400)
                run, outcome = camp.one(nodes + ([7] if max_errors else []), edges, workers, max_errors, rng.choice(["cheap", "random", "default"]),
                                        failing + ([7] if max_errors else []), "Exception", chooser, "targeted:late-success-failing-dependents")
                ctx.case(("targeted", "late-success", workers, max_errors, tuple(run.sched.decisions[:200])))
                ctx.count("targeted_shape", "late-success-failing-dependents")
    for name, nodes, edges in shapes:
        for workers in (1, 2, 3):
            for exc_kind, failing, max_errors in (("Exception", [], 0), ("BaseException", [nodes[0]], 0),
                                                  ("SystemExit", [nodes[0]], 1), ("KeyboardInterrupt", [nodes[1]], None),
                                                  ("Exception", [nodes[1]], 2), ("Exception", nodes[:2], 1),
                                                  ("Falsy", [nodes[0]], None), ("Exception", [nodes[0]], None)):
                for si in range(ctx.n(2, 6)):
                    chooser = detsched.random_chooser(rng, rng.choice([0.05, 0.3, 0.6])) if si % 2 == 0 else \
                        detsched.pct_chooser(rng, depth=3, horizon=600)
                    run, outcome = camp.one(nodes, edges, workers, max_errors, rng.choice(["cheap", "random", "default"]),
                                            failing, exc_kind, chooser, "targeted:" + name)
                    ctx.case(("targeted", name, workers, exc_kind, tuple(failing), max_errors, tuple(run.sched.decisions[:200])))
                    ctx.count("targeted_shape", name)
                    ctx.count("outcome", outcome[0])
    # join-heavy shapes, no failures, more threads than predecessors, many aggressive schedules: the windows around the
    # remaining-predecessor counter (decrement / zero test / put) are a few bytecodes wide
    for name, nodes, edges in shapes:
        if name not in ("fanin3", "double-join", "fanin2-parallel"):
            continue
        for si in range(ctx.n(60, 400)):
            chooser = detsched.random_chooser(rng, rng.choice([0.3, 0.5, 0.7])) if si % 3 else \
                detsched.pct_chooser(rng, depth=rng.choice([2, 4, 6]), horizon=rng.choice([200, 500]))
            # every third schedule: the independent predecessor of the second join fails and errors are tolerated - a join that is
            # released twice would start the node below it although one of its dependencies failed
            failing_, me_ = ([2], None) if (name == "double-join" and si % 3 == 1) else ([], 0)
            run, outcome = camp.one(nodes, edges, rng.choice([3, 4, 5]), me_, rng.choice(["cheap", "random", "default"]),
                                    failing_, "Exception", chooser, "join-stress:" + name)
            ctx.case(("join-stress", name, tuple(failing_), tuple(run.sched.decisions[:300])))
            ctx.count("targeted_shape", name + "/stress" + ("/failing-sibling" if failing_ else ""))


def systematic(ctx, camp, shapes=None, budget=None):
    """Deviation-bounded systematic exploration (in the spirit of CHESS): the default schedule runs every thread until it
    blocks; EVERY schedule that deviates from it at exactly one decision point (any yield point = any bytecode boundary of
    run_function_on_graph.py, any alternative thread) is executed, and a sample of the schedules with two deviations.
    Every run goes through the monitors; every distinct event trace is judged by Engine.v."""
    if not camp.usable:
        return
    rng = ctx.rng
    shapes = shapes or [
        ("fanin2", [0, 1, 2], [(0, 2, "pos"), (1, 2, "pos")], [], "Exception", 0),
        ("double-join", [0, 1, 2, 3, 4], [(0, 3, "pos"), (1, 3, "pos"), (3, 4, "pos"), (2, 4, "pos")], [], "Exception", 0),
        ("fail-with-sibling", [0, 1, 2], [(0, 2, "pos")], [0], "Exception", 0),
        ("two-failures", [0, 1, 2, 3], [(0, 2, "pos"), (1, 3, "pos")], [0, 1], "BaseException", 1),
    ]
    budget = budget or ctx.n(700, 30000)
    per_shape = max(50, budget // (len(shapes) * 2))
    for name, nodes, edges, failing, exc_kind, max_errors in shapes:
        for workers in (2, 3):
            opcodes = not ctx.quick or name == "fanin2"
            seen = set()
            rec0 = []
            run, outcome = camp.one(nodes, edges, workers, max_errors, "cheap", failing, exc_kind,
                                    detsched.deviation_chooser({}, rec0), "systematic:%s:default" % name, opcodes=opcodes, dedupe=seen)
            points = [(i, k) for i, (n_opt, d) in enumerate(rec0) for k in range(n_opt) if k != d]
            ctx.count("systematic_decision_points", len(rec0) // 100 * 100)
            exhaustive = len(points) <= per_shape
            chosen = points if exhaustive else sorted(rng.sample(points, per_shape))
            ctx.count("systematic_1dev_exhaustive", "%s/w%d: %s (%d of %d)" % (name, workers, exhaustive, len(chosen), len(points)))
            second = []
            for (i, k) in chosen:
                rec = []
                run, outcome = camp.one(nodes, edges, workers, max_errors, "cheap", failing, exc_kind,
                                        detsched.deviation_chooser({i: k}, rec), "systematic:%s:dev@%d->%d" % (name, i, k),
                                        opcodes=opcodes, dedupe=seen)
                ctx.case(("systematic", name, workers, i, k), nontrivial=True)
                ctx.count("outcome", outcome[0])
                later = [(j, m) for j, (n_opt, d) in enumerate(rec) if j > i for m in range(n_opt) if m != d]
                if later:
                    second.append(((i, k), rng.choice(later)))
            for (a, b) in rng.sample(second, min(len(second), per_shape // 4)):
                run, outcome = camp.one(nodes, edges, workers, max_errors, "cheap", failing, exc_kind,
                                        detsched.deviation_chooser({a[0]: a[1], b[0]: b[1]}, []),
                                        "systematic:%s:dev@%d->%d,%d->%d" % (name, a[0], a[1], b[0], b[1]), opcodes=opcodes, dedupe=seen)
                ctx.case(("systematic2", name, workers, a, b), nontrivial=True)
            ctx.count("systematic_distinct_traces", "%s/w%d: %d" % (name, workers, len(seen)))


def failing_sibling_stress(ctx, camp):
    """double-join with a failing independent predecessor of the second join, errors tolerated, many aggressive schedules"""
    if not camp.usable:
        return
    rng = ctx.rng
    nodes, edges = [0, 1, 2, 3, 4], [(0, 3, "pos"), (1, 3, "pos"), (3, 4, "pos"), (2, 4, "pos")]
    for si in range(ctx.n(120, 800)):
        chooser = detsched.random_chooser(rng, rng.choice([0.4, 0.6, 0.8])) if si % 3 else \
            detsched.pct_chooser(rng, depth=rng.choice([3, 5, 8]), horizon=rng.choice([150, 300]))
        run, outcome = camp.one(nodes, edges, rng.choice([3, 4]), None, rng.choice(["cheap", "random", "default"]),
                                [2], "Exception", chooser, "join-stress:double-join/failing-sibling", pause=(si % 2 == 0))
        ctx.case(("join-stress-failing", tuple(run.sched.decisions[:300])))
        ctx.count("targeted_shape", "double-join/stress/failing-sibling")


def file_findings(ctx, camp, props):
    for prop, key, what, replay in camp.found:
        if prop in props:
            ctx.fail(key, what, replay)
        else:
            ctx.notes.setdefault("other_property_failures_seen", [])
            if len(ctx.notes["other_property_failures_seen"]) < 10:
                ctx.notes["other_property_failures_seen"].append("%s:%s" % (prop, key))
