"""Reusable graph generators for the correspondence harnesses (topo, prune, engine).

A *spec* is a plain dict:
  n       number of nodes; node ids are 0..n-1
  order   node ids in INSERTION order (graph.nodes() order of the real object)
  kinds   {id: "lit" | "call"}
  edges   [(src, dst, key)] in INSERTION order; key = (0, i, 0) PositionalArg(i) | (1, name_id, idx) KeywordArg | (2, 0, 0) Dependency
  family  generator family, cyclic: None | "self" | "two" | "long"
Edge keys into a call are well-formed (positional indices 0..k-1 once each, keyword indices 0..m-1 once each with
distinct names), edges into a literal are Dependency edges, so acyclic specs can also be run by uberjob.run.

All randomness comes from the `rng` argument (the harness passes ctx.rng).
"""
import networkx as nx

FAMILIES = ["layered", "series_parallel", "star", "chain_skip", "random"]
POS, KW, DEP = 0, 1, 2


# ------------------------------------------------------------------------------------------------
# shapes: lists of (s, d) with s < d over nodes 0..n-1 (so they are DAGs)
# ------------------------------------------------------------------------------------------------
def shape_layered(rng, n):
    if n == 0:
        return []
    layers, rest = [], list(range(n))
    while rest:
        k = rng.randint(1, max(1, min(4, len(rest))))
        layers.append(rest[:k])
        rest = rest[k:]
    pairs = []
    for i in range(1, len(layers)):
        for d in layers[i]:
            srcs = [s for s in layers[i - 1] if rng.random() < 0.6]
            if rng.random() < 0.25 and i >= 2:
                srcs.append(rng.choice(layers[rng.randrange(i - 1)]))
            for s in srcs:
                pairs.append((s, d))
    return pairs


def shape_series_parallel(rng, n):
    """grow a two-terminal series-parallel graph by subdividing edges (series) or doubling them through a new
    middle node (parallel); node numbering is fixed up afterwards to be topological."""
    if n < 2:
        return []
    edges, nxt = [(0, 1)], 2
    while nxt < n:
        s, d = rng.choice(edges)
        if rng.random() < 0.5:
            edges.remove((s, d))
            edges += [(s, nxt), (nxt, d)]
        else:
            edges += [(s, nxt), (nxt, d)]
        nxt += 1
    g = nx.DiGraph(edges)
    g.add_nodes_from(range(n))
    rank = {v: i for i, v in enumerate(nx.lexicographical_topological_sort(g))}
    return sorted({(rank[s], rank[d]) for s, d in edges})


def shape_star(rng, n):
    """fan-in to a hub, fan-out from it (the hub may be turned into a literal-with-predecessors later)"""
    if n < 2:
        return []
    k = rng.randint(0, n - 1)          # number of sources
    hub = k
    pairs = [(s, hub) for s in range(k)] + [(hub, d) for d in range(k + 1, n)]
    if k >= 1 and n - k - 1 >= 1 and rng.random() < 0.4:
        pairs.append((rng.randrange(k), rng.randrange(k + 1, n)))
    return pairs


def shape_chain_skip(rng, n):
    pairs = [(i, i + 1) for i in range(n - 1)]
    for _ in range(rng.randint(0, max(0, n - 2))):
        if n >= 3:
            i = rng.randrange(0, n - 2)
            j = rng.randrange(i + 2, n)
            pairs.append((i, j))
    return sorted(set(pairs))


def shape_random(rng, n):
    p = rng.choice([0.0, 0.15, 0.3, 0.5])
    return [(s, d) for s in range(n) for d in range(s + 1, n) if rng.random() < p]


SHAPES = {"layered": shape_layered, "series_parallel": shape_series_parallel, "star": shape_star,
          "chain_skip": shape_chain_skip, "random": shape_random}


# ------------------------------------------------------------------------------------------------
# decoration: node kinds, insertion orders, parallel edges with different key kinds
# ------------------------------------------------------------------------------------------------
def random_dag(rng, max_nodes=12, family=None, n=None, lit_prob=0.25, parallel_prob=0.3, isolated_prob=0.15):
    family = family or rng.choice(FAMILIES)
    if n is None:
        n = rng.randint(0, max_nodes)
    pairs = SHAPES[family](rng, n)
    if rng.random() < isolated_prob and n >= 2:
        iso = rng.randrange(n)
        pairs = [(s, d) for s, d in pairs if iso not in (s, d)]
    # relabel so that insertion order is not a topological order
    perm = list(range(n))
    rng.shuffle(perm)
    pairs = [(perm[s], perm[d]) for s, d in pairs]
    order = list(range(n))
    rng.shuffle(order)
    kinds = {v: ("lit" if rng.random() < lit_prob else "call") for v in range(n)}
    preds = {v: [] for v in range(n)}
    for s, d in pairs:
        preds[d].append(s)
    edges = []
    for d in range(n):
        ps = preds[d]
        rng.shuffle(ps)
        if kinds[d] == "lit":
            # only add_dependency can point at a literal
            for s in ps:
                edges.append((s, d, (DEP, 0, 0)))
            continue
        slots = []     # (src, "arg" | "dep")
        for s in ps:
            r = rng.random()
            if r < parallel_prob:
                kindset = rng.choice([["arg", "arg"], ["arg", "dep"], ["arg", "arg", "dep"]])
            else:
                kindset = [rng.choice(["arg", "arg", "dep"])]
            for k in kindset:
                slots.append((s, k))
        rng.shuffle(slots)
        npos = nkw = 0
        for s, k in slots:
            if k == "dep":
                edges.append((s, d, (DEP, 0, 0)))
            elif rng.random() < 0.65:
                edges.append((s, d, (POS, npos, 0)))
                npos += 1
            else:
                edges.append((s, d, (KW, 100 + nkw, nkw)))
                nkw += 1
    rng.shuffle(edges)        # global insertion order of edges is arbitrary
    edges = _dedup(edges)
    return {"n": n, "order": order, "kinds": kinds, "edges": edges, "family": family, "cyclic": None}


def _dedup(edges):
    seen, out = set(), []
    for e in edges:
        if e not in seen:
            seen.add(e)
            out.append(e)
    return out


def add_cycle(rng, spec, kind=None):
    """Return a copy of spec with back edges (Dependency keys, the only way the public API can close a cycle)."""
    n = spec["n"]
    kind = kind or rng.choice(["self", "two", "long"])
    spec = dict(spec, edges=list(spec["edges"]))
    if n == 0:
        return spec
    if kind == "self" or n == 1:
        v = rng.randrange(n)
        new = [(v, v, (DEP, 0, 0))]
        kind = "self"
    elif kind == "two":
        a, b = rng.sample(range(n), 2)
        new = [(a, b, (DEP, 0, 0)), (b, a, (DEP, 0, 0))]
    else:
        k = rng.randint(2, min(n, 6))
        cyc = rng.sample(range(n), k)
        new = [(cyc[i], cyc[(i + 1) % k], (DEP, 0, 0)) for i in range(k)]
    for e in new:
        pos = rng.randint(0, len(spec["edges"]))
        spec["edges"].insert(pos, e)
    spec["edges"] = _dedup(spec["edges"])
    spec["cyclic"] = kind
    return spec


def gen_case(rng, max_nodes=12, family=None, cyclic_prob=0.0, as_plan=False, **kw):
    """One generated case: (spec, real object, integer edge list).  The real object is a networkx.MultiDiGraph over int
    nodes (default) or (uberjob.Plan, {id: node object}) when as_plan=True."""
    spec = random_dag(rng, max_nodes=max_nodes, family=family, **kw)
    if cyclic_prob and rng.random() < cyclic_prob:
        spec = add_cycle(rng, spec)
    real = to_plan(spec) if as_plan else to_multidigraph(spec)
    return spec, real, pairs_of(spec)


def pairs_of(spec):
    """integer edge list (parallel edges appear as duplicates), insertion order: the model's [edges g]"""
    return [(s, d) for s, d, _ in spec["edges"]]


def is_acyclic(spec):
    g = nx.DiGraph()
    g.add_nodes_from(range(spec["n"]))
    g.add_edges_from(pairs_of(spec))
    return nx.is_directed_acyclic_graph(g)


# ------------------------------------------------------------------------------------------------
# real objects
# ------------------------------------------------------------------------------------------------
def key_obj(key):
    from uberjob.graph import Dependency, KeywordArg, PositionalArg
    kc, a, b = key
    if kc == POS:
        return PositionalArg(a)
    if kc == KW:
        return KeywordArg("k%d" % a, b)
    return Dependency()


def key_tuple(obj, names=None):
    """uberjob edge key -> (kc, a, b); keyword names are interned through `names` (dict name -> small int)"""
    from uberjob.graph import Dependency, KeywordArg, PositionalArg
    t = type(obj)
    if t is PositionalArg:
        return (POS, obj.index, 0)
    if t is KeywordArg:
        if names is None:
            nm = int(obj.name[1:]) if obj.name[:1] == "k" and obj.name[1:].isdigit() else abs(hash(obj.name)) % 1000
        else:
            nm = names.setdefault(obj.name, len(names) + 1)
        return (KW, nm, obj.index)
    if t is Dependency:
        return (DEP, 0, 0)
    raise TypeError("unknown edge key %r" % (obj,))


def to_multidigraph(spec):
    """networkx.MultiDiGraph over int nodes with uberjob edge keys, built in the spec's insertion orders"""
    g = nx.MultiDiGraph()
    for v in spec["order"]:
        g.add_node(v)
    for s, d, k in spec["edges"]:
        g.add_edge(s, d, key_obj(k))
    return g


def make_fn(i):
    def fn(*args, **kwargs):
        return i
    fn.__name__ = "f%d" % i
    return fn


def to_plan(spec):
    """uberjob.Plan whose graph has real Literal/Call nodes; returns (plan, objs) with objs[id] the node object"""
    import uberjob
    from uberjob.graph import Call, Literal
    plan = uberjob.Plan()
    objs = {}
    for v in spec["order"]:
        objs[v] = Literal(v) if spec["kinds"][v] == "lit" else Call(make_fn(v))
        plan.graph.add_node(objs[v])
    for s, d, k in spec["edges"]:
        plan.graph.add_edge(objs[s], objs[d], key_obj(k))
    return plan, objs


def edges_in_adjacency_order(graph):
    """(u, v, key) triples of a MultiDiGraph in an order whose first occurrences reproduce BOTH adjacency orders
    (graph.succ[u] for every u and graph.pred[v] for every v) -- i.e. an order the graph could have been built in.
    Falls back to graph.edges order (successor order only) if the two are inconsistent."""
    pairs = [(u, v) for u in graph.nodes for v in graph.succ[u]]
    after = {p: [] for p in pairs}
    indeg = {p: 0 for p in pairs}
    for u in graph.nodes:
        row = [(u, v) for v in graph.succ[u]]
        for a, b in zip(row, row[1:]):
            after[a].append(b)
            indeg[b] += 1
    for v in graph.nodes:
        col = [(u, v) for u in graph.pred[v]]
        for a, b in zip(col, col[1:]):
            after[a].append(b)
            indeg[b] += 1
    ready = [p for p in pairs if indeg[p] == 0]
    out = []
    while ready:
        p = ready.pop(0)
        out.append(p)
        for q in after[p]:
            indeg[q] -= 1
            if indeg[q] == 0:
                ready.append(q)
    if len(out) != len(pairs):
        out = pairs
    return [(u, v, k) for u, v in out for k in graph.succ[u][v]]


def spec_of_graph(graph, is_literal=None, names=None):
    """Canonical spec of a real graph: nodes numbered by insertion order."""
    index = {node: i for i, node in enumerate(graph.nodes)}
    if is_literal is None:
        from uberjob.graph import Literal
        is_literal = lambda node: type(node) is Literal  # noqa
    names = {} if names is None else names
    edges = [(index[u], index[v], key_tuple(k, names)) for u, v, k in edges_in_adjacency_order(graph)]
    return {"n": len(index), "order": list(range(len(index))),
            "kinds": {i: ("lit" if is_literal(node) else "call") for node, i in index.items()},
            "edges": edges, "family": "real", "cyclic": None}, index


# ------------------------------------------------------------------------------------------------
# Coq literals
# ------------------------------------------------------------------------------------------------
def coq_nats(xs):
    return "[" + "; ".join(str(x) for x in xs) + "]"


def coq_pairs(ps):
    return "[" + "; ".join("(%d,%d)" % p for p in ps) + "]"


def coq_fedges(edges):
    return "[" + "; ".join("(%d,%d,%d,%d,%d)" % (s, d, k[0], k[1], k[2]) for s, d, k in edges) + "]"


def coq_plan_args(spec):
    lits = [v for v in spec["order"] if spec["kinds"][v] == "lit"]
    return "%s %s %s" % (coq_nats(spec["order"]), coq_nats(lits), coq_fedges(spec["edges"]))


def parse_nats(s):
    import re
    return [int(x) for x in re.findall(r"\d+", s)]


def parse_flat_plan(nums):
    """inverse of Exec_Prune.flat_plan: -> None (rejected) | (nodes, sorted edge list)"""
    if nums[0] == 0:
        return None
    k = nums[1]
    nodes = nums[2:2 + k]
    rest = nums[2 + k:]
    edges = [(rest[i], rest[i + 1], (rest[i + 2], rest[i + 3], rest[i + 4])) for i in range(0, len(rest), 5)]
    return nodes, sorted(edges)
