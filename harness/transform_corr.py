"""L2: the physical plan returned by run(dry_run=True) vs Cache/Transform.v (+Prune.v), exactly."""
import re

import core

HEADER = ("From Coq Require Import List Arith Bool.\nImport ListNotations.\n"
          "From UJ Require Import Base.Graph Cache.Transform Run.Exec_Transform.\n")


def canon_plan(w, phys, outnode):
    """Canonical (nodes in graph order, sorted keyed edges, output) of a real physical plan of world w."""
    from uberjob._transformations.caching import Barrier
    from uberjob.graph import Call, Dependency, KeywordArg, Literal, PositionalArg
    g = phys.graph
    index = {id(nd): i for i, nd in enumerate(w.nodes)}
    c0 = len(w.nodes)
    ids, c = {}, c0
    for node, rv in w.reg.mapping.items():
        i = index[id(node)]
        ids[rv.value_store.sid] = c
        c += 3 if i in w._stale_now else 2
    name = {}
    barriers = []
    for nd in g.nodes():
        if id(nd) in index:
            name[id(nd)] = index[id(nd)]
        elif type(nd) is Literal and hasattr(nd.value, "sid"):
            name[id(nd)] = ids[nd.value.sid]
        elif type(nd) is Literal and nd.value is Barrier:
            barriers.append(nd)
        elif type(nd) is Call:
            st = next(u.value for u, _, k in g.in_edges(nd, keys=True) if type(k) is PositionalArg and k.index == 0)
            name[id(nd)] = ids[st.sid] + (1 if nd.fn is type(st).read else 2)
        else:
            raise AssertionError("unexpected node %r" % (nd,))
    for b in barriers:
        rd = [v for _, v in g.out_edges(b) if id(v) in name and type(v) is Call and name[id(v)] >= c0]
        # the barrier of a source points at that source's read node
        r = [v for v in rd if (name[id(v)] - 1) in ids.values()]
        if not r:
            raise AssertionError("barrier without read successor")
        name[id(b)] = name[id(r[0])] + 1
    kid = w.__dict__.setdefault("_kwname_ids", {})       # keyword names -> ids, shared with model_input

    def key(k):
        if type(k) is PositionalArg:
            return (0, k.index, 0)
        if type(k) is KeywordArg:
            return (1, kid.setdefault(k.name, len(kid)), k.index)
        return (2, 0, 0)
    nodes = [name[id(nd)] for nd in g.nodes()]
    edges = sorted((name[id(u)], name[id(v)], *key(k)) for u, v, k in g.edges(keys=True))
    out = None if outnode is None else name[id(outnode)]
    return nodes, edges, out


def model_input(w):
    from uberjob.graph import Dependency, KeywordArg, Literal, PositionalArg
    g = w.plan.graph
    index = {id(nd): i for i, nd in enumerate(w.nodes)}
    ns = [(index[id(nd)], type(nd) is Literal) for nd in g.nodes()]
    es = []
    kid = w.__dict__.setdefault("_kwname_ids", {})
    for u, v, k in g.edges(keys=True):
        kk = (0, k.index, 0) if type(k) is PositionalArg else (1, kid.setdefault(k.name, len(kid)), k.index) if type(k) is KeywordArg else (2, 0, 0)
        es.append((index[id(u)], index[id(v)], kk))
    entries = [(index[id(node)], rv.is_source, index[id(node)] in w._stale_now) for node, rv in w.reg.mapping.items()]
    return ns, es, len(w.nodes), entries


def parse(out):
    v = [int(x) for x in re.findall(r"\d+", out)]
    i1 = v.index(999)
    i2 = v.index(999, i1 + 1)
    nodes = v[:i1]
    e = v[i1 + 1:i2]
    edges = sorted(tuple(e[i:i + 5]) for i in range(0, len(e), 5))
    o = v[i2 + 1:]
    return nodes, edges, (o[1] if o[0] else None)


class TransformCampaign:
    def __init__(self, ctx):
        self.ctx = ctx
        self.cases = []

    def observe(self, w, output, fresh, desc):
        """dry run on the current store state; remember the case for the model."""
        w._stale_now = set(w.real_stale(fresh))
        res = w.run(output, fresh, dry_run=True)
        log = [(k, i) for k, i, _ in w.log]
        if res[0] != "ok":
            return res, log
        phys, outnode = res[1]
        try:
            canon = canon_plan(w, phys, outnode)
        except (AssertionError, KeyError, StopIteration) as e:
            self.ctx.broke("canonicalisation of the physical plan failed", {"error": "%s: %s" % (type(e).__name__, e), "meta": w.meta})
            return res, log
        ns, es, c, entries = model_input(w)
        term = "exec_physical %s %s %d %s %s" % (
            core.coq_list(ns, lambda t: "(%d,%s)" % (t[0], "true" if t[1] else "false")),
            core.coq_list(es, lambda t: "(%d,%d,(%d,%d,%d))" % (t[0], t[1], *t[2])),
            c, core.coq_list(entries, lambda t: "(%d,%s,%s)" % (t[0], "true" if t[1] else "false", "true" if t[2] else "false")),
            "None" if output is None else "(Some %d)" % output)
        self.cases.append((term, canon, {"meta": w.meta, "entries": entries, "output": output, "fresh": fresh, "desc": desc,
                                         "sigma": w.sigma()}))
        return res, log

    def eval_model(self):
        if not self.cases:
            return
        outs = core.coq_eval(HEADER, [t for t, _, _ in self.cases], ty="list nat", shard=120, tag="transform")
        for (t, canon, rep), o in zip(self.cases, outs):
            self.ctx.compared("Cache/Transform.v + Prune.v vs the physical plan of run(dry_run=True) (exact nodes in order, keyed edges, output)")
            m = parse(o)
            if m != (canon[0], canon[1], canon[2]):
                self.ctx.broke("correspondence Cache/Transform.v vs plan_with_value_stores",
                               {"model": {"nodes": m[0], "edges": m[1], "out": m[2]},
                                "impl": {"nodes": canon[0], "edges": canon[1], "out": canon[2]}, "case": rep})
        self.cases = []
