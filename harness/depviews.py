"""Dependent sources that really depend: a registered source whose store is a VIEW over the stores of the calls it was
declared (plan.add_dependency) to depend on.  After an update of the primary source, the incremental run (several workers,
one of the rebuilt writes slow) must leave the same stored values and return the same output as a run from scratch -
which it does only if every write the view depends on happens before the view is read."""
import datetime as dt
import itertools
import time


def run(ctx, add):
    import core
    uj = core.use_repo()
    rng = ctx.rng
    clock = itertools.count(1)

    def now():
        return dt.datetime(2020, 1, 1) + dt.timedelta(seconds=next(clock))

    class Mem(uj.ValueStore):
        def __init__(self, v=None, slow=0.0):
            self.v, self.t, self.slow = v, (now() if v is not None else None), slow

        def read(self):
            return self.v

        def write(self, v):
            if self.slow:
                time.sleep(self.slow)
            self.v, self.t = v, now()

        def get_modified_time(self):
            return self.t

    class View(uj.ValueStore):
        def __init__(self, parts):
            self.parts = parts

        def read(self):
            return sum(p.v for p in self.parts)

        def write(self, v):
            raise AssertionError("a source is never written")

        def get_modified_time(self):
            ts = [p.t for p in self.parts]
            return None if any(t is None for t in ts) else max(ts)

    for ndeps in (2, 3):
        for nsucc in (1, 2):
            for slow_i in range(ndeps):
                for scheduler in (None, "random"):
                    def build(primary, parts, sink, slow):
                        plan, reg = uj.Plan(), uj.Registry()
                        s0 = reg.source(plan, primary)
                        deps = []
                        # the order in which the user registers things must not matter: the dependent source may be registered
                        # before or after the stored values it depends on
                        source_first = (ndeps + nsucc + slow_i) % 2 == 1
                        view = reg.source(plan, View(parts)) if source_first else None
                        for i, st in enumerate(parts):
                            n = plan.call(lambda x, i=i: x * (i + 2), s0)
                            if not source_first:
                                reg.add(n, st)
                            deps.append(n)
                        if source_first:
                            for n, st in zip(deps, parts):
                                reg.add(n, st)
                        else:
                            view = reg.source(plan, View(parts))
                        for n in deps:
                            plan.add_dependency(n, view)
                        outs = []
                        for j, st in enumerate(sink):
                            c = plan.call(lambda x, j=j: x + j, view)
                            reg.add(c, st)
                            outs.append(c)
                        return plan, reg, outs

                    primary = Mem(rng.randrange(1, 50))
                    parts = [Mem(slow=0.25 if i == slow_i else 0.0) for i in range(ndeps)]
                    sink = [Mem() for _ in range(nsucc)]
                    plan, reg, outs = build(primary, parts, sink, slow_i)
                    rep = {"dependencies": ndeps, "dependents": nsucc, "slow_write": slow_i, "scheduler": scheduler}
                    try:
                        uj.run(plan, registry=reg, output=outs, max_workers=4, scheduler=scheduler, progress=None)
                        v = rng.randrange(100, 200)
                        primary.v, primary.t = v, now()
                        got = uj.run(plan, registry=reg, output=outs, max_workers=4, scheduler=scheduler, progress=None)
                    except uj.CallError as e:
                        ctx.case(("depview", ndeps, nsucc, slow_i, scheduler))
                        add("C03", "dependent-source-view",
                            "a dependent source over %d stored values was read before all of them were written: the run raised %r"
                            % (ndeps, e.__cause__), rep)
                        continue
                    want_view = sum(v * (i + 2) for i in range(ndeps))
                    want = [want_view + j for j in range(nsucc)]
                    ctx.case(("depview", ndeps, nsucc, slow_i, scheduler))
                    ctx.count("depview_shape", "%dx%d" % (ndeps, nsucc))
                    stored = [s.v for s in sink]
                    if list(got) != want or stored != want:
                        add("C03", "dependent-source-view",
                            "a dependent source over %d rebuilt stored values was read before all of them were rewritten: "
                            "the incremental run returned %r and stored %r, a run from scratch gives %r" % (ndeps, list(got), stored, want),
                            {"dependencies": ndeps, "dependents": nsucc, "slow_write": slow_i, "scheduler": scheduler,
                             "primary_value": v, "returned": list(got), "stored": stored, "from_scratch": want})
