"""Real file-backed stores (PathSource / TextFileStore / JsonFileStore) with real modified times: updates that fall into
the same wall-clock second as earlier writes, repeated runs, deletions.  Monitors for C03/C05 (model-free)."""
import os
import shutil
import tempfile
import time

import core


def run_file_histories(ctx, found):
    uj = core.use_repo()
    from uberjob.stores import JsonFileStore, PathSource, TextFileStore
    rng = ctx.rng
    for variant in range(ctx.n(2, 8)):
        d = tempfile.mkdtemp(prefix="ujfiles_")
        try:
            P = lambda n: os.path.join(d, n)
            calls = []
            plan, reg = uj.Plan(), uj.Registry()
            with open(P("in.txt"), "w") as f:
                f.write("1")
            src_kind = rng.choice(["path", "text"])
            if src_kind == "path":
                path_node = reg.source(plan, PathSource(P("in.txt")))
                src = plan.call(lambda p: int(open(p).read()), path_node)
            else:
                src = plan.call(int, reg.source(plan, TextFileStore(P("in.txt"))))
            a = plan.call(lambda x: (calls.append("a"), x + 10)[1], src)
            b = plan.call(lambda x: (calls.append("b"), x * 2)[1], a)
            c = plan.call(lambda x, y: (calls.append("c"), x + y)[1], b, a)
            reg.add(a, JsonFileStore(P("a.json")))
            reg.add(c, JsonFileStore(P("c.json")))

            def expect(v):
                return (v + 10) * 2 + (v + 10)

            value = 1
            for step in range(ctx.n(6, 12)):
                script = ["run", "touch", "update", "repeat", "fresh", "delete"]
                op = script[step] if step < len(script) else rng.choice(["update", "update", "repeat", "delete", "touch", "fresh"])
                if op == "update":
                    value += rng.randrange(1, 50)
                    time.sleep(rng.choice([0.005, 0.02, 0.05]))      # later than, but usually in the same second as, the stores
                    with open(P("in.txt"), "w") as f:
                        f.write(str(value))
                elif op == "touch":
                    # the input is re-exported with the SAME content: newer modified time, identical bytes downstream
                    time.sleep(rng.choice([0.005, 0.02, 0.05]))
                    with open(P("in.txt"), "w") as f:
                        f.write(str(value))
                elif op == "delete":
                    victim = rng.choice(["a.json", "c.json"])
                    if os.path.exists(P(victim)):
                        os.remove(P(victim))
                del calls[:]
                before = {n: os.stat(P(n)).st_mtime_ns for n in ("a.json", "c.json") if os.path.exists(P(n))}
                fresh = None
                if op == "fresh":
                    import datetime as dt
                    time.sleep(0.02)
                    fresh = dt.datetime.now()      # naive local, as the documentation passes it: everything stored is older
                    time.sleep(0.02)
                out = uj.run(plan, registry=reg, output=c, progress=None, max_workers=rng.choice([1, 3]), fresh_time=fresh)
                rep = {"variant": variant, "step": step, "op": op, "source_kind": src_kind, "value": value, "calls": list(calls),
                       "listing": sorted(os.listdir(d))}
                ctx.case(("file-history", variant, step, op))
                ctx.count("file_history_op", op)
                stored_a = JsonFileStore(P("a.json")).read()
                stored_c = JsonFileStore(P("c.json")).read()
                if out != expect(value) or stored_a != value + 10 or stored_c != expect(value):
                    found.append(("C03", "files:differs-from-scratch",
                                  "file-backed stores after %r: output %r, a=%r, c=%r; from scratch: %r, a=%r" % (op, out, stored_a, stored_c, expect(value), value + 10), rep))
                if op == "repeat":
                    after = {n: os.stat(P(n)).st_mtime_ns for n in ("a.json", "c.json")}
                    if calls or after != before:
                        found.append(("C05", "files:repeat-not-idempotent", "repeated run on file stores executed %r / rewrote files" % (calls,), rep))
                if op in ("update", "touch", "fresh") and sorted(calls) != ["a", "b", "c"]:
                    found.append(("C05", "files:not-rebuilt-after-update", "after %s the run executed %r" % (
                        {"update": "a source update", "touch": "the source was rewritten with the same content", "fresh": "fresh_time = now"}[op], calls), rep))
                if op in ("touch", "fresh"):
                    # ... and the rebuilt values are now up to date: the same run repeated does nothing
                    del calls[:]
                    before = {n: os.stat(P(n)).st_mtime_ns for n in ("a.json", "c.json")}
                    uj.run(plan, registry=reg, progress=None, max_workers=1, fresh_time=fresh)
                    after = {n: os.stat(P(n)).st_mtime_ns for n in ("a.json", "c.json")}
                    if calls or after != before:
                        found.append(("C05", "files:repeat-not-idempotent", "after %s and a successful rebuild (identical contents), the repeated run executed %r / rewrote %r"
                                      % (op, list(calls), sorted(n for n in after if after[n] != before[n])), rep))
        finally:
            shutil.rmtree(d, ignore_errors=True)
