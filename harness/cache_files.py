"""Real file-backed stores (PathSource / TextFileStore / JsonFileStore) with real modified times: updates that fall into
the same wall-clock second as earlier writes, repeated runs, deletions.  Monitors for C03/C05 (model-free)."""
import os
import shutil
import tempfile
import time

import core


def run_file_histories(ctx, found):
    uj = core.use_repo()
    from uberjob.stores import JsonFileStore, PathSource, TextFileStore
    rng = ctx.rng
    for variant in range(ctx.n(2, 8)):
        d = tempfile.mkdtemp(prefix="ujfiles_")
        try:
            P = lambda n: os.path.join(d, n)
            calls = []
            plan, reg = uj.Plan(), uj.Registry()
            with open(P("in.txt"), "w") as f:
                f.write("1")
            src_kind = rng.choice(["path", "text"])
            if src_kind == "path":
                path_node = reg.source(plan, PathSource(P("in.txt")))
                src = plan.call(lambda p: int(open(p).read()), path_node)
            else:
                src = plan.call(int, reg.source(plan, TextFileStore(P("in.txt"))))
            a = plan.call(lambda x: (calls.append("a"), x + 10)[1], src)
            b = plan.call(lambda x: (calls.append("b"), x * 2)[1], a)
            c = plan.call(lambda x, y: (calls.append("c"), x + y)[1], b, a)
            reg.add(a, JsonFileStore(P("a.json")))
            reg.add(c, JsonFileStore(P("c.json")))

            def expect(v):
                return (v + 10) * 2 + (v + 10)

            value = 1
            for step in range(ctx.n(6, 12)):
                script = ["run", "touch", "update", "repeat", "fresh", "delete"]
                op = script[step] if step < len(script) else rng.choice(["update", "update", "repeat", "delete", "touch", "fresh"])
                if op == "update":
                    value += rng.randrange(1, 50)
                    time.sleep(rng.choice([0.005, 0.02, 0.05]))      # later than, but usually in the same second as, the stores
                    with open(P("in.txt"), "w") as f:
                        f.write(str(value))
                elif op == "touch":
                    # the input is re-exported with the SAME content: newer modified time, identical bytes downstream
                    time.sleep(rng.choice([0.005, 0.02, 0.05]))
                    with open(P("in.txt"), "w") as f:
                        f.write(str(value))
                elif op == "delete":
                    victim = rng.choice(["a.json", "c.json"])
                    if os.path.exists(P(victim)):
                        os.remove(P(victim))
                del calls[:]
                before = {n: os.stat(P(n)).st_mtime_ns for n in ("a.json", "c.json") if os.path.exists(P(n))}
                fresh = None
                if op == "fresh":
                    import datetime as dt
                    time.sleep(0.02)
                    fresh = dt.datetime.now()      # naive local, as the documentation passes it: everything stored is older
                    time.sleep(0.02)
                out = uj.run(plan, registry=reg, output=c, progress=None, max_workers=rng.choice([1, 3]), fresh_time=fresh)
                rep = {"variant": variant, "step": step, "op": op, "source_kind": src_kind, "value": value, "calls": list(calls),
                       "listing": sorted(os.listdir(d))}
                ctx.case(("file-history", variant, step, op))
                ctx.count("file_history_op", op)
                stored_a = JsonFileStore(P("a.json")).read()
                stored_c = JsonFileStore(P("c.json")).read()
                if out != expect(value) or stored_a != value + 10 or stored_c != expect(value):
                    found.append(("C03", "files:differs-from-scratch",
                                  "file-backed stores after %r: output %r, a=%r, c=%r; from scratch: %r, a=%r" % (op, out, stored_a, stored_c, expect(value), value + 10), rep))
                if op == "repeat":
                    after = {n: os.stat(P(n)).st_mtime_ns for n in ("a.json", "c.json")}
                    if calls or after != before:
                        found.append(("C05", "files:repeat-not-idempotent", "repeated run on file stores executed %r / rewrote files" % (calls,), rep))
                if op in ("update", "touch", "fresh") and sorted(calls) != ["a", "b", "c"]:
                    found.append(("C05", "files:not-rebuilt-after-update", "after %s the run executed %r" % (
                        {"update": "a source update", "touch": "the source was rewritten with the same content", "fresh": "fresh_time = now"}[op], calls), rep))
                if op in ("touch", "fresh"):
                    # ... and the rebuilt values are now up to date: the same run repeated does nothing
                    del calls[:]
                    before = {n: os.stat(P(n)).st_mtime_ns for n in ("a.json", "c.json")}
                    uj.run(plan, registry=reg, progress=None, max_workers=1, fresh_time=fresh)
                    after = {n: os.stat(P(n)).st_mtime_ns for n in ("a.json", "c.json")}
                    if calls or after != before:
                        found.append(("C05", "files:repeat-not-idempotent", "after %s and a successful rebuild (identical contents), the repeated run executed %r / rewrote %r"
                                      % (op, list(calls), sorted(n for n in after if after[n] != before[n])), rep))
        finally:
            shutil.rmtree(d, ignore_errors=True)


def directory_sources(ctx, report):
    """A PathSource on a DIRECTORY: its modified time is the directory's own, which the file system moves whenever an entry is added,
    removed or renamed.  Over histories of such operations (each followed by a run) the output and the stored value equal a run from
    scratch.  (Rewriting a file in place does not move the directory's time; that is outside what a directory source can see and is not
    part of these histories.)  Modified times are set explicitly (os.utime), strictly increasing, one second apart."""
    import itertools
    import os
    import shutil
    import tempfile
    uj = core.use_repo()
    import uberjob.stores as st
    rng = ctx.rng
    for trial in range(ctx.n(6, 40)):
        root = tempfile.mkdtemp(prefix="ujdirsrc_")
        try:
            d = os.path.join(root, "inputs")
            os.mkdir(d)
            tick = itertools.count(1_600_000_000 + trial * 1000)

            def stamp(p):
                t = next(tick)
                os.utime(p, (t, t))

            def put(name, text):
                with open(os.path.join(d, name), "w") as f:
                    f.write(text)
                stamp(os.path.join(d, name))
                stamp(d)
            put("a.txt", "a")
            put("b.txt", "b")
            pk = rng.choice(["str", "pathlib"])
            import pathlib
            src_path = pathlib.Path(d) if pk == "pathlib" else d

            def combine(path):
                return "+".join(open(os.path.join(path, n)).read() for n in sorted(os.listdir(path)))
            plan, reg = uj.Plan(), uj.Registry()
            s_ = reg.source(plan, st.PathSource(src_path))
            joined = plan.call(combine, s_)
            out_path = os.path.join(root, "joined.json")
            reg.add(joined, st.JsonFileStore(out_path))
            history = []
            for step in range(rng.randint(2, 5)):
                names = sorted(os.listdir(d))
                op = rng.choice(["remove", "add", "rename", "none"]) if names else "add"
                if op == "remove" and len(names) > 1:
                    os.remove(os.path.join(d, rng.choice(names)))
                    stamp(d)
                elif op == "add":
                    put("n%d.txt" % step, "n%d" % step)
                elif op == "rename" and names:
                    n = rng.choice(names)
                    os.rename(os.path.join(d, n), os.path.join(d, "z" + n))
                    stamp(d)
                else:
                    op = "none"
                history.append(op)
                want = combine(d)
                try:
                    got = uj.run(plan, registry=reg, output=joined, progress=None)
                except BaseException as e:      # noqa
                    got = "raised %s: %r" % (type(e).__name__, getattr(e, "__cause__", None))
                if os.path.exists(out_path):
                    stamp(out_path)          # the stored value is newer than the state it was computed from (explicit, increasing times)
                import json as _json
                stored = _json.load(open(out_path)) if os.path.exists(out_path) else None
                ctx.case(("directory-source", trial, step, op, pk))
                if got != want or stored != want:
                    report("directory-source", "a PathSource on a directory after %r (each followed by a run): the run returned %r, the store holds %r, from scratch: %r"
                           % (history, got, stored, want), {"history": history, "path_kind": pk})
                    break
        finally:
            shutil.rmtree(root, ignore_errors=True)


def rebuild_then_repeat(ctx, report):
    """Every bundled file store, real modified times: value exists -> its source is touched -> the run rebuilds it (the call runs, the store
    is written) -> the immediately repeated run does nothing.  A rewrite must leave the store newer than what it was built from."""
    import os
    import shutil
    import tempfile
    import time
    uj = core.use_repo()
    import uberjob.stores as st
    kinds = {"text": (st.TextFileStore, "v"), "json": (st.JsonFileStore, {"v": 1}), "pickle": (st.PickleFileStore, ("v", 1)), "binary": (st.BinaryFileStore, b"v"),
             "touch": (st.TouchFileStore, None)}
    for kind, (cls, value) in kinds.items():
        for pk in ("str", "pathlib"):
            root = tempfile.mkdtemp(prefix="ujrebuild_")
            try:
                import pathlib
                conv = (lambda p: pathlib.Path(p)) if pk == "pathlib" else (lambda p: p)
                src_p = os.path.join(root, "source.txt")
                with open(src_p, "w") as f:
                    f.write("1")
                old = time.time() - 100
                os.utime(src_p, (old, old))
                calls = []
                plan, reg = uj.Plan(), uj.Registry()
                s_ = reg.source(plan, st.PathSource(conv(src_p)))
                node = plan.call(lambda p: calls.append("build") or value, s_)
                store = cls(conv(os.path.join(root, "value.dat")))
                reg.add(node, store)
                log = []
                for step in ("first run", "touch source + run", "repeated run", "repeated run again"):
                    if step.startswith("touch"):
                        time.sleep(0.03)
                        os.utime(src_p, None)
                        time.sleep(0.03)
                    del calls[:]
                    before = store.get_modified_time()
                    try:
                        uj.run(plan, registry=reg, output=node, progress=None)
                        oc = "ok"
                    except BaseException as e:      # noqa
                        oc = "raised %s" % type(e).__name__
                    log.append((step, oc, list(calls), before != store.get_modified_time()))
                ctx.case(("rebuild-then-repeat", kind, pk))
                want = [("first run", "ok", ["build"], True), ("touch source + run", "ok", ["build"], True), ("repeated run", "ok", [], False), ("repeated run again", "ok", [], False)]
                if log != want:
                    report("rebuild-then-repeat", "%s store: (step, outcome, calls executed, modified time changed) = %r; expected %r" % (kind, log, want),
                           {"store": kind, "path_kind": pk})
            finally:
                shutil.rmtree(root, ignore_errors=True)


def restored_timestamps(ctx, report):
    """Files whose timestamps were set by a restore / a reproducible build rather than by the clock (the epoch itself, one second after
    it, a date in 1970, ...), "never"/"always" markers as fresh_time or as a source's date: a file dated at the epoch EXISTS, so values
    newer than it are up to date; the repeated run does nothing; fresh_time=datetime.max rebuilds everything, datetime.min nothing."""
    import datetime as dt
    import os
    import shutil
    import tempfile
    uj = core.use_repo()
    import uberjob.stores as st
    for stamps in ((0, 1, 2), (0.0, 86400, 2 ** 31 + 7), (1, 0.5, 3), (5, 7, 0), (3600, 7200, 10800)):
        for pk in ("str", "pathlib"):
            root = tempfile.mkdtemp(prefix="ujrestored_")
            try:
                import pathlib
                conv = (lambda p: pathlib.Path(p)) if pk == "pathlib" else (lambda p: p)
                P = lambda n: os.path.join(root, n)
                calls = []
                plan, reg = uj.Plan(), uj.Registry()
                src = reg.source(plan, st.PathSource(conv(P("in.txt"))))
                lit = reg.source(plan, st.LiteralSource(5, dt.datetime.min))
                a = plan.call(lambda p, k: calls.append("a") or int(open(p).read()) + k, src, lit)
                b = plan.call(lambda x: calls.append("b") or str(x * 2), a)
                reg.add(a, st.JsonFileStore(conv(P("a.json"))))
                reg.add(b, st.TextFileStore(conv(P("b.txt"))))
                for name, content, ts in (("in.txt", "1", stamps[0]), ("a.json", "6", stamps[1]), ("b.txt", "12", stamps[2])):
                    with open(P(name), "w") as f:
                        f.write(content)
                    os.utime(P(name), (ts, ts))
                in_order = stamps[0] < stamps[1] < stamps[2]
                rebuilt_first = [] if in_order else (["a", "b"] if stamps[0] > stamps[1] else ["b"])
                log = []
                for step, fresh in (("run", None), ("repeated run", None), ("run with fresh_time=datetime.min", dt.datetime.min), ("run with fresh_time=datetime.max", dt.datetime.max),
                                    ("repeated run", None)):
                    del calls[:]
                    before = {n: os.stat(P(n)).st_mtime_ns for n in ("a.json", "b.txt")}
                    try:
                        uj.run(plan, registry=reg, progress=None, max_workers=1, fresh_time=fresh)
                        oc = "ok"
                    except BaseException as e:      # noqa
                        oc = "raised %s: %s" % (type(e).__name__, e)
                    after = {n: os.stat(P(n)).st_mtime_ns for n in ("a.json", "b.txt")}
                    log.append((step, oc, sorted(calls), sorted(n for n in after if after[n] != before[n])))
                ctx.case(("restored-timestamps", stamps, pk))
                rw = [{"a": "a.json", "b": "b.txt"}[c] for c in rebuilt_first]
                want = [("run", "ok", rebuilt_first, rw), ("repeated run", "ok", [], []), ("run with fresh_time=datetime.min", "ok", [], []),
                        ("run with fresh_time=datetime.max", "ok", ["a", "b"], ["a.json", "b.txt"]), ("repeated run", "ok", [], [])]
                if log != want:
                    bad = next(i for i in range(len(want)) if log[i] != want[i])
                    report("restored-timestamps", "files in.txt / a.json / b.txt last modified %r seconds after the epoch (a <- in.txt + a literal dated datetime.min, b <- a): step %d, %s: "
                           "(outcome, calls executed, files rewritten) = %r; expected %r" % (stamps, bad + 1, want[bad][0], log[bad][1:], want[bad][1:]),
                           {"stamps": list(stamps), "path_kind": pk, "log": [list(x) for x in log]})
            finally:
                shutil.rmtree(root, ignore_errors=True)
