"""Translator tie for the symbolic traceback (C19): `get_stack_frame` (with its inner `recurse`) and the collecting loop of
`render_symbolic_traceback` in src/uberjob/_util/traceback.py are parsed with `ast` on every run and compiled to Gallina
(coq/gen/TracebackGen.v); coq/gen/TracebackLink.v (hand-written, committed) proves the generated functions equal to
Obs/Traceback.v's `get_stack_frame` and `render` for every stack / every StackFrame chain.  Fail-closed.

Trusted: this file; a Python frame chain (`frame.f_back`, falsy at the end) is the list of frames innermost first;
`inspect.currentframe()` is the first element; `StackFrame(name=co_name, path=co_filename, line=f_lineno, outer=X)` is
`SF frame X`; a StackFrame / TruncatedStackFrame object is truthy, None falsy; `"/IPython/core/" in path` is the model's
`is_ipython` predicate; the printed line formats are checked textually."""
import ast
import os
import subprocess

import core
from translate_stale import GEN, TranslationError, _expect, _fn, _src


def _body(f):
    return [s for s in f.body if not (isinstance(s, ast.Expr) and isinstance(s.value, ast.Constant))]


def zexpr(e, names):
    if isinstance(e, ast.Name) and e.id in names:
        return names[e.id]
    if isinstance(e, ast.Constant) and isinstance(e.value, int) and not isinstance(e.value, bool) and abs(e.value) < 1000:
        return "(%d)" % e.value
    if isinstance(e, ast.BinOp) and isinstance(e.op, (ast.Add, ast.Sub)):
        return "(%s %s %s)" % (zexpr(e.left, names), "+" if isinstance(e.op, ast.Add) else "-", zexpr(e.right, names))
    raise TranslationError("not an integer expression the translator knows: `%s`" % _src(e))


def zcmp(e, names):
    _expect(isinstance(e, ast.Compare) and len(e.ops) == 1, "comparison", e)
    a, b = zexpr(e.left, names), zexpr(e.comparators[0], names)
    t = {ast.Lt: "(%s <? %s)", ast.LtE: "(%s <=? %s)", ast.Eq: "(%s =? %s)", ast.Gt: "(%s >? %s)", ast.GtE: "(%s >=? %s)"}.get(type(e.ops[0]))
    _expect(t is not None, "comparison operator", e)
    return t % (a, b)


STACKFRAME = "StackFrame(name=frame.f_code.co_name, path=frame.f_code.co_filename, line=frame.f_lineno, outer=recurse(frame.f_back, %s))"


def gen_recurse(rec, max_depth):
    _expect([a.arg for a in rec.args.args] == ["frame", "depth"], "parameters of recurse", rec)
    names = {"depth": "depth", "MAX_TRACEBACK_DEPTH": "(%d)" % max_depth}

    def value(e, shape):
        if isinstance(e, ast.Constant) and e.value is None:
            return "SNil"
        if isinstance(e, ast.Name) and e.id == "TruncatedStackFrame":
            return "STrunc"
        if isinstance(e, ast.Call) and _src(e.func) == "StackFrame":
            _expect(shape == "cons", "a StackFrame is built from `frame` only after the `if not frame` guard", e)
            kw = {k.arg: k.value for k in e.keywords}
            _expect(not e.args and set(kw) == {"name", "path", "line", "outer"}, "StackFrame(...) keywords", e)
            o = kw["outer"]
            _expect(isinstance(o, ast.Call) and _src(o.func) == "recurse" and len(o.args) == 2 and not o.keywords and _src(o.args[0]) == "frame.f_back", "outer=recurse(frame.f_back, ...)", e)
            _expect(_src(e) == STACKFRAME % _src(o.args[1]), "StackFrame(name=co_name, path=co_filename, line=f_lineno, outer=...)", e)
            return "SF f (gen_recurse fu rest %s)" % zexpr(o.args[1], names)
        raise TranslationError("recurse returns something the translator does not know: `%s`" % _src(e))

    def seq(stmts, shape):
        _expect(stmts, "recurse falls off its end (returns None implicitly)")
        s, rest = stmts[0], stmts[1:]
        if isinstance(s, ast.Return):
            return value(s.value, shape)
        _expect(isinstance(s, ast.If) and not s.orelse and len(s.body) == 1 and isinstance(s.body[0], ast.Return), "guard `if ...: return ...`", s)
        t = s.test
        if _src(t) in ("not frame", "frame is None"):
            return value(s.body[0].value, shape) if shape == "nil" else seq(rest, "cons")
        if _src(t) in ("frame", "frame is not None"):
            return seq(rest, "nil") if shape == "nil" else value(s.body[0].value, shape)
        return "if %s then %s else %s" % (zcmp(t, names), value(s.body[0].value, "unknown" if shape == "nil" else shape), seq(rest, shape))
    b = _body(rec)
    # `frame` is known to be a real frame only after the guard has been passed: in the nil shape no StackFrame may be built
    return ("Fixpoint gen_recurse (fuel : nat) (stack : list frame) (depth : Z) : sframe :=\n  match fuel with\n  | O => SNil\n  | S fu =>\n"
            "      match stack with\n      | [] => %s\n      | f :: rest => %s\n      end\n  end." % (seq(b, "nil"), seq(b, "cons")))


def gen_get_stack_frame(tree):
    f = _fn(tree, "get_stack_frame")
    _expect([a.arg for a in f.args.args] == ["initial_depth"] and [_src(d) for d in f.args.defaults] == ["2"], "get_stack_frame(initial_depth=2)", f)
    mx = [s for s in tree.body if isinstance(s, ast.Assign) and _src(s.targets[0]) == "MAX_TRACEBACK_DEPTH"]
    _expect(len(mx) == 1 and isinstance(mx[0].value, ast.Constant) and isinstance(mx[0].value.value, int) and 0 <= mx[0].value.value < 50, "MAX_TRACEBACK_DEPTH = <small int>")
    max_depth = mx[0].value.value
    b = _body(f)
    _expect(len(b) == 4 and isinstance(b[0], ast.FunctionDef) and b[0].name == "recurse", "get_stack_frame: def recurse; currentframe; for; return", f)
    _expect(_src(b[1]) == "initial_frame = inspect.currentframe()", "initial_frame = inspect.currentframe()", b[1])
    _expect(isinstance(b[2], ast.For) and _src(b[2].iter) == "range(initial_depth)" and not b[2].orelse and len(b[2].body) == 1
            and _src(b[2].body[0]) == "initial_frame = initial_frame.f_back", "for _ in range(initial_depth): initial_frame = initial_frame.f_back", b[2])
    r = b[3]
    _expect(isinstance(r, ast.Return) and isinstance(r.value, ast.Call) and _src(r.value.func) == "recurse" and len(r.value.args) == 2 and not r.value.keywords
            and _src(r.value.args[0]) == "initial_frame", "return recurse(initial_frame, ...)", r)
    d0 = zexpr(r.value.args[1], {"MAX_TRACEBACK_DEPTH": "(%d)" % max_depth})
    return [gen_recurse(b[0], max_depth),
            "(* f_back on None raises AttributeError: strictly fewer than initial_depth frames *)\n"
            "Definition gen_get_stack_frame (initial_depth : nat) (stack : list frame) : option sframe :=\n"
            "  if (length stack <? initial_depth)%%nat then None\n  else Some (gen_recurse (S (length stack)) (skipn initial_depth stack) %s)." % d0]


def gen_render(tree):
    f = _fn(tree, "render_symbolic_traceback")
    _expect([a.arg for a in f.args.args] == ["stack_frame"], "render_symbolic_traceback(stack_frame)", f)
    b = _body(f)
    _expect(len(b) == 4 and _src(b[0]) == "stack_frames = []" and isinstance(b[1], ast.While) and not b[1].orelse and _src(b[1].test) == "stack_frame"
            and isinstance(b[2], ast.FunctionDef) and b[2].name == "format_stack_frame", "render_symbolic_traceback: list; while stack_frame; def format_stack_frame; return", f)
    fmt = _body(b[2])
    _expect(len(fmt) == 2 and _src(fmt[0]) == "if s is TruncatedStackFrame:\n    return '  ... truncated'"
            and _src(fmt[1]) == """return f'  File "{s.path}", line {s.line}, in {s.name}'""", "format_stack_frame", b[2])
    _expect(_src(b[3]) == "return '\\n'.join(['Symbolic traceback (most recent call last):', *(format_stack_frame(stack_frame) for stack_frame in reversed(stack_frames))])",
            "the lines are printed most recent call last (reversed)", b[3])

    def test(e, shape):
        """partial evaluation of a loop-body condition for the shape of stack_frame: True / False / Gallina bool"""
        if isinstance(e, ast.UnaryOp) and isinstance(e.op, ast.Not):
            v = test(e.operand, shape)
            return (not v) if isinstance(v, bool) else "(negb %s)" % v
        if _src(e) == "stack_frame is TruncatedStackFrame":
            return shape == "trunc"
        if _src(e) == "stack_frame is not TruncatedStackFrame":
            return shape != "trunc"
        if _src(e) == "'/IPython/core/' in stack_frame.path":
            _expect(shape == "frame", "`.path` is read only when stack_frame cannot be TruncatedStackFrame", e)
            return "(is_ipython f)"
        raise TranslationError("loop condition the translator does not know: `%s`" % _src(e))

    def seq(stmts, shape):
        if not stmts:
            raise TranslationError("the loop body ends without advancing stack_frame (would not terminate)")
        s, rest = stmts[0], stmts[1:]
        src = _src(s)
        if isinstance(s, ast.Break):
            return "[]"
        if src == "stack_frames.append(stack_frame)":
            return "%s :: %s" % ("RTrunc" if shape == "trunc" else "RFrame f", seq(rest, shape))
        if src == "stack_frame = stack_frame.outer":
            _expect(shape == "frame" and not rest, "`stack_frame = stack_frame.outer` is the last statement and never runs on TruncatedStackFrame", s)
            return "gen_collect o"
        if isinstance(s, ast.If) and not s.orelse:
            t = test(s.test, shape)
            _expect(isinstance(s.body[-1], ast.Break), "a conditional in the loop ends with break", s)
            if t is True:
                return "(%s)" % seq(list(s.body), shape)
            if t is False:
                return seq(rest, shape)
            return "(if %s then %s else %s)" % (t, seq(list(s.body), shape), seq(rest, shape))
        raise TranslationError("loop statement the translator does not know: `%s`" % src.split("\n")[0])
    body = list(b[1].body)
    return ["Section Render.\n  Variable is_ipython : frame -> bool.\n\n  Fixpoint gen_collect (s : sframe) : list rline :=\n    match s with\n    | SNil => []\n"
            "    | STrunc => %s\n    | SF f o => %s\n    end.\n\n  Definition gen_render (s : sframe) : list rline := rev (gen_collect s).\nEnd Render."
            % (seq(body, "trunc"), seq(body, "frame"))]


def translate(path):
    tree = ast.parse(open(path).read())
    defs = gen_get_stack_frame(tree) + gen_render(tree)
    return ("(* GENERATED by harness/translate_traceback.py from %s - do not edit *)\n"
            "From Coq Require Import List Arith ZArith Bool.\nImport ListNotations.\nFrom UJ Require Import Obs.Traceback.\nLocal Open Scope Z_scope.\n\n%s\n"
            % (os.path.relpath(path, core.REPO), "\n\n".join(defs)))


def check(ctx):
    src = os.path.join(core.REPO_SRC, "uberjob", "_util", "traceback.py")
    ctx.notes["translator_traceback"] = "harness/translate_traceback.py: traceback.py get_stack_frame / render_symbolic_traceback -> coq/gen/TracebackGen.v, link theorems coq/gen/TracebackLink.v"
    try:
        text = translate(src)
    except (TranslationError, SyntaxError, OSError) as e:
        ctx.broke("translator: get_stack_frame / render_symbolic_traceback in traceback.py no longer have a shape the translator reads (fail-closed)", str(e))
        return
    scratch = True           # always compile in a directory private to this process (core.gen_dir): parallel checks must not share one
    gen_dir = core.gen_dir()
    if scratch:
        import shutil
        shutil.copy(os.path.join(GEN, "TracebackLink.v"), gen_dir)
    with open(os.path.join(gen_dir, "TracebackGen.v"), "w") as f:
        f.write(text)
    ctx.compared("translator: traceback.py get_stack_frame/render_symbolic_traceback -> Gallina, linked to Obs/Traceback.v by theorems")
    flags = ["-Q", os.path.join(core.COQ, "theories"), core.LOGICAL, "-Q", gen_dir, "UJGen", "-w", "none"]
    for f in ("TracebackGen.v", "TracebackLink.v"):
        p = subprocess.run(["timeout", "300", "coqc"] + flags + [os.path.join(gen_dir, f)], cwd=core.COQ, stdout=subprocess.PIPE, stderr=subprocess.STDOUT, text=True)
        if p.returncode != 0:
            break
    ok = p.returncode == 0 and (p.stdout or "").count("Closed under the global context") == 4
    ctx.notes["translator_traceback_link_theorems"] = "UJGen.TracebackLink.{generated_get_stack_frame_is_model, generated_render_is_model, C19_depth_on_source, C19_render_outermost_first_on_source}: %s" % ("proved, closed" if ok else "NOT proved")
    if not ok:
        # the depth sweep of the C19 campaign (user stacks of every small depth, all entry points) exhibits the concrete call site
        ctx.broke("translator link theorems UJGen.TracebackLink no longer check: get_stack_frame / render_symbolic_traceback differ from Obs/Traceback.v",
                  (p.stdout or "")[-1500:])
