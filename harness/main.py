import argparse
import importlib
import os
import sys
import traceback

sys.path.insert(0, os.path.dirname(os.path.abspath(__file__)))
import core  # noqa


def main():
    ap = argparse.ArgumentParser()
    ap.add_argument("pid")
    ap.add_argument("--tier", default=os.environ.get("VERIF_TIER", "quick"), choices=["quick", "thorough"])
    ap.add_argument("--replay", default=None)
    ap.add_argument("--no-build", action="store_true")
    a = ap.parse_args()
    # A check started as a background job of a non-interactive shell (`cmd &`, nohup, some CI runners) inherits SIGINT = SIG_IGN, and
    # Python then installs no handler of its own: Ctrl-C scenarios would measure nothing and "the handler after a run" would be compared
    # with the wrong baseline.  Every check starts from the disposition an interactive Python process has.
    import signal
    if signal.getsignal(signal.SIGINT) in (signal.SIG_IGN, signal.SIG_DFL, None):
        signal.signal(signal.SIGINT, signal.default_int_handler)
    seed = int(os.environ.get("VERIF_SEED", "0") or 0)
    if a.replay:
        # a replay file records the seed and tier of the run that produced it: the check is deterministic given those
        import json
        rp = json.load(open(a.replay))
        seed, a.tier = int(rp.get("seed", seed)), rp.get("tier", a.tier)
        print("replaying %s: seed=%d tier=%s key=%s" % (a.replay, seed, a.tier, rp.get("key", rp.get("kind"))))
    ctx = core.Ctx(a.pid, a.tier, seed)
    ctx.replay = a.replay
    os.makedirs(os.path.join(core.ROOT, "build"), exist_ok=True)
    if a.no_build:
        build_ok, build_log = True, ""
    else:
        build_ok, build_log = core.build_coq()
    gate_hits = core.gate()
    pinfo = core.props_info(a.pid)
    mod = importlib.import_module(a.pid.lower())
    # global watchdog: a check that does not finish (e.g. uberjob.run hangs under a broken engine) is reported, not left hanging
    import threading

    def watchdog():
        ctx.broke("check did not finish within its time budget (possible hang of uberjob.run)", {"budget_s": budget})
        rc = core.finish(ctx, pinfo, gate_hits, build_ok, build_log,
                         trusted_base=getattr(mod, "TRUSTED_BASE", []) + core_tb(), rule=getattr(mod, "RULE", ""))
        sys.stdout.flush()
        os._exit(rc or 1)
    budget = int(os.environ.get("VERIF_BUDGET", 0)) or (1200 if a.tier == "quick" else 4 * 3600)
    wd = threading.Timer(budget, watchdog)
    wd.daemon = True
    wd.start()

    # stall detector: the main thread sits inside library code (a frame of $REPO/src/uberjob on its stack, harness not waiting for coqc or
    # a helper) and the check has shown no sign of life for `stall` seconds: the library call does not return.  That is a concrete
    # failure of the run in progress (replayable: the check is deterministic given seed and tier), reported at once instead of after
    # the whole budget.
    stall = int(os.environ.get("VERIF_STALL", 0)) or (150 if a.tier == "quick" else 400)
    main_ident = threading.main_thread().ident
    hdir = os.path.dirname(os.path.abspath(__file__))

    def stall_watch():
        import time
        while True:
            time.sleep(5)
            if time.time() - core.T_LAST[0] < stall:
                continue
            fr = sys._current_frames().get(main_ident)
            frames = []
            while fr is not None:
                frames.append((fr.f_code.co_filename, fr.f_code.co_name, fr.f_lineno))
                fr = fr.f_back
            if not any(f[0].startswith(core.REPO_SRC) for f in frames):
                continue
            if any(f[0].endswith(("detsched.py", "plansched.py")) for f in frames):
                # the run is being driven by the baton scheduler: it may be the instrumentation, not the library, that does not progress
                ctx.broke("an instrumented (controlled-schedule) run made no progress for %d s: the engine blocks in something the scheduler does not replace, "
                          "or hangs" % stall, {"stack_innermost_first": ["%s:%d %s" % (os.path.relpath(f[0], "/"), f[2], f[1]) for f in frames[:25]], "last_case": repr(ctx.last_case)})
                rc = core.finish(ctx, pinfo, gate_hits, build_ok, build_log,
                                 trusted_base=getattr(mod, "TRUSTED_BASE", []) + core_tb(), rule=getattr(mod, "RULE", ""))
                sys.stdout.flush()
                os._exit(rc or 1)
            where = next((f for f in frames if f[0].startswith(hdir) and not f[0].endswith(("main.py", "core.py"))), ("?", "?", 0))
            lib = next(f for f in frames if f[0].startswith(core.REPO_SRC))
            ctx.fail("hang:%s" % where[1], "a call into uberjob made by harness/%s:%s (line %d) has not returned for %d s: the main thread is in %s:%d (%s); "
                     "last case recorded: %r" % (os.path.basename(where[0]), where[1], where[2], stall, os.path.relpath(lib[0], core.REPO_SRC), lib[2], lib[1], ctx.last_case),
                     {"stack_innermost_first": ["%s:%d %s" % (os.path.relpath(f[0], "/"), f[2], f[1]) for f in frames[:25]], "last_case": repr(ctx.last_case),
                      "replay_with": "VERIF_SEED=%d ./check %s --tier %s" % (seed, a.pid, a.tier)})
            rc = core.finish(ctx, pinfo, gate_hits, build_ok, build_log,
                             trusted_base=getattr(mod, "TRUSTED_BASE", []) + core_tb(), rule=getattr(mod, "RULE", ""))
            sys.stdout.flush()
            os._exit(rc or 1)
    sw = threading.Thread(target=stall_watch, daemon=True, name="stall-detector")
    sw.start()
    try:
        mod.run(ctx)
    except Exception:
        ctx.broke("harness error in %s" % a.pid, traceback.format_exc()[-3000:])
        traceback.print_exc()
    wd.cancel()
    rc = core.finish(ctx, pinfo, gate_hits, build_ok, build_log,
                     trusted_base=getattr(mod, "TRUSTED_BASE", []) + core_tb(), rule=getattr(mod, "RULE", ""))
    sys.stdout.flush()
    os._exit(rc)      # daemon threads of a hung run must not keep the process alive


def core_tb():
    return [
        "Coq 8.16.1 kernel (coqc, full .vo build; vm_compute used for Examples/_refuted witnesses and generated cases; no native_compute)",
        "no axioms declared by the development; Print Assumptions output recorded per theorem in coverage.print_assumptions",
        "hand-written Gallina model tied to /repo by the correspondence harness (harness/*.py, generators, canonicalisation) on every run",
        "CPython 3.12 /venv interpreter semantics for everything the model abstracts (see DESIGN.md section 3)",
    ]


if __name__ == "__main__":
    main()
