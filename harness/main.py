import argparse
import importlib
import os
import sys
import traceback

sys.path.insert(0, os.path.dirname(os.path.abspath(__file__)))
import core  # noqa


def main():
    ap = argparse.ArgumentParser()
    ap.add_argument("pid")
    ap.add_argument("--tier", default=os.environ.get("VERIF_TIER", "quick"), choices=["quick", "thorough"])
    ap.add_argument("--replay", default=None)
    ap.add_argument("--no-build", action="store_true")
    a = ap.parse_args()
    seed = int(os.environ.get("VERIF_SEED", "0") or 0)
    if a.replay:
        # a replay file records the seed and tier of the run that produced it: the check is deterministic given those
        import json
        rp = json.load(open(a.replay))
        seed, a.tier = int(rp.get("seed", seed)), rp.get("tier", a.tier)
        print("replaying %s: seed=%d tier=%s key=%s" % (a.replay, seed, a.tier, rp.get("key", rp.get("kind"))))
    ctx = core.Ctx(a.pid, a.tier, seed)
    ctx.replay = a.replay
    os.makedirs(os.path.join(core.ROOT, "build"), exist_ok=True)
    if a.no_build:
        build_ok, build_log = True, ""
    else:
        build_ok, build_log = core.build_coq()
    gate_hits = core.gate()
    pinfo = core.props_info(a.pid)
    mod = importlib.import_module(a.pid.lower())
    # global watchdog: a check that does not finish (e.g. uberjob.run hangs under a broken engine) is reported, not left hanging
    import threading

    def watchdog():
        ctx.broke("check did not finish within its time budget (possible hang of uberjob.run)", {"budget_s": budget})
        rc = core.finish(ctx, pinfo, gate_hits, build_ok, build_log,
                         trusted_base=getattr(mod, "TRUSTED_BASE", []) + core_tb(), rule=getattr(mod, "RULE", ""))
        sys.stdout.flush()
        os._exit(rc or 1)
    budget = 1200 if a.tier == "quick" else 4 * 3600
    wd = threading.Timer(budget, watchdog)
    wd.daemon = True
    wd.start()
    try:
        mod.run(ctx)
    except Exception:
        ctx.broke("harness error in %s" % a.pid, traceback.format_exc()[-3000:])
        traceback.print_exc()
    wd.cancel()
    rc = core.finish(ctx, pinfo, gate_hits, build_ok, build_log,
                     trusted_base=getattr(mod, "TRUSTED_BASE", []) + core_tb(), rule=getattr(mod, "RULE", ""))
    sys.stdout.flush()
    os._exit(rc)      # daemon threads of a hung run must not keep the process alive


def core_tb():
    return [
        "Coq 8.16.1 kernel (coqc, full .vo build; vm_compute used for Examples/_refuted witnesses and generated cases; no native_compute)",
        "no axioms declared by the development; Print Assumptions output recorded per theorem in coverage.print_assumptions",
        "hand-written Gallina model tied to /repo by the correspondence harness (harness/*.py, generators, canonicalisation) on every run",
        "CPython 3.12 /venv interpreter semantics for everything the model abstracts (see DESIGN.md section 3)",
    ]


if __name__ == "__main__":
    main()
