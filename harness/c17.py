"""C17: Ctrl-C during a run stops new work, waits for in-flight calls and cleans up."""
import threading
import time

import core
import detsched
import engine_corr

RULE = ("(a) controlled schedules: KeyboardInterrupt raised in the coordinator's queue.join() after the k-th call start, for every k, "
        "random DAGs / workers / schedulers; trace accepted by Engine.v (KIntr) + monitors (no start after stop was set, every started "
        "call ends, all threads exit, KeyboardInterrupt propagates); (b) real threads + _thread.interrupt_main() from inside the k-th "
        "call through uberjob.run with a recording observer; (c) the spawn window (finding F6) reproduced under the controlled scheduler")
TRUSTED_BASE = ["harness/detsched.py (the interrupt is injected where queue.join() waits)", "_thread.interrupt_main for the real-signal runs"]


def run(ctx):
    camp = engine_corr.EngineCampaign(ctx)
    camp.sentinel()
    import translate_engine
    translate_engine.check(ctx)      # the engine's atomic blocks (incl. the coordinator's finally) compiled from the source and linked to Engine.v
    rng = ctx.rng
    ngraphs = ctx.n(25, 250)
    ntargeted = ctx.n(10, 60)
    if not camp.usable:          # instrumented runs are meaningless on an engine without the traced statements: real-signal scenarios only
        ngraphs = ntargeted = 0
    for gi in range(ngraphs + ntargeted):
        fam, nodes, edges = engine_corr.gen_graph(rng, maxn=8)
        n = len(nodes)
        if n == 0:
            continue
        workers = rng.choice([1, 2, 3, n + 1])
        scheduler = rng.choice(["default", "random", "cheap"])
        targeted = gi >= ngraphs
        if targeted:
            # many independent calls that all fail, errors tolerated: a failure AFTER the interrupt must not un-stop the run
            nodes, edges, n = list(range(8)), [], 8
            workers, scheduler = rng.choice([1, 2]), rng.choice(["random", "cheap", "default"])
        ks = range(0, n + 1) if n <= 4 or not ctx.quick else sorted(rng.sample(range(0, n + 1), 4))
        for k in ks:
            chooser = detsched.random_chooser(rng, rng.choice([0.02, 0.2]))
            failing = rng.sample(nodes, min(len(nodes), rng.choice([0, 0, 1, 2])))
            if targeted:
                failing = list(nodes)
            run_, outcome = camp.one(nodes, edges, workers, None if targeted else rng.choice([0, 1, None]), scheduler, failing, "Exception", chooser, "random",
                                     interrupt_at=("join", k))
            ctx.case(("intr", tuple(nodes), tuple(edges), workers, scheduler, k, tuple(run_.sched.decisions[:100])), nontrivial=n >= 2,
                     sample={"nodes": nodes, "edges": edges, "workers": workers, "interrupt_after_starts": k, "outcome": outcome[0]} if gi == 2 and k == 1 else None)
            ctx.count("interrupt_k", k)
            ctx.count("outcome", outcome[0])
            ev = run_.events
            intr_i = next((i for i, e in enumerate(ev) if e[0] == "intr"), None)
            case = {"nodes": nodes, "edges": edges, "workers": workers, "scheduler": scheduler, "k": k, "events": [repr(e) for e in ev[:300]]}
            if intr_i is None:
                failed = any(e[0] == "end" and not e[3] for e in ev)
                if outcome[0] != ("raised" if failed and outcome[0] == "raised" else "returned"):
                    ctx.fail("intr:outcome", "no interrupt delivered but outcome %s" % outcome[0], case)
                continue
            stop_i = next((i for i, e in enumerate(ev) if e[0] == "setstop" and i > intr_i), None)
            if outcome[0] != "interrupted":
                ctx.fail("intr:not-propagated", "KeyboardInterrupt did not propagate: outcome %s" % outcome[0], case)
            if stop_i is None:
                ctx.fail("intr:no-stop", "the interrupt handler never set stop", case)
            else:
                # a call may begin only if its worker read `stop` before the handler set it
                late = [e for i, e in enumerate(ev) if e[0] == "readstop" and i > stop_i
                        and any(f[0] == "start" and f[1] == e[1] for f in ev[i:i + 2])]
                late = [e for i, e in enumerate(ev) if e[0] == "start" and i > stop_i and
                        max(j for j, f in enumerate(ev[:i]) if f[0] == "readstop" and f[1] == e[1]) > stop_i]
                if late:
                    ctx.fail("intr:late-start", "call started after the interrupt handler set stop: %r" % (late[0],), case)
            starts = [e[2] for e in ev if e[0] == "start"]
            ends = [e[2] for e in ev if e[0] == "end"]
            if sorted(starts) != sorted(ends):
                ctx.fail("intr:inflight-lost", "calls started but never finished: %r" % sorted(set(starts) - set(ends)), case)
            if run_.leaked:
                ctx.fail("intr:leak", "threads alive after the interrupted run: %r" % run_.leaked, case)
    camp.eval_model()
    engine_corr.file_findings(ctx, camp, {"C17", "C07"})
    if camp.usable:
        spawn_window(ctx, camp)
    real_signal(ctx)


def spawn_window(ctx, camp):
    """Finding F6: KeyboardInterrupt while worker_pool is still starting threads."""
    rfg = camp.rfg
    uj = camp.uj
    for j in (1, 2):
        nodes, edges = [0, 1], [(0, 1, "pos")]
        g = engine_corr.build_nx(uj, nodes, edges)
        run_ = detsched.Run(rfg, camp.sites, detsched.random_chooser(ctx.rng, 0.3))
        orig = run_.execute

        real_thread = rfg.thread
        count = [0]

        def thread(fn):
            if count[0] == j:
                run_.ev("intr_spawn")
                raise KeyboardInterrupt()
            count[0] += 1
            return real_thread(fn)
        rfg.thread = thread
        try:
            outcome = run_.execute(g, lambda n: None, 3, 0, "cheap")
        finally:
            rfg.thread = real_thread
        ctx.case(("spawn-window", j))
        if outcome[0] == "deadlock" or run_.leaked:
            ctx.fail("interrupt-during-spawn:deadlock",
                     "KeyboardInterrupt while the worker pool is being started: started workers never receive DONE (%s)" % (outcome[1] or run_.leaked,),
                     {"spawned_before_interrupt": j, "workers": 3, "events": [repr(e) for e in run_.events]})
        elif outcome[0] != "interrupted":
            ctx.fail("interrupt-during-spawn:outcome", "unexpected outcome %r" % (outcome[0],), {"j": j})


def sigint_disposition(ctx, when):
    """uberjob.run leaves the process's SIGINT handling as it found it (a later Ctrl-C must still raise KeyboardInterrupt in the calling
    thread - also in the second and every later run of the process); restores it for the checker's own sake when it does not"""
    import signal
    h = signal.getsignal(signal.SIGINT)
    if h is not signal.default_int_handler:
        ctx.fail("signal:handler-changed", "%s the process's SIGINT handler is %r instead of Python's default_int_handler that was in place before: the next Ctrl-C during a run "
                 "would %s instead of raising KeyboardInterrupt in the calling thread" % (when, h, "kill the process outright" if h == signal.SIG_DFL else "be ignored" if h == signal.SIG_IGN else "go elsewhere"),
                 {"when": when, "handler": repr(h)})
        signal.signal(signal.SIGINT, signal.default_int_handler)
        return False
    return True


def real_signal(ctx):
    """Real threads, real signal path: _thread.interrupt_main() from inside the k-th call."""
    import signal
    uberjob = core.use_repo()
    # a run that completes normally, with and without a registry, from the main thread
    import datetime as _dt
    for with_registry in (False, True):
        p0, r0 = uberjob.Plan(), uberjob.Registry()
        x0 = p0.call(lambda: 1)
        if with_registry:
            class _M(uberjob.ValueStore):
                v = None

                def read(self):
                    return self.v

                def write(self, v):
                    self.v = v

                def get_modified_time(self):
                    return None if self.v is None else _dt.datetime(2020, 1, 1)
            r0.add(x0, _M())
        uberjob.run(p0, output=x0, registry=r0 if with_registry else None, progress=None)
        ctx.case(("sigint-disposition-after-normal-run", with_registry))
        sigint_disposition(ctx, "after a run that completed normally (%s registry)" % ("with a" if with_registry else "no"))
    from uberjob.progress import Progress, ProgressObserver

    class Obs(ProgressObserver):
        def __init__(self):
            self.entered = self.exited = 0

        def __enter__(self):
            self.entered += 1

        def __exit__(self, *a):
            self.exited += 1

        def increment_total(self, **k):
            pass

        increment_running = increment_completed = increment_failed = increment_total

    import detsched
    import uberjob._execution.run_function_on_graph as rfg_mod
    sites = detsched.Sites(rfg_mod)
    rng = ctx.rng
    for trial in range(ctx.n(12, 80)):
        ncalls = rng.randrange(3, 9)
        workers = rng.choice([1, 2, 4])
        k = rng.randrange(0, ncalls)
        long_call = {1: 1.4, 7: 2.6}.get(trial, 0) if ctx.quick else {1: 1.4, 7: 2.6, 13: 5.5}.get(trial, 0)
        chain = trial % 3 == 0          # a linear chain interrupted early: no later link may start (beyond one per worker)
        if chain:
            ncalls, workers, k = 9, rng.choice([1, 2]), rng.choice([1, 2, 3])
        # a backlog of ready calls at the moment of the interrupt, under every combination of scheduler and error limit: none of the
        # waiting calls may start (beyond the one per worker that was already past its stop test)
        backlog = {2: ("random", None), 5: ("default", 1000), 8: ("random", 0), 11: (None, None)}.get(trial)
        run_kw = {}
        if backlog:
            ncalls, workers, k, chain, long_call = 60, 2, rng.choice([0, 1]), False, 0
            run_kw = {"scheduler": backlog[0], "max_errors": backlog[1]}
        lock = threading.Lock()
        log, state = [], {"n": 0, "sig": None}

        def mk(i):
            def f(*a):
                with lock:
                    log.append(("start", i, time.monotonic()))
                    me = state["n"]
                    state["n"] += 1
                if me == k:
                    # make sure the coordinator is parked in queue.join() (all workers spawned): look at its stack
                    import sys as _sys
                    deadline = time.monotonic() + 5
                    while time.monotonic() < deadline:
                        f_ = _sys._current_frames().get(threading.main_thread().ident)
                        names = []
                        while f_ is not None and len(names) < 6:
                            names.append(f_.f_code.co_name)
                            f_ = f_.f_back
                        if "join" in names and "run_function_on_graph" in names:
                            state["parked"] = True
                            break
                        time.sleep(0.005)
                    time.sleep(0.02)
                    state["sig"] = time.monotonic()
                    signal.pthread_kill(threading.main_thread().ident, signal.SIGINT)
                    if long_call:
                        time.sleep(long_call)     # the interrupted call itself takes long: run must still wait for it
                time.sleep(0.08 if backlog else 0.02)
                with lock:
                    log.append(("end", i, time.monotonic()))
                return i
            return f
        p = uberjob.Plan()
        calls = []
        # the functions in flight at the interrupt are not all plain functions: functools.partial objects and callable instances (neither has
        # __name__ / __qualname__) every third trial
        fkind = ("function", "partial", "callable object")[trial % 3]
        ctx.count("real_signal_function_kind", fkind)

        class CallMe:
            def __init__(self, f):
                self.f = f

            def __call__(self, *a):
                return self.f(*a)
        import functools

        def dress(f):
            return f if fkind == "function" else functools.partial(f) if fkind == "partial" else CallMe(f)
        for i in range(ncalls):
            args = [rng.choice(calls)] if calls and rng.random() < 0.5 and not backlog else []
            if chain:
                args = calls[-1:]
            # scope values of different types at the same position (a year, a name, a tuple): displays must cope when they sum up at exit
            with p.scope((2020, "summary", (1, 2), None, 2.5)[i % 5]):
                calls.append(p.call(dress(mk(i)), *args))
        obs = Obs()
        # every fourth trial the bundled console display is attached instead of the recording observer (its update thread must be gone too)
        use_console = trial % 4 == 3
        if use_console:
            from uberjob.progress import console_progress
            import contextlib
            import io
            obs.entered = obs.exited = 1
        # ... and every other remaining trial several observers are attached at once (a list / composite_progress of two, a nested composite):
        # the interrupt passes through the composite's __exit__ on its way out of run
        obs2 = Obs()
        pform = "single" if use_console or trial % 2 == 0 else ("list", "composite_progress", "nested composite")[(trial // 2) % 3]
        ctx.count("real_signal_progress_form", "console" if use_console else pform)
        if pform == "single":
            prog_arg = Progress(lambda: obs)
            obs2.entered = obs2.exited = 1
        else:
            from uberjob.progress import composite_progress
            prog_arg = ([Progress(lambda: obs), Progress(lambda: obs2)] if pform == "list" else composite_progress(Progress(lambda: obs), Progress(lambda: obs2))
                        if pform == "composite_progress" else composite_progress(composite_progress(Progress(lambda: obs)), Progress(lambda: obs2)))
        before = set(threading.enumerate())
        outcome = None
        tstop = []

        def tracer(frame, event, arg):
            if frame.f_code.co_filename != sites.file or frame.f_code.co_name != "run_function_on_graph":
                return None
            return ltrace

        def ltrace(frame, event, arg):
            if event == "line" and frame.f_lineno == sites.lines.get("setstop", -9) + 1 and not tstop:
                with lock:     # the line after `stop = True`: the flag is set; no call function may begin after this
                    tstop.append(len(log))
            return ltrace
        import sys
        sys.settrace(tracer)
        try:
            try:
                if use_console:
                    with contextlib.redirect_stdout(io.StringIO()), contextlib.redirect_stderr(io.StringIO()):
                        uberjob.run(p, output=calls[-1] if chain else calls, max_workers=workers, progress=console_progress, **run_kw)
                else:
                    uberjob.run(p, output=calls[-1] if chain else calls, max_workers=workers, progress=prog_arg, **run_kw)
                outcome = "returned"
            except KeyboardInterrupt:
                outcome = "interrupted"
            except BaseException as e:
                outcome = "other:%r" % (e,)
        except KeyboardInterrupt:
            outcome = "interrupted-late"
        finally:
            sys.settrace(None)
        sigint_disposition(ctx, "after run %d of the process (outcome %s)" % (trial + 3, outcome))
        ctx.case(("real-signal", ncalls, workers, k, chain))
        ctx.count("real_signal_shape", "chain" if chain else "backlog %r" % (backlog,) if backlog else "random")
        with lock:
            snap = list(log)
        case = {"ncalls": ncalls, "workers": workers, "k": k, "outcome": outcome, "interrupting_call_lasts_seconds": long_call, "call_functions_are": fkind,
                "progress": "console_progress" if use_console else "recording observer" if pform == "single" else "two recording observers (%s)" % pform, "log": [(a, b) for a, b, _ in snap],
                "log_index_when_stop_was_set": tstop}
        starts = [i for kind, i, _ in snap if kind == "start"]
        ends = [i for kind, i, _ in snap if kind == "end"]
        if outcome.startswith("interrupted") and not tstop and not state.get("parked"):
            # the handler never ran: the interrupt landed before the coordinator reached queue.join(), i.e. in the start-up
            # window of finding F6 (reported by spawn_window under its own key) - not what this scenario measures
            ctx.count("signal_landed_in_spawn_window", 1)
            time.sleep(0.3)
            continue
        if outcome == "returned" and len(starts) == ncalls:
            ctx.count("signal_arrived_after_completion", 1)
        elif outcome != "interrupted":
            ctx.fail("signal:not-propagated", "KeyboardInterrupt did not propagate out of run: %s" % outcome, case)
        time.sleep(0.05)
        with lock:
            starts2 = [i for kind, i, _ in log if kind == "start"]
        if sorted(starts) != sorted(ends) or len(starts2) != len(starts):
            ctx.fail("signal:running-after-return", "calls still running or started after run raised", case)
        ctx.count("real_signal_stop_observed", bool(tstop))
        ctx.count("real_signal_outcome", outcome)
        if tstop:
            # a worker that read stop=False just before the handler set it may still begin its call: at most one per worker
            after = [i for kind, i, _ in snap[tstop[0]:] if kind == "start"]
            if len(after) > workers:
                ctx.fail("signal:late-starts", "%d calls started after the handler set stop (max_workers=%d)" % (len(after), workers), case)
        if backlog and state["sig"] is not None and outcome == "interrupted":      # (only when the interrupt did reach the calling thread during the run)
            # independent of the instrumentation: calls that began more than a second after the signal was sent
            late = [i for kind, i, t in snap if kind == "start" and t > state["sig"] + 1.0]
            if len(late) > workers:
                ctx.fail("signal:late-starts", "%d of %d waiting calls were started more than 1 s after Ctrl-C (scheduler=%r, max_errors=%r, max_workers=%d)"
                         % (len(late), ncalls, backlog[0], backlog[1], workers), dict(case, scheduler=backlog[0], max_errors=backlog[1]))
        if obs.entered != 1 or obs.exited != 1 or obs2.entered != 1 or obs2.exited != 1:
            ctx.fail("signal:observer", "observer entered %d / exited %d times%s" % (obs.entered, obs.exited, "" if pform == "single" else "; the second observer %d / %d" % (obs2.entered, obs2.exited)), case)
        deadline = time.time() + 2
        while time.time() < deadline and [t for t in threading.enumerate() if t not in before]:
            time.sleep(0.005)
        leaked = [t for t in threading.enumerate() if t not in before]
        if leaked:
            ctx.fail("signal:leak", "threads alive after interrupted run: %r" % leaked, case)
