"""Correspondence + monitors for uberjob/_transformations/pruning.py vs coq/theories/Cache/Prune.v.

run_prune(ctx): random real Plans, built through the public API (plan.call with node / plain / nested arguments, plan.lit,
plan.add_dependency incl. literal->call, call->literal, call->literal->call chains, parallel edges of different key kinds,
occasionally a dependency cycle) or from graphgen specs (stars around a literal hub etc.), with random required sets and
output node; the real prune_plan / prune_source_literals / their composition (on copies: inplace=False) vs the model:
surviving node list (insertion order) and the full set of (src, dst, key) edges, nodes canonicalised by creation index.
Model-free monitors: C04 (surviving calls = calls among the required/output nodes and their ancestors; no required
nodes and no output => empty), C01 (between surviving nodes a path exists in the pruned graph iff one existed before),
the output node survives, the input plan is not modified.
"""
import core
import graphgen as gg

RULE_PRUNE = ("random Plans of 0-14 nodes (API-built and spec-built), random required subsets (0-3 nodes) and output (None / call / "
              "literal), plus a malformed stream (required node from another plan); distinct by (nodes, kinds, edges, required, "
              "output); non-trivial = something is pruned and something survives")
TRUSTED_BASE_PRUNE = ["networkx.MultiDiGraph modelled as node list + set of (src, dst, key) triples; remove_node drops incident edges; "
                      "add_edge of an existing triple is a no-op (tested by the full edge-set comparison)",
                      "Node objects are always truthy and compare by identity (`if output_node:`, `u != output_node`)"]
HEADER = ("From Coq Require Import List Arith Bool.\nImport ListNotations.\n"
          "From UJ Require Import Run.Exec_Prune.\n")


def build_api_plan(rng, uberjob):
    """a Plan built only through the public API"""
    plan = uberjob.Plan()
    nodes = []

    def pick():
        return rng.choice(nodes)

    def arg():
        r = rng.random()
        if nodes and r < 0.6:
            return pick()
        if nodes and r < 0.7:
            return [pick(), rng.randrange(5)]          # nested: a gather_list call
        return rng.randrange(100)                       # plain value: a literal made by gather

    steps = rng.choice([0, 1, 2, 4, 6, 8, 10])
    for _ in range(steps):
        r = rng.random()
        if r < 0.5 or not nodes:
            nargs = rng.choice([0, 1, 1, 2, 3])
            args = [arg() for _ in range(nargs)]
            kwargs = {}
            for j in range(rng.choice([0, 0, 1, 2])):
                kwargs["k%d" % j] = arg()
            if nodes and args and rng.random() < 0.3:    # the same node twice: parallel edges
                n0 = pick()
                args[0] = n0
                if rng.random() < 0.5:
                    kwargs["k9"] = n0
                else:
                    args.append(n0)
            nodes.append(plan.call(gg.make_fn(len(nodes)), *args, **kwargs))
        elif r < 0.65:
            nodes.append(plan.lit(rng.randrange(100)))
        else:
            allnodes = list(plan.graph.nodes())
            a, b = rng.choice(allnodes), rng.choice(allnodes)
            ia, ib = allnodes.index(a), allnodes.index(b)
            if ia == ib and rng.random() < 0.9:
                continue
            if ia > ib and rng.random() < 0.93:          # mostly forward (acyclic), sometimes a back edge
                a, b = b, a
            plan.add_dependency(a, b)
            if rng.random() < 0.4:                       # call -> literal -> call chain
                lit = plan.lit(rng.randrange(100))
                nodes.append(lit)
                plan.add_dependency(b, lit)
                later = [plan.call(gg.make_fn(len(nodes)))]
                nodes.append(later[0])
                plan.add_dependency(lit, later[0])
                if rng.random() < 0.5:
                    c2 = plan.call(gg.make_fn(len(nodes)))
                    nodes.append(c2)
                    plan.add_dependency(lit, c2)
                    if rng.random() < 0.5 and len(allnodes) > 1:
                        plan.add_dependency(rng.choice(allnodes), lit)
    return plan


def build_hub_plan(rng, uberjob):
    """literal hubs with m Dependency predecessors and n Dependency successors (m, n in 0..4): the m*n <= m+n rule,
    optionally one successor taking the literal as an argument, optionally two hubs in a row"""
    plan = uberjob.Plan()
    count = [0]

    def call(*a, **k):
        count[0] += 1
        return plan.call(gg.make_fn(count[0]), *a, **k)

    prev_succs = []
    for h in range(rng.choice([1, 1, 2])):
        m, n = rng.randrange(5), rng.randrange(5)
        preds = [call() for _ in range(m)]
        if prev_succs and rng.random() < 0.7:
            preds = preds[:max(0, m - 1)] + [rng.choice(prev_succs)]
        lit = plan.lit(h)
        order = [("p", x) for x in preds]
        succs = []
        for j in range(n):
            if rng.random() < 0.12:
                c = call(lit)                       # an argument edge: the literal must stay
            else:
                c = call()
                order.append(("s", c))
            succs.append(c)
        rng.shuffle(order)
        for tag, x in order:
            if tag == "p":
                plan.add_dependency(x, lit)
            else:
                plan.add_dependency(lit, x)
        if preds and succs and rng.random() < 0.3:
            plan.add_dependency(rng.choice(preds), rng.choice(succs))     # the bypass edge exists already
        prev_succs = succs
    return plan


def canon(graph, index, names):
    nodes = [index[n] for n in graph.nodes()]
    edges = sorted((index[u], index[v], gg.key_tuple(k, names)) for u, v, k in graph.edges(keys=True))
    return nodes, edges


def run_prune(ctx, n_cases=None):
    uberjob = core.use_repo()
    import networkx as nx
    from uberjob._transformations import pruning
    from uberjob.graph import Call, Literal

    n_cases = n_cases or ctx.n(500, 8000)
    rng = ctx.rng
    terms, expect = [], []

    for ci in range(n_cases):
        r = rng.random()
        hub = False
        if r < 0.45:
            plan, how = build_api_plan(rng, uberjob), "api"
        elif r < 0.7:
            plan, how, hub = build_hub_plan(rng, uberjob), "hub", True
        else:
            spec0 = gg.random_dag(rng, max_nodes=10, lit_prob=rng.choice([0.2, 0.4, 0.6]))
            if rng.random() < 0.1:
                spec0 = gg.add_cycle(rng, spec0)
            plan, how = gg.to_plan(spec0)[0], "spec:" + spec0["family"]
        names = {}
        spec, index = gg.spec_of_graph(plan.graph, names=names)
        objs = list(plan.graph.nodes())
        n = len(objs)
        before = canon(plan.graph, index, names)
        args = gg.coq_plan_args(spec)
        g0 = nx.DiGraph()
        g0.add_nodes_from(range(n))
        g0.add_edges_from((s, d) for s, d, _ in spec["edges"])
        kinds = spec["kinds"]
        base = {"nodes": spec["order"], "literals": [v for v in spec["order"] if kinds[v] == "lit"],
                "edges": [[s, d, list(k)] for s, d, k in spec["edges"]], "built": how}
        ctx.count("prune.built", how.split(":")[0])
        ctx.count("prune.nodes", n)
        ctx.count("prune.acyclic", nx.is_directed_acyclic_graph(g0))

        # ---- prune_plan
        for _ in range(2):
            req = rng.sample(range(n), min(n, rng.choice([0, 0, 1, 2, 3]))) if n else []
            out = rng.randrange(n) if n and rng.random() < 0.7 else None
            if hub and rng.random() < 0.7:              # keep everything downstream of the hubs
                req = [v for v in range(n) if spec["kinds"][v] == "call" and rng.random() < 0.9]
                out = rng.choice(req) if req and rng.random() < 0.5 else None
            malformed = rng.random() < 0.05
            req_objs = [objs[i] for i in req]
            req_ids = list(req)
            if malformed:
                req_objs.append(Call(gg.make_fn(999)))      # a node of no plan
                req_ids.append(n + 1)
            replay = dict(base, required=req_ids, output=out)
            try:
                pruned = pruning.prune_plan(plan, required_nodes=list(req_objs), output_node=None if out is None else objs[out], inplace=False)
                got = canon(pruned.graph, index, names)
                impl = got
            except nx.NetworkXError:
                got, impl = None, None
            if canon(plan.graph, index, names) != before:
                ctx.fail("prune_plan:mutates-input", "prune_plan(inplace=False) modified the plan it was given", replay)
            terms.append("exec_prune %s %s %s" % (args, gg.coq_nats(req_ids), gg.coq_nats([] if out is None else [out])))
            expect.append(("prune_plan", impl, replay))
            roots = set(req) | ({out} if out is not None else set())
            nontrivial = got is not None and 0 < len(got[0]) < n
            ctx.case(("prune", tuple(before[0]), tuple(before[1]), tuple(sorted(kinds.items())), tuple(req_ids), out), nontrivial=nontrivial,
                     sample=replay if ci < 2 else None)
            ctx.count("prune.roots", "malformed" if malformed else ("none" if not roots else "output+%d" % min(len(req), 4) if out is not None else "required-only"))
            if got is None:
                if not malformed:
                    ctx.fail("prune_plan:raises", "prune_plan raised NetworkXError on nodes of the plan", replay)
                continue
            monitors(ctx, "prune_plan", g0, kinds, got, roots, replay, nx, out=out)
            # arguments of surviving nodes are untouched; only Dependency edges are added
            gs, ge = set(got[0]), set(got[1])
            lost = [e for e in before[1] if e[2][0] != gg.DEP and e[1] in gs and e not in ge]
            added = [e for e in got[1] if e[2][0] != gg.DEP and e not in set(before[1])]
            if lost or added:
                ctx.fail("prune_plan:argument-edges", "prune_plan dropped or added an argument edge of a surviving node",
                         dict(replay, lost=lost[:4], added=added[:4]))
            if got[0] != [v for v in before[0] if v in set(got[0])]:
                ctx.broke("prune_plan changes the insertion order of surviving nodes", replay)
            fat = 0
            for v in got[0]:
                if kinds[v] == "lit" and v != out:
                    oe = [k for s_, d_, k in got[1] if s_ == v]
                    if all(k[0] == gg.DEP for k in oe):
                        fat += 1
            ctx.count("prune.literals_kept_by_size_rule", fat)
            ctx.count("prune.literals_elided", sum(1 for v in roots_anc(g0, roots, nx) if kinds[v] == "lit" and v not in got[0]))

        # ---- prune_source_literals (predicate None / random predicate)
        usepred = rng.random() < 0.5
        predtrue = [v for v in range(n) if rng.random() < 0.5]
        pred = (lambda node: index[node] in predtrue) if usepred else None
        psl = pruning.prune_source_literals(plan, inplace=False, predicate=pred)
        got = canon(psl.graph, index, names)
        replay = dict(base, predicate=predtrue if usepred else None)
        if canon(plan.graph, index, names) != before:
            ctx.fail("prune_source_literals:mutates-input", "prune_source_literals(inplace=False) modified the plan", replay)
        terms.append("exec_psl %s %d %s" % (args, 1 if usepred else 0, gg.coq_nats(predtrue)))
        expect.append(("prune_source_literals", got, replay))
        ctx.case(("psl", tuple(before[0]), tuple(before[1]), usepred, tuple(predtrue)), nontrivial=len(got[0]) < n)
        calls_before = [v for v in before[0] if kinds[v] == "call"]
        if [v for v in got[0] if kinds[v] == "call"] != calls_before:
            ctx.fail("prune_source_literals:calls", "prune_source_literals removed or reordered a call", dict(replay, survivors=got[0]))
        monitors(ctx, "prune_source_literals", g0, kinds, got, None, replay, nx)

        # ---- the run graph: prune_plan(required=[]) then prune_source_literals()
        out = rng.randrange(n) if n and rng.random() < 0.85 else None
        rg = pruning.prune_source_literals(
            pruning.prune_plan(plan, required_nodes=[], output_node=None if out is None else objs[out], inplace=False), inplace=False)
        got = canon(rg.graph, index, names)
        replay = dict(base, output=out)
        terms.append("exec_run_graph %s %s" % (args, gg.coq_nats([] if out is None else [out])))
        expect.append(("run graph", got, replay))
        ctx.case(("rungraph", tuple(before[0]), tuple(before[1]), out), nontrivial=0 < len(got[0]) < n)
        monitors(ctx, "run_graph", g0, kinds, got, {out} if out is not None else set(), replay, nx, calls_only=True)

    outs = core.coq_eval(HEADER, terms, ty="list nat", tag="prune")
    for (what, impl, replay), o in zip(expect, outs):
        model = gg.parse_flat_plan(gg.parse_nats(o))
        ctx.compared("Cache/Prune.v vs pruning.%s" % what)
        impl_c = None if impl is None else (impl[0], sorted(impl[1]))
        if model != impl_c:
            ctx.broke("correspondence Cache/Prune.v vs pruning.%s" % what, dict(replay, model=model, impl=impl_c))


def roots_anc(g0, roots, nx):
    keep = set(roots)
    for r in roots:
        keep |= nx.ancestors(g0, r)
    return keep


def monitors(ctx, what, g0, kinds, got, roots, replay, nx, out=None, calls_only=False):
    nodes, edges = got
    surv = set(nodes)
    if roots is not None:
        keep = roots_anc(g0, roots, nx)
        need_calls = {v for v in keep if kinds[v] == "call"}
        have_calls = {v for v in surv if kinds[v] == "call"}
        if have_calls - need_calls:
            ctx.fail(what + ":unneeded-call-kept", "a call that nothing required depends on survives pruning (C04: it would run)",
                     dict(replay, extra=sorted(have_calls - need_calls)))
        if need_calls - have_calls:
            ctx.fail(what + ":needed-call-dropped", "a required call / ancestor of a required node was pruned (C04/C01)",
                     dict(replay, missing=sorted(need_calls - have_calls)))
        if surv - keep:
            ctx.fail(what + ":unneeded-node-kept", "a node that is not an ancestor of a required node survives", dict(replay, extra=sorted(surv - keep)))
        if not roots and surv:
            ctx.fail(what + ":none-not-empty", "no required node and no output, yet nodes survive", dict(replay, survivors=nodes))
    if out is not None and out not in surv:
        ctx.fail(what + ":output-dropped", "the output node was pruned", replay)
    # C01: same reachability between survivors
    g1 = nx.DiGraph()
    g1.add_nodes_from(nodes)
    g1.add_edges_from((s, d) for s, d, _ in edges)
    if any(s not in surv or d not in surv for s, d, _ in edges):
        ctx.fail(what + ":dangling-edge", "an edge of the pruned graph touches a removed node", replay)
        return
    r0 = reach_pairs(g0, nx)
    r1 = reach_pairs(g1, nx)
    dropped = sorted((a, b) for (a, b) in r0 if a in surv and b in surv and (a, b) not in r1)
    invented = sorted(p for p in r1 if p not in r0)
    if dropped:
        ctx.fail(what + ":dependency-dropped", "a dependency between surviving nodes was lost (C01)", dict(replay, pairs=dropped[:5]))
    if invented:
        ctx.fail(what + ":dependency-invented", "a dependency between nodes that did not exist before was added", dict(replay, pairs=invented[:5]))
    if nx.is_directed_acyclic_graph(g0) and not nx.is_directed_acyclic_graph(g1):
        ctx.fail(what + ":cycle-created", "pruning created a cycle", replay)


def reach_pairs(g, nx):
    """{(a, b) | a path of length >= 1 from a to b}"""
    out = set()
    for a in g.nodes:
        for b in nx.descendants(g, a):
            out.add((a, b))
        if any(a in nx.descendants(g, s) or s == a for s in g.successors(a)):
            out.add((a, a))
    return out
