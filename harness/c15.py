"""C15: progress observers receive an exact, well-formed account of every run."""
import collections
import datetime as dt
import re
import threading

import core

RULE = ("real uberjob.run calls over generated plans: random DAGs of 1-12 calls (three functions) created under random nested "
        "plan.scope(...) values, optional registry (two in-memory store classes, fresh or empty stores, sources), outputs "
        "(None / node / list), failing calls and failing store operations (Exception), max_errors in {0,1,None}, max_workers "
        "in {1,3}, both schedulers, dry_run, a raising transform_physical; observed by a thread-safe recording observer alone "
        "or inside composite_progress / a tuple with 1-3 members (some with a member whose __enter__ raises). A case is "
        "distinct by its recorded notification sequence and configuration; non-trivial if at least one call was reported running.")
TRUSTED_BASE = [
    "engine events (callback start/end per node) are recorded by wrapping run_function_on_graph in the namespaces of caching.py and run_physical.py; a notification is attributed to the node whose callback is running in the same thread",
    "hypothesis trace_ok (each node's callback runs at most once, ends after it starts, all have ended when the pass returns) is what the engine theorems C04/C01/C07 provide; it is tested on every recorded trace",
    "calls end normally or with Exception (BaseException is excluded by the property)",
    "the model's composite observer is sequential: with several worker threads members may see concurrent notifications in different orders (each member's view is checked to be well-formed and the multisets equal)",
]

LOCK = threading.Lock()
LOG = []          # global, totally ordered record of engine events, notifications and call executions
FAIL = set()


def _body(idx, args):
    with LOCK:
        LOG.append(("exec", idx, threading.get_ident()))
    if idx in FAIL:
        raise ValueError("call %d fails" % idx)
    return idx


def f_a(idx, *args):
    return _body(idx, args)


def f_b(idx, *args):
    return _body(idx, args)


def f_c(idx, *args):
    return _body(idx, args)


def make_twin(k):
    """distinct function objects sharing one qualified name (closures of one factory)"""
    def twin(idx, *args):
        return _body(idx, args)
    return twin


TWINS = [make_twin(k) for k in range(3)]
FN_NAMES = {}


def note(member, kind, section, scope):
    with LOCK:
        LOG.append(("note", member, kind, section, scope, threading.get_ident()))


def make_classes(uberjob):
    from uberjob.progress import ProgressObserver

    class Recorder(ProgressObserver):
        def __init__(self, member, enter_raises=False):
            self.member, self.enter_raises = member, enter_raises

        def __enter__(self):
            if self.enter_raises:
                with LOCK:
                    LOG.append(("menter_raised", self.member))
                raise RuntimeError("enter of member %d" % self.member)
            with LOCK:
                LOG.append(("menter", self.member))
            note(self.member, "enter", None, None)

        def __exit__(self, exc_type, exc_val, exc_tb):
            note(self.member, "exit", None, None)
            with LOCK:
                LOG.append(("mexit", self.member))

        def increment_total(self, *, section, scope, amount):
            note(self.member, "total", section, (scope, amount))

        def increment_running(self, *, section, scope):
            note(self.member, "running", section, scope)

        def increment_completed(self, *, section, scope):
            note(self.member, "completed", section, scope)

        def increment_failed(self, *, section, scope, exception):
            note(self.member, "failed", section, scope)

    class MemA(uberjob.ValueStore):
        def __init__(self, sid, value=None, mtime=None, fail=None):
            self.sid, self.value, self.mtime, self.fail = sid, value, mtime, fail

        def read(self):
            with LOCK:
                LOG.append(("store", "read", self.sid))
            if self.fail == "read":
                raise IOError("read fails")
            return self.value

        def write(self, value):
            with LOCK:
                LOG.append(("store", "write", self.sid))
            if self.fail == "write":
                raise IOError("write fails")
            self.value, self.mtime = value, dt.datetime(2021, 1, 1) + dt.timedelta(seconds=len(LOG))

        def get_modified_time(self):
            if self.fail == "mtime":
                raise IOError("mtime fails")
            return self.mtime

    class MemB(MemA):
        pass

    return Recorder, MemA, MemB


SCOPE_VALUES = ["s1", "s2", 3, ("t", 1), "deep.name", None]


def gen_case(rng, uberjob, Recorder, MemA, MemB, case_id):
    plan = uberjob.Plan()
    registry = uberjob.Registry() if rng.random() < 0.6 else None
    fns = [f_a, f_b, f_c] + TWINS
    nodes, meta, stores = [], {}, []
    sid = [0]

    def new_store(fresh):
        cls = rng.choice([MemA, MemB])
        sid[0] += 1
        st = cls(sid[0], value=("v", sid[0]) if fresh else None, mtime=dt.datetime(2020, 1, 1) + dt.timedelta(seconds=sid[0]) if fresh else None)
        stores.append(st)
        return st

    def scoped(make):
        depth = rng.choice([0, 0, 1, 1, 2])
        vals = [tuple(rng.choice(SCOPE_VALUES) for _ in range(rng.choice([1, 1, 2]))) for _ in range(depth)]
        if depth == 0:
            return make(), ()
        if depth == 1:
            with plan.scope(*vals[0]):
                return make(), vals[0]
        with plan.scope(*vals[0]):
            with plan.scope(*vals[1]):
                return make(), vals[0] + vals[1]

    n_src = rng.choice([0, 0, 1, 2]) if registry is not None else 0
    for _ in range(n_src):
        st = new_store(True)
        node, sc = scoped(lambda: registry.source(plan, st))
        nodes.append(node)
    n = rng.randint(1, 12)
    for i in range(n):
        deps = rng.sample(nodes, min(len(nodes), rng.choice([0, 1, 1, 2]))) if nodes else []
        fn = rng.choice(fns)
        node, sc = scoped(lambda: plan.call(fn, i, *deps))
        nodes.append(node)
        meta[i] = (node, sc, fn)
        if registry is not None and rng.random() < 0.4:
            registry.add(node, new_store(rng.random() < 0.4))
    calls = [meta[i][0] for i in range(n)]
    r = rng.random()
    if r < 0.15:
        output = None
    elif r < 0.5:
        output = rng.choice(calls)
    else:
        output = rng.sample(calls, min(len(calls), rng.randint(1, 3)))
    fail_calls = set()
    if rng.random() < 0.35:
        fail_calls = set(rng.sample(range(n), min(n, rng.choice([1, 1, 2, 3]))))
    store_fail = None
    if stores and rng.random() < 0.25:
        st = rng.choice(stores)
        st.fail = rng.choice(["mtime", "mtime", "read", "write"])
        store_fail = (st.sid, st.fail)
    kw = dict(max_errors=rng.choice([0, 0, 1, None]), max_workers=rng.choice([1, 3]), scheduler=rng.choice([None, "default", "random"]))
    if rng.random() < 0.1:
        kw["dry_run"] = True
    tp = rng.random()
    if tp < 0.07:
        def transform_physical(p, o):
            raise KeyError("transform_physical raises")
        kw["transform_physical"] = transform_physical
    elif tp < 0.15:
        kw["transform_physical"] = lambda p, o: (p, o)
    # observers
    m = rng.choice([1, 1, 2, 3])
    raises = [False] * m
    if rng.random() < 0.1:
        raises[rng.randrange(m)] = True
    members = [uberjob.progress.Progress((lambda i, rz: (lambda: Recorder(i, rz)))(i, raises[i])) for i in range(m)]
    style = rng.choice(["single", "tuple", "composite"]) if m == 1 else rng.choice(["tuple", "composite"])
    if style == "single":
        progress = members[0]
    elif style == "tuple":
        progress = tuple(members)
    else:
        progress = uberjob.progress.composite_progress(*members)
    return dict(plan=plan, registry=registry, output=output, kw=kw, progress=progress, m=m, raises=raises, style=style,
                meta=meta, fail_calls=fail_calls, store_fail=store_fail, n=n, n_src=n_src)


# ------------------------------------------------------------------------------------------------
def py_wf(seq):
    """model-free monitor: the property's well-formedness, stated directly on a recorded sequence.
    seq = list of (kind, section, payload). Returns None or a description of the first defect."""
    if not seq or seq[0][0] != "enter":
        return "the observer was not entered first"
    if seq[-1][0] != "exit":
        return "the observer was not exited last"
    tot, run, fin = collections.Counter(), collections.Counter(), collections.Counter()
    started_sections = set()
    for i, (kind, section, payload) in enumerate(seq[1:-1], 1):
        if kind in ("enter", "exit"):
            return "enter/exit in the middle (position %d)" % i
        if kind == "total":
            scope, amount = payload
            if amount <= 0:
                return "non-positive total"
            if section in started_sections:
                return "total for section %r announced after something in it was running" % section
            tot[(section, scope)] += amount
        elif kind == "running":
            k = (section, payload)
            if run[k] >= tot[k]:
                return "running reported for %r beyond its announced total (%d of %d)" % (k, run[k] + 1, tot[k])
            run[k] += 1
            started_sections.add(section)
        else:
            k = (section, payload)
            if fin[k] >= run[k]:
                return "%s for %r without a matching running" % (kind, k)
            fin[k] += 1
    for k in run:
        if run[k] != fin[k]:
            return "%d running without completed/failed for %r when the observer was exited" % (run[k] - fin[k], k)
    return None


def fqn_monitor(ctx, uberjob):
    """the function name that ends every 'run' scope is the name of THAT function, also in a long-lived process that has
    created and dropped many callables (no cache keyed on recycled object identities)"""
    from uberjob._util import fully_qualified_name
    import gc
    bad = None
    for i in range(6000):
        ns = {}
        exec("def fn_%d():\n    return %d" % (i, i), ns)
        f = ns["fn_%d" % i]
        name = fully_qualified_name(f)
        if not name.endswith("fn_%d" % i):
            bad = (i, name)
            break
        del f, ns
        if i % 512 == 0:
            gc.collect()
    ctx.case(("fqn-lifetimes",))
    if bad:
        ctx.fail("fqn:stale-name", "fully_qualified_name reports %r for the %d-th freshly created function fn_%d" % (bad[1], bad[0], bad[0]),
                 {"index": bad[0], "reported": bad[1]})


def extra(ctx, uberjob):
    """(a) the account stays exact under forced interleavings of the worker threads (join-heavy plans, real uberjob.run under the
    deterministic scheduler); (b) a Progress object (composite_progress(...), a list) reused for several runs gives every run
    freshly created member observers, each entered once, notified only between its enter and exit, exited once."""
    import plansched
    from uberjob.progress import Progress, ProgressObserver, composite_progress
    rng = ctx.rng

    class Rec(ProgressObserver):
        def __init__(self, sink):
            self.seq, self.lock = [], threading.Lock()
            sink.append(self)

        def _n(self, *e):
            with self.lock:
                self.seq.append(e)

        def __enter__(self):
            self._n("enter", None, None)

        def __exit__(self, *a):
            self._n("exit", None, None)

        def increment_total(self, *, section, scope, amount):
            self._n("total", section, (scope, amount))

        def increment_running(self, *, section, scope):
            self._n("running", section, scope)

        def increment_completed(self, *, section, scope):
            self._n("completed", section, scope)

        def increment_failed(self, *, section, scope, exception):
            self._n("failed", section, scope)

    class RecProgress(Progress):
        def __init__(self):
            self.made = []

        def observer(self):
            return Rec(self.made)

    # (a)
    ctl = plansched.Controlled()
    with ctl:
        for name, shape in plansched.SHAPES.items():
            for si in range(ctx.n(25, 250)):
                plan, nodes = uberjob.Plan(), {}
                for nm, args in shape:
                    with plan.scope(nm[0]):
                        nodes[nm] = plan.call(lambda *a: 0, *[nodes[a] for a in args])
                prog = RecProgress()
                ctl.set(plansched.stress_chooser(rng, si))
                workers = rng.choice([2, 3, 4])
                try:
                    uberjob.run(plan, output=nodes[shape[-1][0]], max_workers=workers, progress=prog)
                    outcome = "returned"
                except BaseException as e:      # noqa
                    outcome = "raised %s: %s" % (type(e).__name__, str(e)[:100])
                r = ctl.last
                seq = prog.made[0].seq if prog.made else []
                defect = py_wf(seq)
                completed = sum(1 for e in seq if e[0] == "completed")
                ctx.case(("c15-timing", name, tuple(r.sched.decisions[:300]) if r else si), nontrivial=True)
                if defect or outcome != "returned" or completed != len(shape):
                    ctx.fail("timing:account", "under a forced interleaving of %d workers the observer's account is not exact: %s; run %s; %d completed of %d calls"
                             % (workers, defect or "well-formed", outcome, completed, len(shape)),
                             {"shape": name, "max_workers": workers, "decisions": r.sched.decisions[:4000] if r else None,
                              "notifications": [repr(e) for e in seq[:80]]})
    # (a') the same plans on the engine's real threads with a tiny interpreter switch interval (no instrumentation at all)
    import sys as _sys
    old_si = _sys.getswitchinterval()
    _sys.setswitchinterval(1e-6)
    try:
        for si in range(ctx.n(160, 1500)):
            name = rng.choice(sorted(plansched.SHAPES))
            shape = plansched.SHAPES[name] if si % 3 else [("c0", [])] + [("c%d" % k, ["c%d" % (k - 1)]) for k in range(1, 6)]
            plan, nodes = uberjob.Plan(), {}
            for nm, args in shape:
                with plan.scope(nm[0]):
                    nodes[nm] = plan.call(lambda *a: 7, *[nodes[a] for a in args])
            prog = RecProgress()
            workers = rng.choice([1, 2, 4, 8])
            try:
                res = core.call_watched(lambda: uberjob.run(plan, output=nodes[shape[-1][0]], max_workers=workers, progress=prog, scheduler=rng.choice([None, "random"])), timeout=30)
                outcome = "returned" if res == 7 else "returned %r instead of 7" % (res,)
            except BaseException as e:      # noqa
                outcome = "raised %s: %s" % (type(e).__name__, str(e)[:100])
            seq = prog.made[0].seq if prog.made else []
            defect = py_wf(seq)
            completed = sum(1 for e in seq if e[0] == "completed")
            ctx.case(("c15-real-threads", name if si % 3 else "chain6", workers, si), nontrivial=True)
            if defect or outcome != "returned" or completed != len(shape):
                ctx.fail("timing:account", "on real threads (switch interval 1 us, %d workers) the observer's account is not exact: %s; run %s; %d completed of %d calls"
                         % (workers, defect or "well-formed", outcome, completed, len(shape)),
                         {"shape": name if si % 3 else "chain6", "max_workers": workers, "notifications": [repr(e) for e in seq[:80]]})
                break
    finally:
        _sys.setswitchinterval(old_si)
    # (c) transform_physical may return a NEW plan (a copy it edited): the account describes the plan that is executed
    import operator
    for how in ("in-place", "copy-add", "copy-replace"):
        plan = uberjob.Plan()
        with plan.scope("math"):
            x = plan.call(pow, 2, 3)
            y = plan.call(operator.neg, x)

        def tp(pl, out, how=how):
            if how == "in-place":
                with pl.scope("extra"):
                    pl.add_dependency(pl.call(abs, -1), out)
                return pl, out
            q = pl.copy()
            if how == "copy-add":
                with q.scope("extra"):
                    q.add_dependency(q.call(abs, -1), out)
                    q.add_dependency(q.call(abs, -2), out)
                return q, out
            with q.scope("other"):
                z = q.call(operator.add, 40, 2)
            return q, z
        prog = RecProgress()
        try:
            uberjob.run(plan, output=y, progress=prog, transform_physical=tp, max_workers=1)
            oc = "returned"
        except BaseException as e:      # noqa
            oc = "raised %r" % (e,)
        seq = prog.made[0].seq if prog.made else []
        d = py_wf(seq)
        tot = sum(e[2][1] for e in seq if e[0] == "total" and e[1] == "run")
        done = sum(1 for e in seq if e[0] == "completed" and e[1] == "run")
        ctx.case(("c15-transform", how))
        if d or oc != "returned" or tot != done:
            ctx.fail("transform:account", "transform_physical (%s): %s; run %s; totals announced %d, completed %d" % (how, d or "well-formed", oc, tot, done),
                     {"transform": how, "notifications": [repr(e) for e in seq[:40]]})
    # (e) a call that fails with an unusual exception object (falsy, unhashable, with a raising __str__) is still reported
    # failed exactly once and the account is closed
    import dataclasses

    class FalsyError(Exception):
        def __bool__(self):
            return False

        def __len__(self):
            return 0

    @dataclasses.dataclass(eq=True)
    class DataError(Exception):          # eq without hash: unhashable exception objects
        rows: list

    class BadStr(Exception):
        def __str__(self):
            raise RuntimeError("str of the exception fails")
    # ... and so is a call that fails with one of the library's OWN exception types: a nested uberjob.run that failed (CallError),
    # a HasACycle from building / running an inner plan
    import networkx as _nx

    def inner_failing_run():
        ip = uberjob.Plan()
        uberjob.run(ip, output=ip.call(lambda: 1 // 0), progress=None)

    def nested_call_error():
        try:
            inner_failing_run()
        except uberjob.CallError as e:
            return e
    NESTED = "a nested uberjob.run fails inside the call"
    for exc in (FalsyError("f"), DataError([1]), BadStr("b"), nested_call_error(), _nx.HasACycle("inner"), NESTED):
        for workers, max_errors in ((1, 0), (3, None)):
            def bad(exc=exc):
                if exc is NESTED:
                    inner_failing_run()
                raise exc
            plan = uberjob.Plan()
            with plan.scope("bad"):
                b_ = plan.call(bad)
            g_ = plan.call(lambda: 1)
            prog = RecProgress()
            try:
                uberjob.run(plan, output=[b_, g_], progress=prog, max_workers=workers, max_errors=max_errors)
                oc = "returned"
            except uberjob.CallError as e:
                oc = "callerror" if (e.__cause__ is exc or (exc is NESTED and isinstance(e.__cause__, uberjob.CallError))) else "callerror with another cause"
            except BaseException as e:      # noqa
                oc = "raised %s" % type(e).__name__
            seq = prog.made[0].seq if prog.made else []
            d = py_wf(seq)
            nfailed = sum(1 for e in seq if e[0] == "failed")
            ctx.case(("c15-unusual-exception", exc if exc is NESTED else type(exc).__name__, workers, max_errors))
            if d or nfailed != 1 or oc != "callerror":
                ctx.fail("unusual-exception:account", "a call raising a %s object: %s; %d failed notification(s); run %s"
                         % (exc if exc is NESTED else type(exc).__name__, d or "account well-formed", nfailed, oc), {"exception": exc if exc is NESTED else type(exc).__name__, "max_workers": workers,
                                                                                      "notifications": [repr(e) for e in seq[:30]]})
    # (h) registry runs over plans with the less usual kinds of node: a zero-argument call WITHOUT a store (a source of the plan that is not
    # in the registry), a registered literal, a registered literal whose store cannot report its modified time.  The account is
    # well-formed; after a successful run completed = total in every scope of both sections, and the 'stale' totals count the calls examined
    import datetime as _dt

    class MemH(uberjob.ValueStore):
        def __init__(self, fail_mtime=False):
            self.v, self.t, self.fail_mtime = None, None, fail_mtime

        def read(self):
            return self.v

        def write(self, v):
            self.v, self.t = v, _dt.datetime(2021, 1, 1)

        def get_modified_time(self):
            if self.fail_mtime:
                raise OSError("cannot stat")
            return self.t
    far = [("None", None), ("tomorrow (naive local)", _dt.datetime.now() + _dt.timedelta(days=1)), ("datetime.max", _dt.datetime.max),
           ("tomorrow (aware UTC)", _dt.datetime.now(_dt.timezone.utc) + _dt.timedelta(days=1)), ("a past time", _dt.datetime(2001, 1, 1))]
    for shape, (fresh_name, fresh_time) in [(sh, far[0]) for sh in ("unstored zero-argument call", "registered literal", "registered literal, failing modified time")] + \
            [("unstored zero-argument call", f) for f in far[1:]]:
        for workers in (1, 3):
            plan, reg = uberjob.Plan(), uberjob.Registry()
            with plan.scope("prep"):
                seed = plan.call(lambda: 1)
            if shape == "unstored zero-argument call":
                feed = seed
            else:
                feed = plan.lit(5)
                reg.add(feed, MemH(fail_mtime=shape.endswith("failing modified time")))
                if not shape.endswith("failing modified time"):
                    reg.mapping[feed].value_store.write(5)
            with plan.scope("main"):
                mid = plan.call(lambda a, b: a + b, feed, seed)
                top = plan.call(lambda v: v * 2, mid)
            reg.add(mid, MemH())
            prog = RecProgress()
            try:
                res = uberjob.run(plan, registry=reg, output=top, progress=prog, max_workers=workers, fresh_time=fresh_time)
                oc = "returned"
            except BaseException as e:      # noqa
                oc = "raised %s" % type(e).__name__
            seq = prog.made[0].seq if prog.made else []
            d = py_wf(seq)
            ctx.case(("c15-registry-shapes", shape, workers, fresh_name))
            problems = [d] if d else []
            if oc == "returned":
                tot, fin, ran = collections.Counter(), collections.Counter(), collections.Counter()
                for kind, section, payload in seq:
                    if kind == "total":
                        tot[(section, payload[0])] += payload[1]
                    elif kind == "completed":
                        fin[(section, payload)] += 1
                    elif kind == "running":
                        ran[section] += 1
                if tot != fin:
                    problems.append("after the successful run completed differs from total: totals %r, completed %r" % (dict(tot), dict(fin)))
                stale_total = sum(v for (sec, _), v in tot.items() if sec == "stale")
                if stale_total != 3 or ran["stale"] != 3:
                    problems.append("the plan has 3 calls: 'stale' totals sum to %d and %d were reported running in the stale check" % (stale_total, ran["stale"]))
            elif not shape.endswith("failing modified time"):
                problems.append("run %s" % oc)
            if problems:
                ctx.fail("registry-shapes:account", "registry run over a plan with %s (max_workers=%d, fresh_time=%s): %s" % (shape, workers, fresh_name, "; ".join(problems)),
                         {"shape": shape, "max_workers": workers, "fresh_time": fresh_name, "outcome": oc, "notifications": [repr(e) for e in seq[:40]]})
    # (g) an observer is an ordinary object: it may define __len__ / __bool__ (a recorder that reports how many events it holds)
    # and be falsy - it still receives the whole account
    for falsy_by in ("__bool__", "__len__"):
        class FalsyRec(Rec):
            pass
        if falsy_by == "__bool__":
            FalsyRec.__bool__ = lambda self: False
        else:
            FalsyRec.__len__ = lambda self: 0

        class FalsyProgress(Progress):
            def __init__(self):
                self.made = []

            def observer(self):
                return FalsyRec(self.made)
        for with_registry in (False, True):
            plan = uberjob.Plan()
            x_ = plan.call(lambda: 1)
            y_ = plan.call(lambda v: v + 1, x_)
            reg_ = uberjob.Registry()
            if with_registry:
                class M(uberjob.ValueStore):
                    v, t = None, None

                    def read(self):
                        return self.v

                    def write(self, v):
                        self.v, self.t = v, dt.datetime(2021, 1, 1)

                    def get_modified_time(self):
                        return self.t
                reg_.add(x_, M())
            prog = FalsyProgress()
            uberjob.run(plan, output=y_, registry=reg_ if with_registry else None, progress=prog, max_workers=2)
            seq = prog.made[0].seq if prog.made else []
            d = py_wf(seq)
            tot = sum(e[2][1] for e in seq if e[0] == "total" and e[1] == "run")
            done = sum(1 for e in seq if e[0] == "completed" and e[1] == "run")
            ctx.case(("c15-falsy-observer", falsy_by, with_registry))
            if d or tot != done or tot == 0:
                ctx.fail("falsy-observer", "an observer object that is falsy (defines %s): %s; run totals %d, completed %d" % (falsy_by, d or "account well-formed", tot, done),
                         {"falsy_by": falsy_by, "registry": with_registry, "notifications": [repr(e) for e in seq[:30]]})
    # (i) a value store is an ordinary object too: an in-memory / history store that defines __len__ or __bool__ is falsy while it is
    # empty - the account (stale section and run section, scopes with the store's class) stays well-formed and closed
    for falsy_by in ("__bool__", "__len__"):
        for workers in (1, 4):
            class FalsyStore(uberjob.ValueStore):
                def __init__(self):
                    self.items = []

                def read(self):
                    return self.items[-1][0]

                def write(self, v):
                    self.items.append((v, dt.datetime(2021, 1, 1) + dt.timedelta(seconds=len(self.items))))

                def get_modified_time(self):
                    return self.items[-1][1] if self.items else None
            if falsy_by == "__bool__":
                FalsyStore.__bool__ = lambda self: bool(self.items)
            else:
                FalsyStore.__len__ = lambda self: len(self.items)
            plan = uberjob.Plan()
            reg_ = uberjob.Registry()
            with plan.scope("stage"):
                one = plan.call(lambda: 1)
                two = plan.call(lambda v: v + 1, one)
                three = plan.call(lambda v: v + 1, two)
            reg_.add(one, FalsyStore())
            reg_.add(two, FalsyStore())
            for rnd in ("first run", "repeated run"):
                prog = RecProgress()
                try:
                    uberjob.run(plan, output=three, registry=reg_, progress=prog, max_workers=workers)
                    oc = None
                except BaseException as e:      # noqa
                    oc = "run raised %s: %r" % (type(e).__name__, getattr(e, "__cause__", None))
                seq = prog.made[0].seq if prog.made else []
                d = oc or py_wf(seq)
                ctx.case(("c15-falsy-store", falsy_by, workers, rnd))
                tots, dones = collections.Counter(), collections.Counter()
                for e in seq:
                    if e[0] == "total":
                        tots[(e[1], e[2][0])] += e[2][1]
                    elif e[0] == "completed":
                        dones[(e[1], e[2])] += 1
                if d or tots != dones:
                    ctx.fail("falsy-store", "value stores that are falsy while empty (define %s), %s, max_workers=%d: %s; totals %r, completed %r"
                             % (falsy_by, rnd, workers, d or "completed differs from the announced totals after a successful run", dict(tots), dict(dones)),
                             {"falsy_by": falsy_by, "max_workers": workers, "round": rnd, "notifications": [repr(e) for e in seq[:40]]})
    # (j) a plan with Registry.source placeholders run WITHOUT its registry (the forgotten registry=...): the placeholder call fails with
    # NotTransformedError like any failing call - reported failed, nothing left running when run raises
    for workers in (1, 4):
        for form in ("single", "composite"):
            plan = uberjob.Plan()
            reg_ = uberjob.Registry()
            with plan.scope("inputs"):
                src_ = reg_.source(plan, uberjob.stores.LiteralSource(5, dt.datetime(2020, 1, 1)))
            y_ = plan.call(lambda v: v + 1, src_)
            z_ = plan.call(lambda: 7)
            prog, other = RecProgress(), RecProgress()
            try:
                uberjob.run(plan, output=[y_, z_], progress=prog if form == "single" else composite_progress(prog, other), max_workers=workers, max_errors=None)
                oc = "returned"
            except uberjob.CallError as e:
                oc = "callerror"
            except BaseException as e:      # noqa
                oc = "raised %s" % type(e).__name__
            ctx.case(("c15-forgotten-registry", workers, form))
            for o in prog.made + (other.made if form == "composite" else []):
                d = py_wf(o.seq)
                if d or oc != "callerror" or not any(e[0] == "failed" for e in o.seq):
                    ctx.fail("forgotten-registry", "a plan with a Registry.source placeholder run without its registry (max_workers=%d, %s observer): run %s; %s"
                             % (workers, form, oc, d or "no failed notification for the placeholder call"), {"max_workers": workers, "form": form, "notifications": [repr(e) for e in o.seq[:30]]})
                    break
    # (h) a member whose class derives from the library's NullProgressObserver (a natural base for a failures-only logger)
    from uberjob.progress._null_progress_observer import NullProgressObserver

    class FromNull(NullProgressObserver):
        def __init__(self):
            self.seq = []

        def __enter__(self):
            self.seq.append(("enter", None, None))

        def __exit__(self, *a):
            self.seq.append(("exit", None, None))

        def increment_total(self, *, section, scope, amount):
            self.seq.append(("total", section, (scope, amount)))

        def increment_running(self, *, section, scope):
            self.seq.append(("running", section, scope))

        def increment_completed(self, *, section, scope):
            self.seq.append(("completed", section, scope))

        def increment_failed(self, *, section, scope, exception):
            self.seq.append(("failed", section, scope))
    for form in ("list", "composite", "nested"):
        made = []

        def factory():
            o = FromNull()
            made.append(o)
            return o
        pn, other = Progress(factory), RecProgress()
        arg = [other, pn] if form == "list" else composite_progress(pn, other) if form == "composite" else composite_progress(composite_progress(pn), other)
        plan = uberjob.Plan()
        x_ = plan.call(lambda: 1)
        uberjob.run(plan, output=x_, progress=arg, max_workers=1)
        ctx.case(("c15-null-subclass-member", form))
        d = py_wf(made[0].seq) if made else "no observer was created"
        if d or not any(e[0] == "completed" for e in made[0].seq):
            ctx.fail("null-subclass-member", "a composite member derived from NullProgressObserver (%s): %s; it received %r" % (form, d or "no completed notification", made[0].seq if made else None),
                     {"form": form})
    # (f) the same Progress listed twice takes part twice
    for form in ("[p, p]", "(p, q, p)"):
        p_, q_ = RecProgress(), RecProgress()
        arg = [p_, p_] if form == "[p, p]" else (p_, q_, p_)
        plan = uberjob.Plan()
        x_ = plan.call(lambda: 1)
        uberjob.run(plan, output=x_, progress=arg, max_workers=1)
        ctx.case(("c15-repeated-member", form))
        bad_ = [len(p_.made) != 2] + [py_wf(o.seq) for o in p_.made + q_.made]
        if any(bad_):
            ctx.fail("repeated-member", "run(progress=%s): the Progress listed twice created %d observer(s); accounts: %r" % (form, len(p_.made), bad_[1:]),
                     {"form": form})
    # (d) Ctrl-C while a call is in flight: the account is still closed when run raises - the in-flight call's completion is
    # reported BEFORE the observer is exited, nothing is reported afterwards
    import signal
    import time
    for workers in (1, 3):
        release = threading.Event()

        def slow():
            time.sleep(0.15)
            signal.pthread_kill(threading.main_thread().ident, signal.SIGINT)
            release.wait(5)
            time.sleep(0.3)
            return 1
        plan = uberjob.Plan()
        a = plan.call(slow)
        b = plan.call(lambda v: v, a)
        prog = RecProgress()
        timer = threading.Timer(0.6, release.set)
        timer.start()
        try:
            try:
                uberjob.run(plan, output=b, progress=prog, max_workers=workers)
                oc = "returned"
            except KeyboardInterrupt:
                oc = "interrupted"
        except KeyboardInterrupt:
            oc = "interrupted-late"
        at_raise = len(prog.made[0].seq) if prog.made else 0
        time.sleep(0.8)
        timer.cancel()
        seq = prog.made[0].seq if prog.made else []
        d = py_wf(seq[:at_raise])
        ctx.case(("c15-interrupt", workers))
        ctx.count("c15_interrupt_outcome", oc)
        if oc == "interrupted" and (d or len(seq) != at_raise):
            ctx.fail("interrupt:account", "Ctrl-C during a call: when run raised, the observer's account was: %s; %d notification(s) arrived after run had raised: %r"
                     % (d or "well-formed", len(seq) - at_raise, seq[at_raise:][:4]), {"max_workers": workers, "notifications": [repr(e) for e in seq[:30]]})
    # (b)
    for form in ("composite", "nested-composite", "list"):
        members = [RecProgress(), RecProgress()]
        if form == "composite":
            prog = composite_progress(*members)
        elif form == "nested-composite":
            prog = composite_progress(composite_progress(members[0]), members[1])
        else:
            prog = list(members)
        plan = uberjob.Plan()
        x = plan.call(lambda: 1)
        y = plan.call(lambda v: v + 1, x)
        for k in range(3):
            uberjob.run(plan, output=y, progress=prog, max_workers=1)
            ctx.case(("c15-reuse", form, k))
            for mi, m in enumerate(members):
                bad = None
                if len(m.made) != k + 1:
                    bad = "%d observers were created by member %d's Progress for %d runs" % (len(m.made), mi, k + 1)
                else:
                    d = py_wf(m.made[k].seq)
                    if d:
                        bad = "run %d, member %d: %s" % (k + 1, mi, d)
                    elif sum(1 for e in m.made[k].seq if e[0] == "completed") != 2:
                        bad = "run %d, member %d saw %d completed for 2 calls" % (k + 1, mi, sum(1 for e in m.made[k].seq if e[0] == "completed"))
                if bad:
                    ctx.fail("reuse:" + form, "a Progress (%s) reused for several runs: %s" % (form, bad), {"form": form, "run": k + 1})
                    break


def run(ctx):
    fqn_monitor(ctx, core.use_repo())
    extra(ctx, core.use_repo())
    uberjob = core.use_repo()
    import uberjob.progress  # noqa
    from uberjob._util import fully_qualified_name
    from uberjob.graph import Call
    import uberjob._transformations.caching as caching
    import uberjob._execution.run_physical as run_physical

    Recorder, MemA, MemB = make_classes(uberjob)
    mod = __name__
    own = {f_a: mod + ".f_a", f_b: mod + ".f_b", f_c: mod + ".f_c"}
    for cls in (MemA, MemB):
        own[cls] = "%s.%s" % (mod, cls.__qualname__)
        own[cls.read] = "%s.%s" % (mod, cls.read.__qualname__)
        own[cls.write] = "%s.%s" % (mod, cls.write.__qualname__)

    def fqn(x):
        try:
            if x in own:
                return own[x]
        except TypeError:
            pass
        return fully_qualified_name(x)

    graphs = {}

    def wrap(pass_id, real):
        def run_function_on_graph(graph, fn, **kw):
            graphs[pass_id] = list(graph.nodes())

            def wfn(node):
                tid = threading.get_ident()
                with LOCK:
                    LOG.append(("start", pass_id, node, tid))
                try:
                    fn(node)
                except BaseException:
                    with LOCK:
                        LOG.append(("end", pass_id, node, False, tid))
                    raise
                with LOCK:
                    LOG.append(("end", pass_id, node, True, tid))

            return real(graph, wfn, **kw)
        return run_function_on_graph

    real0, real1 = caching.run_function_on_graph, run_physical.run_function_on_graph
    caching.run_function_on_graph = wrap(0, real0)
    run_physical.run_function_on_graph = wrap(1, real1)
    try:
        _run(ctx, uberjob, Recorder, MemA, MemB, fqn, graphs, Call)
    finally:
        caching.run_function_on_graph, run_physical.run_function_on_graph = real0, real1


SECN = {"stale": 0, "run": 1}
KINDN = {"enter": 0, "total": 1, "running": 2, "completed": 3, "failed": 4, "exit": 5}


def _run(ctx, uberjob, Recorder, MemA, MemB, fqn, graphs, Call):
    rng = ctx.rng
    n_cases = ctx.n(320, 6000)
    terms, meta = [], []
    header = ("From Coq Require Import List Arith ZArith Bool.\nImport ListNotations.\n"
              "From UJ Require Import Obs.Progress Obs.Notify Run.Exec_Notify.\nLocal Open Scope Z_scope.\n")
    for ci in range(n_cases):
        case = gen_case(rng, uberjob, Recorder, MemA, MemB, ci)
        del LOG[:]
        graphs.clear()
        FAIL.clear()
        FAIL.update(case["fail_calls"])
        threads_before = threading.active_count()
        outcome, result = "ok", None
        try:
            result = uberjob.run(case["plan"], registry=case["registry"], output=case["output"], progress=case["progress"], **case["kw"])
        except uberjob.CallError as e:
            outcome = "CallError"
        except Exception as e:  # noqa
            outcome = type(e).__name__
        log = list(LOG)
        ctx.count("outcome", outcome)
        ctx.count("members", "%s/%d%s" % (case["style"], case["m"], "/enter-raises" if any(case["raises"]) else ""))
        ctx.count("workers", case["kw"]["max_workers"])
        ctx.count("registry", case["registry"] is not None and len(case["registry"]) > 0)
        replay = {"case": ci, "seed": ctx.seed, "n_calls": case["n"], "n_sources": case["n_src"], "kw": {k: (v if not callable(v) else "callable") for k, v in case["kw"].items()},
                  "fail_calls": sorted(case["fail_calls"]), "store_fail": case["store_fail"], "members": case["m"], "style": case["style"],
                  "enter_raises": case["raises"], "output": "None" if case["output"] is None else ("node" if not isinstance(case["output"], list) else "list[%d]" % len(case["output"])),
                  "scopes": {str(i): [repr(x) for x in case["meta"][i][1]] + [case["meta"][i][2].__qualname__] for i in case["meta"]}}
        m = case["m"]
        views = {i: [(e[2], e[3], e[4]) for e in log if e[0] == "note" and e[1] == i] for i in range(m)}
        mevs = [e for e in log if e[0] in ("menter", "menter_raised", "mexit")]
        replay["recorded"] = [[k, s, repr(p)] for k, s, p in views[0]][:80]

        # ---- composite discipline
        if any(case["raises"]):
            j = case["raises"].index(True)
            exp = [("menter", i) for i in range(j)] + [("menter_raised", j)] + [("mexit", i) for i in reversed(range(j))]
            if [tuple(e[:2]) for e in mevs] != exp:
                ctx.fail("composite:enter-raises", "a member's __enter__ raised: expected earlier members to be exited in reverse order and nothing else, saw %r" % mevs, replay)
            if outcome != "RuntimeError":
                ctx.fail("composite:enter-raises", "run did not propagate the member's __enter__ exception (%s)" % outcome, replay)
            if any(k not in ("enter", "exit") for i in range(m) for k, _, _ in views[i]):
                ctx.fail("composite:enter-raises", "notifications were delivered although entering the observer failed", replay)
            body_flat = []
            terms.append("exec_composite %s %s" % (core.coq_list(case["raises"], core.coq_bool), "(@nil Z)"))
            meta.append(("composite", ci, [x for e in mevs for x in ({"menter": [0, e[1]], "menter_raised": [1, e[1]], "mexit": [3, e[1]]}[e[0]])], replay))
            ctx.case(("enter-raises", ci, tuple(case["raises"])), sample=None)
            continue
        enters = [e[1] for e in mevs if e[0] == "menter"]
        exits = [e[1] for e in mevs if e[0] == "mexit"]
        if enters != list(range(m)) or exits != list(reversed(range(m))):
            ctx.fail("composite:order", "members entered %r / exited %r, expected in order / in reverse order, each once" % (enters, exits), replay)
        for i in range(1, m):
            if collections.Counter(views[i]) != collections.Counter(views[0]):
                ctx.fail("composite:forward", "member %d did not receive the same notifications as member 0" % i, replay)
            elif case["kw"]["max_workers"] == 1 and views[i] != views[0]:
                ctx.fail("composite:forward", "member %d received the notifications in a different order (single worker)" % i, replay)

        # ---- model-free monitor: well-formedness of what every member saw
        for i in range(m):
            why = py_wf(views[i])
            if why:
                ctx.fail("wf:" + re.sub(r"[^a-z ]", "", why.split("(")[0].lower())[:40].strip().replace(" ", "-"), "member %d: %s" % (i, why), replay)
                break
        if threading.active_count() > threads_before:
            ctx.broke("C15 harness", "threads left running after run returned")

        # ---- engine traces as seen at the notification points of member 0
        cur, traces, started_emitted = {}, {0: [], 1: []}, set()
        eng = {0: [], 1: []}
        bad_attr = None
        for e in log:
            if e[0] == "start":
                _, pid, node, tid = e
                cur[tid] = (pid, node)
                eng[pid].append((node, 0))
                if type(node) is not Call:
                    traces[pid].append((node, 0))
            elif e[0] == "end":
                _, pid, node, ok, tid = e
                eng[pid].append((node, 1 if ok else 2))
                if type(node) is not Call:
                    traces[pid].append((node, 1 if ok else 2))
                cur.pop(tid, None)
            elif e[0] == "note" and e[1] == 0 and e[2] in ("running", "completed", "failed"):
                tid = e[5]
                if tid not in cur:
                    bad_attr = "notification %r outside any engine callback" % (e[2:5],)
                    continue
                pid, node = cur[tid]
                traces[pid].append((node, {"running": 0, "completed": 1, "failed": 2}[e[2]]))
        if bad_attr:
            ctx.broke("C15 attribution of notifications to nodes", bad_attr)
        # hypothesis trace_ok, tested on the engine-level events
        for pid in (0, 1):
            seen_s, seen_e = [], []
            okh = True
            for node, code in eng[pid]:
                if code == 0:
                    okh &= node not in seen_s and node in graphs.get(pid, [])
                    seen_s.append(node)
                else:
                    okh &= node in seen_s and node not in seen_e
                    seen_e.append(node)
            okh &= set(map(id, seen_s)) == set(map(id, seen_e))
            if not okh:
                ctx.broke("hypothesis trace_ok (engine runs each node's callback at most once, start before end, all ended)", {"case": ci, "pass": pid})

        # ---- model input
        reg = case["registry"]
        has_reg = reg is not None and len(reg) > 0
        vals = {}

        def vid(x):
            return vals.setdefault(x, len(vals) + 1)

        def rows(pid, stale):
            ids, out = {}, []
            for node in graphs.get(pid, []):
                ids[node] = len(ids)
                if type(node) is Call:
                    st = reg.get(node) if (stale and reg is not None) else None
                    out.append((ids[node], 2 if st is not None else 1, [vid(x) for x in node.scope], vid(fqn(node.fn)),
                                vid(fqn(type(st))) if st is not None else 0))
                else:
                    out.append((ids[node], 0, [], 0, 0))
            return ids, out

        ids0, lg = rows(0, True)
        physical_known = 1 in graphs
        dry = bool(case["kw"].get("dry_run"))
        if dry and outcome == "ok":
            graphs[1] = list(result[0].graph.nodes())
            physical_known = True
        ids1, ph = rows(1, False)
        stale_failed = any(c == 2 for _, c in traces[0])
        other = (not physical_known) and not (has_reg and stale_failed)
        if other and outcome == "ok":
            ctx.broke("C15 harness", "no physical plan observed on a successful run")

        def crow(r):
            return "(%d, %d, %s, %d, %d)%%nat" % (r[0], r[1], core.coq_list(r[2]) if r[2] else "(@nil nat)", r[3], r[4])

        def ctr(tr, ids):
            return "[" + "; ".join("(%d,%d)" % (ids[n], c) for n, c in tr) + "]%nat" if tr else "(@nil (nat*nat))"

        def clist(rs):
            return "[" + "; ".join(crow(r) for r in rs) + "]" if rs else "(@nil (nat*nat*list nat*nat*nat))"

        try:
            term = "exec_emit %s %s %s %s %s %s %s" % (core.coq_bool(has_reg), clist(lg), ctr(traces[0], ids0), core.coq_bool(other), clist(ph),
                                                     core.coq_bool(dry), ctr(traces[1], ids1))
        except KeyError:
            ctx.broke("C15 harness", "engine event for a node that is not in the pass's graph")
            continue
        # recorded sequence, flat
        flat = []
        for kind, section, payload in views[0]:
            if kind in ("enter", "exit"):
                flat.append(KINDN[kind])
            elif kind == "total":
                sc, amt = payload
                flat += [1, SECN[section], len(sc)] + [vid(x) for x in sc] + [amt]
            else:
                flat += [KINDN[kind], SECN[section], len(payload)] + [vid(x) for x in payload]
        terms.append(term)
        meta.append(("emit", ci, flat, replay))
        terms.append("[if exec_wf_run %s then 1 else 0]" % (core.coq_list(flat, core.coq_Z)))
        meta.append(("wf", ci, py_wf(views[0]) is None, replay))
        if m > 1:
            body = flat[1:-1]
            terms.append("exec_composite %s %s" % (core.coq_list([False] * m, core.coq_bool), core.coq_list(body, core.coq_Z) if body else "(@nil Z)"))
            exp_global = None
            if case["kw"]["max_workers"] == 1:
                exp_global = []
                for e in log:
                    if e[0] == "menter":
                        exp_global += [0, e[1]]
                    elif e[0] == "mexit":
                        exp_global += [3, e[1]]
                    elif e[0] == "note" and e[2] not in ("enter", "exit"):
                        kind, section, payload = e[2], e[3], e[4]
                        if kind == "total":
                            sc, amt = payload
                            exp_global += [2, e[1], 1, SECN[section], len(sc)] + [vid(x) for x in sc] + [amt]
                        else:
                            exp_global += [2, e[1], KINDN[kind], SECN[section], len(payload)] + [vid(x) for x in payload]
            meta.append(("composite-ok", ci, exp_global, replay))

        # ---- success counts, stated directly
        nontrivial = any(k == "running" for k, _, _ in views[0])
        ctx.case((ci, tuple(flat), case["kw"]["max_workers"], m), nontrivial=nontrivial,
                 sample={"recorded": replay["recorded"][:14], "kw": replay["kw"]} if ci in (2, 7) else None)
        execs = [e[1] for e in log if e[0] == "exec"]
        if len(execs) != len(set(execs)):
            ctx.broke("C15 harness", "a call function ran twice")
        started1 = [n for n, c in eng[1] if c == 0 and type(n) is Call]
        node_idx = {id(case["meta"][i][0]): i for i in case["meta"]}
        if sorted(node_idx[id(n)] for n in started1 if id(n) in node_idx) != sorted(execs):
            ctx.broke("C15 harness: executed calls (recorded by the call functions) vs engine callbacks", {"case": ci})
        tot = collections.Counter()
        comp = collections.Counter()
        for kind, section, payload in views[0]:
            if kind == "total":
                tot[(section, payload[0])] += payload[1]
            elif kind == "completed":
                comp[(section, payload)] += 1
        exp_run = collections.Counter()
        for n in started1:
            i = node_idx.get(id(n))
            if i is not None:
                _, sc, fn = case["meta"][i]
                exp_run[("run", tuple(sc) + ("%s.%s" % (__name__, fn.__qualname__),))] += 1
            else:
                exp_run[("run", tuple(n.scope) + (fqn(n.fn),))] += 1
        if outcome == "ok" and not dry:
            if {k: v for k, v in tot.items()} != {k: v for k, v in comp.items()}:
                ctx.fail("success:completed-ne-total", "after a successful run completed != total in some scope: totals %r completed %r" % (dict(tot), dict(comp)), replay)
            got_run = collections.Counter({k: v for k, v in tot.items() if k[0] == "run"})
            if got_run != exp_run:
                ctx.fail("success:run-totals", "run totals %r != calls executed per scope %r" % (dict(got_run), dict(exp_run)), replay)
            if has_reg:
                exp_stale = collections.Counter()
                for n, c in eng[0]:
                    if c == 0 and type(n) is Call:
                        i = node_idx.get(id(n))
                        base = (tuple(case["meta"][i][1]) + ("%s.%s" % (__name__, case["meta"][i][2].__qualname__),)) if i is not None else tuple(n.scope) + (fqn(n.fn),)
                        st = reg.get(n)
                        exp_stale[("stale", base + ((("%s.%s" % (__name__, type(st).__qualname__)),) if st is not None else ()))] += 1
                got_stale = collections.Counter({k: v for k, v in tot.items() if k[0] == "stale"})
                if got_stale != exp_stale:
                    ctx.fail("success:stale-totals", "stale totals %r != calls examined per scope %r" % (dict(got_stale), dict(exp_stale)), replay)

    outs = core.coq_eval(header, terms, ty="list Z", shard=80)
    for mt, o in zip(meta, outs):
        got = [int(x) for x in re.findall(r"-?\d+", o)]
        if mt[0] == "emit":
            _, ci, flat, replay = mt
            ctx.compared("Notify.v emit (given the observed engine traces) vs recorded notifications")
            if got[:3] != [1, 1, 1]:
                ctx.broke("model: wf_run / trace_ok flags on an observed run", {"case": ci, "flags": got[:3]})
            if got[3:] != flat:
                ctx.broke("correspondence Notify.v emit vs recorded sequence", {"case": ci, "model": got[3:][:120], "impl": flat[:120], "kw": replay["kw"]})
        elif mt[0] == "wf":
            ctx.compared("Progress.v wf_run vs the harness's direct monitor on recorded sequences")
            if (got == [1]) != mt[2]:
                ctx.broke("Progress.v wf_run disagrees with the direct monitor", {"case": mt[1], "model": got, "monitor": mt[2]})
        elif mt[0] == "composite":
            ctx.compared("Notify.v composite_run (an enter raises) vs recorded member events")
            if got != mt[2]:
                ctx.broke("correspondence Notify.v composite_run (enter raises)", {"case": mt[1], "model": got, "impl": mt[2]})
        elif mt[0] == "composite-ok":
            ctx.compared("Notify.v composite_run vs recorded member events (global order, single worker)")
            if mt[2] is not None and got != mt[2]:
                ctx.broke("correspondence Notify.v composite_run", {"case": mt[1], "model": got[:80], "impl": mt[2][:80]})


_run_before_api = run


def run(ctx):
    _run_before_api(ctx)
    import translate_progress
    translate_progress.check(ctx)     # State bookkeeping / _do_render compiled from the source and linked to Obs/Progress.v by theorems
    import api_corr
    api_corr.run_api_corr(ctx)
