"""Retry part of C10: real create_retry / uberjob.run(retry=...) vs Engine/Retry.v, plus monitors.

Used by harness/c10.py:  `import retry_corr; retry_corr.run_retry(ctx)`."""
import datetime as dt
import re

import core

RULE_RETRY = ("create_retry(n) for n in {-2,0,1,2,3,4,6} (and exc_type = Exception | KeyError | (KeyError, ValueError)) applied to "
              "flaky functions whose k-th attempt returns, raises an instance of exc_type, or raises another exception: every "
              "'first success at j' / 'other exception at j' / 'all fail' pattern on the (n, j, kind) grid plus random mixes; the "
              "same through uberjob.run(retry=n | decorator) for calls, store reads/writes and modified-time queries")
TRUSTED_BASE_RETRY = ["exceptions are identified by object identity (`is`) of pre-created instances",
                      "Python's `except exc_type` instance test decides retryable vs other; the model receives that classification"]


class OtherBase(BaseException):
    pass


class MyErr(Exception):
    pass


class SubKey(KeyError):
    pass


class FalsyErr(ValueError, KeyError):
    """an exception whose instances are falsy (an empty 'collection of problems'): still an exception that was raised"""
    def __bool__(self):
        return False

    def __len__(self):
        return 0


CONFIGS = {
    # name: (exc_type or None for the default, retryable classes, other classes)
    "default": (None, [ValueError, KeyError, MyErr, FalsyErr, FalsyErr], [OtherBase]),
    "keyerror": (KeyError, [KeyError, SubKey, FalsyErr], [ValueError, LookupError, OtherBase]),
    "tuple": ((KeyError, ValueError), [KeyError, ValueError, SubKey, FalsyErr], [MyErr, OtherBase]),
}


def patterns(n, rng, extra):
    L = max(n, 1) + 1
    out = []
    for j in range(L):
        out.append([1] * j + [0] + [rng.choice([0, 1, 2]) for _ in range(L - j - 1)])
        out.append([1] * j + [2] + [rng.choice([0, 1, 2]) for _ in range(L - j - 1)])
    out.append([1] * L)
    for _ in range(extra):
        out.append([rng.choice([0, 1, 1, 2]) for _ in range(L)])
    return out


class Flaky:
    """k-th call: return a value, or raise the pre-created exception object of that attempt"""

    def __init__(self, codes, cfg, rng):
        _, retry_cls, other_cls = CONFIGS[cfg]
        self.codes = codes
        self.excs = [None if c == 0 else (rng.choice(retry_cls) if c == 1 else rng.choice(other_cls))("attempt %d" % k)
                     for k, c in enumerate(codes)]
        self.count = 0
        self.seen_args = []
        self.__name__ = "flaky"
        self.__qualname__ = "flaky"

    def __call__(self, *args, **kwargs):
        k = self.count
        self.count += 1
        self.seen_args.append((args, dict(kwargs)))
        if k >= len(self.codes):
            return -1
        if self.codes[k] == 0:
            return 7 * k + 1
        raise self.excs[k]

    def model_list(self):
        return "[" + "; ".join("(%d, %d)%%Z" % (c, (7 * k + 1) if c == 0 else 100 + k) for k, c in enumerate(self.codes)) + "]"


def observe(call, flaky):
    """-> [kind, payload, attempts] in the encoding of Exec_Retry.exec_retry"""
    try:
        v = call()
    except BaseException as e:  # noqa
        idx = next((k for k, x in enumerate(flaky.excs) if x is e), None)
        return [1, 100 + idx if idx is not None else -1, flaky.count], e
    return [2 if v is None else 0, 0 if v is None else v, flaky.count], None


def monitors(ctx, n, flaky, res, exc, replay, where):
    kind, payload, count = res
    codes = flaky.codes
    if count > max(n, 0):
        ctx.fail("retry:attempts", "%s: %d attempts with retry=%d" % (where, count, n), replay)
    first_ok = next((k for k, c in enumerate(codes[:max(n, 0)]) if c == 0), None)
    first_stop = next((k for k, c in enumerate(codes[:max(n, 0)]) if c != 1), None)
    if first_ok is not None and first_stop == first_ok:
        if count != first_ok + 1:
            ctx.fail("retry:stops", "%s: first success at attempt %d but %d attempts were made" % (where, first_ok + 1, count), replay)
        if kind != 0 or payload != 7 * first_ok + 1:
            ctx.fail("retry:success", "%s: an eventual success (attempt %d) was not reported as success" % (where, first_ok + 1), replay)
    if n >= 1 and all(c == 1 for c in codes[:n]):
        if exc is not flaky.excs[n - 1]:
            ctx.fail("retry:last-exception", "%s: after %d failed attempts the reported exception is not the last attempt's object" % (where, n), replay)
    for a in flaky.seen_args[1:]:
        if a != flaky.seen_args[0]:
            ctx.fail("retry:args", "%s: attempts were made with different arguments" % where, replay)


def run_retry(ctx):
    import translate_retry
    translate_retry.check(ctx)       # retry.py's create_retry translated to Gallina and linked to Engine/Retry.v by a theorem
    uberjob = core.use_repo()
    from uberjob._util.retry import create_retry, identity
    from uberjob._run import _coerce_retry

    rng = ctx.rng
    terms, meta = [], []
    header = ("From Coq Require Import List Arith ZArith Bool.\nImport ListNotations.\n"
              "From UJ Require Import Engine.Retry Run.Exec_Retry.\nLocal Open Scope Z_scope.\n")

    # ---- create_retry directly
    for n in (-2, 0, 1, 2, 3, 4, 6):
        for cfg in CONFIGS:
            for codes in patterns(n, rng, ctx.n(3, 40)):
                flaky = Flaky(codes, cfg, rng)
                exc_type = CONFIGS[cfg][0]
                replay = {"where": "create_retry", "attempts": n, "exc_type": cfg, "outcomes": codes}
                try:
                    dec = create_retry(n) if exc_type is None else create_retry(n, exc_type)
                except ValueError:
                    res, exc = [3, 0, 0], None
                    if n >= 1:
                        ctx.fail("retry:valueerror", "create_retry(%d) raised ValueError" % n, replay)
                else:
                    if n < 1:
                        ctx.fail("retry:valueerror", "create_retry(%d) did not raise ValueError" % n, replay)
                    wrapped = dec(flaky)
                    if n == 1 and not (dec is identity and wrapped is flaky):
                        ctx.fail("retry:identity", "create_retry(1) is not the identity decorator", replay)
                    if n > 1 and getattr(wrapped, "__wrapped__", None) is not flaky:
                        ctx.broke("retry sentinel", "wrapper does not carry __wrapped__ (functools.wraps)")
                    res, exc = observe(lambda: wrapped(1, "x", key=("k", n)), flaky)
                    if n == 1:
                        # identity: the model's retryable/other split is irrelevant, the attempt's outcome comes back unchanged
                        pass
                    monitors(ctx, n if n != 1 else 1, flaky, res, exc, replay, "create_retry(%d, %s)" % (n, cfg))
                ctx.case(("direct", n, cfg, tuple(codes)), nontrivial=n >= 1)
                ctx.count("retry-attempts-param", n)
                ctx.count("retry-outcome-kind", {0: "value", 1: "raised", 2: "None", 3: "ValueError"}[res[0]])
                terms.append("exec_retry (%d) %s" % (n, flaky.model_list()))
                meta.append(("direct", res, replay))

    # ---- _coerce_retry
    for r, want in ((None, 1), (1, 1), (3, 3)):
        dec = _coerce_retry(r)
        f = Flaky([1] * 5, "default", rng)
        res, _ = observe(lambda: dec(f)(), f)
        if res[2] != want:
            ctx.fail("retry:coerce", "_coerce_retry(%r) made %d attempts, expected %d" % (r, res[2], want), {"retry": repr(r)})
        ctx.case(("coerce", r))
    marker = lambda fn: fn  # noqa
    if _coerce_retry(marker) is not marker:
        ctx.fail("retry:coerce", "_coerce_retry(callable) does not return the callable itself", {"retry": "callable"})

    # ---- through uberjob.run: calls
    for n in (1, 2, 3, 5):
        for cfg, dec_kind in (("default", "int"), ("keyerror", "decorator"), ("tuple", "decorator")):
            for codes in patterns(n, rng, ctx.n(1, 10)):
                flaky = Flaky(codes, cfg, rng)
                retry = n if dec_kind == "int" else create_retry(n, CONFIGS[cfg][0])
                plan = uberjob.Plan()
                node = plan.call(flaky, 1, "x", key=("k", n))
                replay = {"where": "uberjob.run call", "attempts": n, "exc_type": cfg, "outcomes": codes, "retry": dec_kind}

                def go():
                    try:
                        return uberjob.run(plan, output=node, retry=retry, progress=None, max_workers=1)
                    except uberjob.CallError as e:
                        raise e.__cause__
                res, exc = observe(go, flaky)
                monitors(ctx, n, flaky, res, exc, replay, "run(retry=%s)" % (n if dec_kind == "int" else "create_retry(%d, %s)" % (n, cfg)))
                ctx.case(("run-call", n, cfg, tuple(codes)))
                terms.append("exec_retry (%d) %s" % (n, flaky.model_list()))
                meta.append(("run-call", res, replay))

    # ---- through uberjob.run: store operations and modified-time queries
    class FlakyStore(uberjob.ValueStore):
        def __init__(self, plans):
            self.f = {op: Flaky(plans.get(op, [0] * 8), "default", rng) for op in ("read", "write", "mtime")}
            self.value, self.mtime = None, None

        def read(self):
            self.f["read"]()
            return self.value

        def write(self, value):
            self.f["write"]()
            self.value, self.mtime = value, dt.datetime(2022, 1, 1)

        def get_modified_time(self):
            self.f["mtime"]()
            return self.mtime

    for n in (1, 2, 4):
        for op in ("mtime", "write", "read"):
            for j in range(0, n + 2):
                codes = [1] * j + [0] * 8
                store = FlakyStore({op: codes})
                plan, reg = uberjob.Plan(), uberjob.Registry()
                a = plan.call(lambda: 5)
                reg.add(a, store)
                b = plan.call(lambda x: x + 1, a)
                replay = {"where": "uberjob.run store." + op, "attempts": n, "failing_first": j}
                flaky = store.f[op]

                def go():
                    try:
                        uberjob.run(plan, registry=reg, output=b, retry=n, progress=None, max_workers=1)
                        return 7 * (flaky.count - 1) + 1
                    except uberjob.CallError as e:
                        raise e.__cause__
                res, exc = observe(go, flaky)
                monitors(ctx, n, flaky, res, exc, replay, "run(retry=%d) %s" % (n, op))
                for other in ("mtime", "write", "read"):
                    if other != op and store.f[other].count > 1:
                        ctx.fail("retry:attempts", "store.%s attempted %d times although it never failed" % (other, store.f[other].count), replay)
                ctx.case(("run-store", n, op, j))
                terms.append("exec_retry (%d) %s" % (n, flaky.model_list()))
                meta.append(("run-store", res, replay))

    # ---- a custom retry decorator is applied once per executed call / store operation: a decorator that keeps its attempt
    # budget in the closure it creates per decoration gives EVERY call its own n attempts, also when several calls share
    # one function and several stores one class
    def budget_retry(n, log):
        def dec(fn):
            state = {"left": n}
            log.append(fn)

            def wrapper(*a, **k):
                while True:
                    state["left"] -= 1
                    try:
                        return fn(*a, **k)
                    except OSError:
                        if state["left"] <= 0:
                            raise
            return wrapper
        return dec

    for n in (2, 3):
        for workers in (1, 3):
            attempts = {}

            def flaky_fn(key):
                attempts[key] = attempts.get(key, 0) + 1
                if attempts[key] < n:
                    raise OSError("transient %r" % (key,))
                return key

            class BStore(uberjob.ValueStore):
                def __init__(self, key):
                    self.key, self.v, self.t = key, None, None

                def read(self):
                    flaky_fn(("read", self.key))
                    return self.v

                def write(self, v):
                    flaky_fn(("write", self.key))
                    self.v, self.t = v, dt.datetime(2022, 1, 1)

                def get_modified_time(self):
                    return self.t
            plan, reg = uberjob.Plan(), uberjob.Registry()
            nodes = [plan.call(flaky_fn, i) for i in range(4)]
            for i in (0, 1):
                reg.add(nodes[i], BStore(i))
            out = plan.call(lambda *a: list(a), *nodes)
            log = []
            replay = {"where": "uberjob.run, per-decoration budget", "attempts": n, "max_workers": workers}
            try:
                got = uberjob.run(plan, registry=reg, output=out, retry=budget_retry(n, log), progress=None, max_workers=workers)
                bad = {k: v for k, v in attempts.items() if v != n}
                if got != [0, 1, 2, 3] or bad:
                    ctx.fail("retry:per-call", "with a retry decorator allowing %d attempts per decoration, attempts per call/operation were %r (each needs exactly %d)"
                             % (n, attempts, n), replay)
            except uberjob.CallError as e:
                ctx.fail("retry:per-call", "with a retry decorator allowing %d attempts per decoration, a call that succeeds on attempt %d was reported failed (%r); attempts %r"
                         % (n, n, e.__cause__, attempts), replay)
            ctx.case(("retry-per-decoration", n, workers))

    # ---- a custom retry decorator may be any callable OBJECT - also one that is falsy (a policy object with __len__ == 0):
    # it is used for calls and store operations exactly as for modified-time queries
    class Policy:
        def __init__(self, n):
            self.n, self.decorated = n, 0

        def __len__(self):
            return 0

        def __call__(self, fn):
            self.decorated += 1

            def w(*a, **k):
                for i in range(self.n):
                    try:
                        return fn(*a, **k)
                    except OSError:
                        if i == self.n - 1:
                            raise
            return w
    for where in ("call", "store-write", "mtime"):
        pol = Policy(3)
        att = {"n": 0}

        def flaky_once(*a):
            att["n"] += 1
            if att["n"] < 2:
                raise OSError("transient")
            return 5

        class PStore(uberjob.ValueStore):
            v, t = None, None

            def read(self):
                return self.v

            def write(self, v):
                if where == "store-write":
                    flaky_once()
                self.v, self.t = v, dt.datetime(2022, 1, 1)

            def get_modified_time(self):
                if where == "mtime":
                    flaky_once()
                return self.t
        plan, reg = uberjob.Plan(), uberjob.Registry()
        x = plan.call(flaky_once) if where == "call" else plan.call(lambda: 5)
        reg.add(x, PStore())
        ctx.case(("retry-falsy-decorator", where))
        try:
            got = uberjob.run(plan, registry=reg, output=x, retry=pol, progress=None, max_workers=1)
            oc = "ok" if got == 5 else "returned %r" % (got,)
        except uberjob.CallError as e:
            oc = "failed with %r after %d attempt(s)" % (e.__cause__, att["n"])
        if oc != "ok":
            ctx.fail("retry:falsy-decorator", "run(retry=<callable policy object that is falsy>, 3 attempts), a %s that fails once: run %s (the decorator was applied %d time(s))"
                     % (where, oc, pol.decorated), {"where": where, "attempts_made": att["n"]})

    # ---- the library's own helper calls (unpack, the implicit gathers) are calls too: a transient failure while iterating or
    # hashing a user value is retried
    class FlakyIterable:
        def __init__(self, fails):
            self.left = fails

        def __iter__(self):
            if self.left > 0:
                self.left -= 1
                raise ConnectionError("transient")
            return iter((1, 2))

    class FlakyHash:
        def __init__(self, fails):
            self.left = fails

        def __hash__(self):
            if self.left > 0:
                self.left -= 1
                raise ConnectionError("transient")
            return 7

        def __eq__(self, o):
            return self is o
    for n in (2, 3):
        for fails in (1, n - 1, n):
            for kind in ("unpack", "gather-set", "gather-dict-key"):
                plan = uberjob.Plan()
                if kind == "unpack":
                    src = plan.call(lambda f=fails: FlakyIterable(f))
                    a, b = plan.unpack(src, 2)
                    out = plan.call(lambda x, y: x + y, a, b)
                elif kind == "gather-set":
                    k = plan.call(lambda f=fails: FlakyHash(f))
                    out = plan.call(len, {k})
                else:
                    k = plan.call(lambda f=fails: FlakyHash(f))
                    out = plan.call(len, {k: 1})
                replay = {"where": "uberjob.run helper call " + kind, "attempts": n, "transient_failures": fails}
                try:
                    uberjob.run(plan, output=out, retry=n, progress=None, max_workers=1)
                    oc = "ok"
                except uberjob.CallError as e:
                    oc = "failed: %r" % (e.__cause__,)
                ctx.case(("retry-helper", n, fails, kind))
                if (oc == "ok") != (fails < n):
                    ctx.fail("retry:helper-call", "retry=%d, a %s whose input fails %d time(s) before succeeding: run %s" % (n, kind, fails, oc), replay)

    outs = core.coq_eval(header, terms, ty="list Z", shard=300, tag="retry")
    for (where, res, replay), o in zip(meta, outs):
        got = [int(x) for x in re.findall(r"-?\d+", o)]
        ctx.compared("Engine/Retry.v retry_call vs create_retry (%s)" % where)
        if got != res:
            ctx.broke("correspondence Engine/Retry.v vs create_retry (%s)" % where, {"model": got, "impl": res, "case": replay})
