"""Registry / value-store machinery: worlds (plan + registry + in-memory logical-clock stores), histories,
the L1 model comparison (Cache/Logical.v) and the model-free monitors for C03/C05/C08/C09/C14."""
import datetime as dt
import re
import time
import threading

import core

HEADER = ("From Coq Require Import List Arith ZArith Bool.\nImport ListNotations.\n"
          "From UJ Require Import Cache.Logical Run.Exec_Cache.\nLocal Open Scope Z_scope.\n")
EPOCH = dt.datetime(2001, 1, 1)
MOD = 1000000007


def Fconc(f, xs):
    a = 7
    for x in xs:
        a = (a * 31 + x) % MOD
    return (f * 1000003 + a) % MOD


HANG_TIMEOUT = 40


class InjectedFault(Exception):
    pass


class FalsyInjectedFault(InjectedFault):
    """a raised exception object that is falsy (e.g. an empty collection of rejected rows) is still a failure"""
    def __bool__(self):
        return False

    def __len__(self):
        return 0


class WorldLost(Exception):
    """the world's run hung (threads still alive): the world cannot be used any further"""


class InjectedHardFault(BaseException):
    """a cut that is not an Exception (SystemExit-like)"""


class World:
    """A plan with a registry over in-memory stores that share one strictly increasing logical clock."""

    def __init__(self, uberjob, rng, maxn=9, writers=False, normalising=False, spec=None):
        self.uj = uberjob
        self.rng = rng
        self.lock = threading.Lock()
        self.clock = 0
        self.log = []            # (kind, id, extra) in global order
        self.fault_at = None     # inject InjectedFault at the k-th operation
        self.fault_hard = False
        self.fault_falsy = False
        self.fault_fired = False
        self.opcount = 0
        self.normalising = normalising
        self.slow_writes = 0
        self.plan = uberjob.Plan()
        self.reg = uberjob.Registry()
        self.nodes = []          # uberjob nodes in creation (= topological) order
        self.meta = []           # dict(kind=call|lit|source, fn, litv, args, deps, store, is_src, writer_of)
        self.stores = []
        self.spec = spec
        # in some worlds all stores are instances of ONE class, print alike and compare equal (a store is identified by the object,
        # never by its class, repr, == or hash)
        self.lookalike_stores = rng.random() < 0.3
        self._store_cls = None
        self._build(maxn, writers)

    # ---- stores
    def _mkstore(self):
        w = self
        if self._store_cls is not None:
            st = self._store_cls()
            self.stores.append(st)
            return st

        class MemStore(w.uj.ValueStore):
            def __init__(s):
                s.sid = len(w.stores)
                s.v = None
                s.t = None

            def read(s):
                w.op("read", s.sid)
                if s.t is None:
                    raise KeyError("store %d is empty" % s.sid)
                return ("read", s.v) if w.normalising else s.v

            def write(s, v):
                w.op("write-begin", s.sid)
                if w.slow_writes:
                    import time
                    time.sleep(w.slow_writes)      # widen the window between a call's return and its store write taking effect
                with w.lock:
                    w.clock += 2
                    s.v, s.t = v, w.clock
                w.op("write", s.sid)

            def get_modified_time(s):
                w.op("mtime", s.sid)
                return None if s.t is None else EPOCH + dt.timedelta(seconds=s.t)

            def __len__(s):
                # a value store is an ordinary object: it may define __len__ / __bool__ (e.g. number of rows it holds) and
                # thereby be falsy; every third store is "empty" in this sense
                return 0 if s.sid % 3 == 1 else 1

            def __repr__(s):
                return "MemStore()" if w.lookalike_stores else "MemStore(%d)" % s.sid

            def __eq__(s, other):
                return (type(other) is type(s)) if w.lookalike_stores else s is other

            def __hash__(s):
                return 7 if w.lookalike_stores else id(s) >> 4
        if self.lookalike_stores:
            self._store_cls = MemStore
        st = MemStore()
        self.stores.append(st)
        return st

    def op(self, kind, ident, extra=None):
        with self.lock:
            self.opcount += 1
            k = self.opcount
            self.log.append((kind, ident, extra))
        if self.fault_at is not None and k == self.fault_at:
            self.fault_fired = True
            if self.fault_hard:
                raise InjectedHardFault("hard fault at operation %d (%s %s)" % (k, kind, ident))
            raise (FalsyInjectedFault if self.fault_falsy else InjectedFault)("fault at operation %d (%s %s)" % (k, kind, ident))

    def set_store(self, sid, v):
        with self.lock:
            self.clock += 2
            self.stores[sid].v, self.stores[sid].t = v, self.clock

    # ---- plan
    def _build(self, maxn, writers):
        rng, plan, reg = self.rng, self.plan, self.reg
        if self.spec is not None:
            return self._build_spec(self.spec)
        n = rng.randrange(1, maxn + 1)
        forced = {}
        if writers:
            n = max(n, 4)
            k = rng.randrange(1, n - 2)
            forced = {k: "writer", k + 1: "dsource"}
        to_add = []
        for i in range(n):
            r = rng.random()
            earlier = list(range(i))
            deps = []
            if earlier and rng.random() < 0.3:
                deps = rng.sample(earlier, rng.randrange(1, min(2, len(earlier)) + 1))
            if forced.get(i) == "writer":
                r = 0.99
            if forced.get(i) == "dsource":
                st = self._mkstore()
                node = reg.source(plan, st)
                deps = [i - 1]
                m = dict(kind="source", fn=0, litv=0, args=[], deps=deps, store=st.sid, is_src=True)
                self.set_store(st.sid, rng.randrange(1, 1000))
            elif r < 0.2 or i == 0:
                st = self._mkstore()
                node = reg.source(plan, st)
                if rng.random() < 0.7:
                    deps = []          # pure source
                m = dict(kind="source", fn=0, litv=0, args=[], deps=deps, store=st.sid, is_src=True)
                if rng.random() < 0.9:
                    self.set_store(st.sid, rng.randrange(1, 1000))
            elif r < 0.3:
                v = rng.randrange(1, 1000)
                node = plan.lit(v)
                m = dict(kind="lit", fn=0, litv=v, args=[], deps=deps, store=None, is_src=False)
                if rng.random() < 0.25:
                    st = self._mkstore()
                    to_add.append((i, st))
                    m["store"] = st.sid
            else:
                args = [rng.choice(earlier) for _ in range(rng.choice([0, 1, 1, 2, 2, 3]))] if earlier else []
                nkw = rng.choice([0, 0, 1, len(args)]) if args else 0       # the last nkw arguments are passed by keyword
                npos = len(args) - nkw
                node = plan.call(self._mkfn(i), *[self.nodes[a] for a in args[:npos]], **{"k%d" % j: self.nodes[a] for j, a in enumerate(args[npos:])})
                m = dict(kind="call", fn=i + 1, litv=0, args=args, deps=deps, store=None, is_src=False)
                if rng.random() < 0.55 and forced.get(i) != "writer":
                    st = self._mkstore()
                    to_add.append((i, st))
                    m["store"] = st.sid
            for d in deps:
                plan.add_dependency(self.nodes[d], node)
            self.nodes.append(node)
            self.meta.append(m)
        self.n = n
        rng.shuffle(to_add)          # registry order is independent of plan order
        for i, st in to_add:
            reg.add(self.nodes[i], st)
        self.writer_of = {}
        self.tainted = False     # modified times made equal: outside the properties' distinct/increasing-times assumption
        if writers:
            # a dependent source whose unregistered predecessor call rewrites the source's store as a side effect
            for i, m in enumerate(self.meta):
                if m["kind"] == "source" and m["deps"]:
                    for d in m["deps"]:
                        if self.meta[d]["kind"] == "call" and self.meta[d]["store"] is None and d not in self.writer_of:
                            self.writer_of[d] = m["store"]
                            break

    def _build_spec(self, spec):
        """spec: list of (kind, args, deps, stored) with kind in source|lit|call"""
        plan, reg = self.plan, self.reg
        to_add = []
        for i, (kind, args, deps, stored) in enumerate(spec):
            if kind == "source":
                st = self._mkstore()
                node = reg.source(plan, st)
                m = dict(kind="source", fn=0, litv=0, args=[], deps=list(deps), store=st.sid, is_src=True)
                self.set_store(st.sid, 100 + i)
            elif kind == "lit":
                node = plan.lit(700 + i)
                m = dict(kind="lit", fn=0, litv=700 + i, args=[], deps=list(deps), store=None, is_src=False)
            else:
                node = plan.call(self._mkfn(i), *[self.nodes[a] for a in args])
                m = dict(kind="call", fn=i + 1, litv=0, args=list(args), deps=list(deps), store=None, is_src=False)
            if stored and kind != "source":
                st = self._mkstore()
                to_add.append((i, st))
                m["store"] = st.sid
            for d in deps:
                plan.add_dependency(self.nodes[d], node)
            self.nodes.append(node)
            self.meta.append(m)
        self.rng.shuffle(to_add)          # registry order independent of plan order (sources are registered at creation)
        for i, st in to_add:
            reg.add(self.nodes[i], st)
        self.n = len(spec)
        self.writer_of = {}
        self.tainted = False

    def _mkfn(self, i):
        w = self

        def f(*args, **kw):
            args = tuple(args) + tuple(kw[k] for k in sorted(kw))      # keyword arguments k0, k1, ... continue the positional ones
            w.op("call", i, args)
            vals = [a[1] if (isinstance(a, tuple) and a and a[0] == "read") else a for a in args]
            vals = [x if isinstance(x, int) else -999 for x in vals]     # garbage in (e.g. None from a failed dependency) -> garbage out
            v = Fconc(i + 1, vals)
            if i in w.writer_of:
                w.set_store(w.writer_of[i], v)
            return v
        f.__name__ = f.__qualname__ = "f%d" % i
        return f

    # ---- snapshots / model terms
    def sigma(self):
        # a store holding anything but an int (e.g. None written by a broken engine) is reported as content -999
        return [((s.v if isinstance(s.v, int) else -999), s.t) if s.t is not None else None for s in self.stores]

    def coq_terms(self, sigma, fresh, output):
        pl = core.coq_list(self.meta, lambda m: "(%s,%d%%nat,%d,%s,%s)" % (
            "true" if m["kind"] != "lit" else "false", m["fn"], m["litv"],
            core.coq_list(m["args"], lambda a: "%d%%nat" % a), core.coq_list(m["deps"], lambda a: "%d%%nat" % a)))
        rl = core.coq_list(self.meta, lambda m: "None" if m["store"] is None else "(Some (%d%%nat,%s))" % (m["store"], "true" if m["is_src"] else "false"))
        sl = core.coq_list(sigma, lambda e: "None" if e is None else "(Some (%d,%d))" % e)
        fr = "None" if fresh is None else "(Some %d)" % fresh
        out = "None" if output is None else "(Some %d%%nat)" % output
        return pl, rl, sl, fr, out

    # ---- reference oracles (independent of the Coq model and of uberjob)
    def scratch(self, sigma):
        vals = []
        for i, m in enumerate(self.meta):
            if m["kind"] == "source":
                e = sigma[m["store"]]
                vals.append(None if e is None else e[0])
            elif m["kind"] == "lit":
                vals.append(m["litv"])
            else:
                a = [vals[j] for j in m["args"]]
                vals.append(None if any(x is None for x in a) else Fconc(m["fn"], a))
        return vals

    def frontier(self, i):
        """registry nodes reachable backwards from i through unregistered nodes only (any edge kind)"""
        out, seen, stack = set(), set(), list(self.meta[i]["args"] + self.meta[i]["deps"])
        while stack:
            j = stack.pop()
            if j in seen:
                continue
            seen.add(j)
            if self.meta[j]["store"] is not None:
                out.add(j)
            else:
                stack += self.meta[j]["args"] + self.meta[j]["deps"]
        return out

    def up_to_date(self, sigma, fresh):
        """declarative oracle of C05: dict node -> bool for registry nodes, and out-of-dateness of unregistered ones"""
        utd = {}
        ood_any = {}
        for i, m in enumerate(self.meta):
            fr = self.frontier(i)
            if m["store"] is None:
                ood_any[i] = any(not utd[j] for j in fr)
                continue
            e = sigma[m["store"]]
            if e is None:
                utd[i] = False
            else:
                t = e[1]
                ok = all(utd[j] and sigma[self.meta[j]["store"]][1] <= t for j in fr)
                if (not m["is_src"]) or fr:
                    ok = ok and (fresh is None or fresh <= t)
                utd[i] = ok
            ood_any[i] = not utd[i]
        return utd, ood_any

    def fresh_dt(self, fresh):
        """the instant `fresh` seconds after EPOCH as naive local time or, equally often, as an
        aware datetime in some other zone: the same instant, so the same decisions (C18)"""
        if fresh is None:
            return None
        naive = EPOCH + dt.timedelta(seconds=fresh)
        form = self.rng.randrange(4)
        if form < 2:
            return naive
        off = dt.timedelta(minutes=self.rng.choice([-480, -210, 60, 330, 765]))
        return naive.astimezone().astimezone(dt.timezone(off))       # naive is read as local time

    def run(self, output, fresh, workers=None, scheduler=None, max_errors=0, dry_run=False, fault_at=None, transform=None, fault_hard=False, _hard=False):
        core.alive()
        self.log = []
        self.opcount = 0
        self.fault_at = fault_at
        self.fault_hard = fault_hard
        self.fault_fired = False
        if fault_hard:
            # a worker thread killed by a BaseException must not hang the run: execute it on a helper thread with a watchdog
            import threading
            box = []

            def target():
                try:
                    box.append(self.run(output, fresh, workers, scheduler, max_errors, dry_run, fault_at, transform, fault_hard=False, _hard=True))
                except BaseException as e:      # noqa
                    box.append(("fault", e))
            th = threading.Thread(target=target, daemon=True)
            hook, threading.excepthook = threading.excepthook, (lambda a: None)
            try:
                th.start()
                th.join(HANG_TIMEOUT)
            finally:
                threading.excepthook = hook
            return box[0] if box else ("hang", None)
        self.fault_hard = _hard
        try:
            res = self.uj.run(self.plan, registry=self.reg, output=None if output is None else self.nodes[output],
                              fresh_time=self.fresh_dt(fresh), max_workers=workers, scheduler=scheduler,
                              max_errors=max_errors, progress=None, dry_run=dry_run, transform_physical=transform)
            return ("ok", res)
        except self.uj.CallError as e:
            return ("callerror", e)
        except (InjectedFault, InjectedHardFault) as e:
            return ("fault", e)
        except Exception as e:
            # e.g. AttributeError from CallError(Literal) when a registered literal's store operation fails (noted in DESIGN.md)
            return ("error", e)
        finally:
            self.fault_at = None

    def real_stale(self, fresh, workers=None):
        from uberjob._transformations.caching import _get_stale_nodes
        from uberjob._util.retry import identity
        from uberjob.progress._null_progress_observer import NullProgressObserver
        log, self.log = self.log, []
        try:
            s = _get_stale_nodes(self.plan, self.reg, retry=identity, max_workers=workers or self.rng.choice([1, 3]),
                                 fresh_time=self.fresh_dt(fresh), progress_observer=NullProgressObserver())
        finally:
            self.log = log
        return sorted(i for i, nd in enumerate(self.nodes) if nd in s)


def parse_model(out, n, nstores):
    v = [int(x) for x in re.findall(r"-?\d+", out)]
    parts, cur = [], []
    for x in v:
        if x == -1:
            parts.append(cur)
            cur = []
        else:
            cur.append(x)
    parts.append(cur)
    bits = lambda l: [i for i, b in enumerate(l) if b]
    pair = lambda l: [None if l[2 * i] == 0 else l[2 * i + 1] for i in range(len(l) // 2)]
    return {"stale": bits(parts[0]), "exec": bits(parts[1]), "read": bits(parts[2]), "written": bits(parts[3]),
            "output": pair(parts[4])[0], "after": pair(parts[5]), "values": pair(parts[6])}


class Campaign:
    """Runs histories on random worlds; collects model cases for one batched Coq evaluation."""

    def __init__(self, ctx):
        self.ctx = ctx
        self.uj = core.use_repo()
        self.cases = []     # (terms, observed dict, description)
        self.found = []     # (prop, key, what, replay)
        import transform_corr
        self.tc = transform_corr.TransformCampaign(ctx)    # the physical plan of every observed run vs Cache/Transform.v

    def add(self, prop, key, what, replay):
        self.found.append((prop, key, what, replay))

    def observe_run(self, w, output, fresh, desc, workers=None, scheduler=None):
        """A complete real run from the current store state, compared with the model and checked by the monitors."""
        ctx = self.ctx
        sigma = w.sigma()
        if not w.writer_of:
            self.tc.observe(w, output, fresh, desc)
        stale_real = w.real_stale(fresh)
        # every fourth complete run passes transform_physical (the identity, or a copy of the plan): it changes nothing a run does
        tkind = self.ctx.rng.choice([None, None, None, "identity", "copy"])
        self.ctx.count("transform_physical_in_history_runs", tkind)
        transform = None if tkind is None else (lambda pl, out: (pl, out)) if tkind == "identity" else (lambda pl, out: (pl.copy(), out))
        res = w.run(output, fresh, workers=workers, scheduler=scheduler, transform=transform)
        log = list(w.log)
        after = w.sigma()
        calls = [i for k, i, _ in log if k == "call"]
        reads = [i for k, i, _ in log if k == "read"]
        writes = [i for k, i, _ in log if k == "write"]
        node_of_store = {m["store"]: i for i, m in enumerate(w.meta) if m["store"] is not None}
        obs = {"stale": stale_real, "exec": sorted(calls), "read": sorted(node_of_store[s] for s in reads),
               "written": sorted(node_of_store[s] for s in writes), "status": res[0],
               "output": res[1] if res[0] == "ok" else None, "after": [None if e is None else e[0] for e in after]}
        replay = {"meta": w.meta, "sigma_before": sigma, "fresh": fresh, "output": output, "desc": desc,
                  "log": [(k, i) for k, i, _ in log][:200], "status": res[0]}
        if not w.writer_of:
            self.cases.append((w.coq_terms(sigma, fresh, output), obs, replay, len(w.meta), len(w.stores)))
        # a "writer" call that ran although the dependent source it rewrites was up to date changed a source's content
        # behind the run's back (the generator lets writers be ordinary arguments too): outside the properties' assumptions
        for i, sid in w.writer_of.items():
            if i in calls and node_of_store[sid] not in stale_real:
                w.tainted = True
                ctx.count("writer_ran_on_fresh_source", 1)
        # ---- monitors (model-free)
        scr = w.scratch(sigma)
        utd, ood = w.up_to_date(sigma, fresh)
        times = [e[1] for e in sigma if e is not None]
        distinct = len(times) == len(set(times))
        if not w.tainted and distinct:
            # what _get_stale_nodes itself reports for this store state (a separate call, with its own worker pool)
            for i, ok in utd.items():
                if (i in stale_real) == ok:
                    self.add("C05", "stale-set-differs", "_get_stale_nodes reports node %d as %s; by the stores' modified times it is %s"
                             % (i, "out of date" if i in stale_real else "up to date", "up to date" if ok else "out of date"),
                             dict(replay, stale_reported=sorted(stale_real)))
                    self.add("C03", "stale-set-differs", "_get_stale_nodes reports node %d as %s; by the stores' modified times it is %s"
                             % (i, "out of date" if i in stale_real else "up to date", "up to date" if ok else "out of date"),
                             dict(replay, stale_reported=sorted(stale_real)))
                    break
        if res[0] == "ok" and not w.tainted:
            scr_after = w.scratch(after)
            for i, m in enumerate(w.meta):
                if m["store"] is not None and not m["is_src"]:
                    if after[m["store"]] is None or after[m["store"]][0] != scr_after[i]:
                        self.add("C03", "stored-value-differs-from-scratch",
                                 "after a successful run store of node %d holds %r, from-scratch value is %r" % (i, after[m["store"]], scr_after[i]), replay)
            if output is not None and res[1] != scr_after[output]:
                self.add("C03", "output-differs-from-scratch", "run returned %r, from-scratch value of node %d is %r" % (res[1], output, scr_after[output]), replay)
            if distinct and not w.writer_of:
                want_w = sorted(i for i, m in enumerate(w.meta) if m["store"] is not None and not m["is_src"] and not utd[i])
                if obs["written"] != want_w:
                    self.add("C05", "writes-not-exactly-out-of-date", "rewrote stores of nodes %r, out-of-date stored nodes are %r" % (obs["written"], want_w), replay)
                # calls minimal: executed = needed to rebuild those / stale sources' predecessors / output
                need = set()
                stack = [i for i in want_w] + [i for i, m in enumerate(w.meta) if m["is_src"] and not utd.get(i, True)]
                pull = set()
                for i in stack:
                    pull |= set(w.meta[i]["args"] + w.meta[i]["deps"])
                if output is not None and w.meta[output]["store"] is None:
                    pull.add(output)
                seen = set()
                pl = list(pull)
                while pl:
                    j = pl.pop()
                    if j in seen:
                        continue
                    seen.add(j)
                    if w.meta[j]["store"] is None:
                        need.add(j)
                        pl += w.meta[j]["args"] + w.meta[j]["deps"]
                want_calls = sorted({i for i in need if w.meta[i]["kind"] == "call"} | {i for i in want_w if w.meta[i]["kind"] == "call"})
                if obs["exec"] != want_calls:
                    self.add("C05", "calls-not-minimal", "executed calls %r, needed %r" % (obs["exec"], want_calls), replay)
                consumers_ok = set()
                for i in set(want_calls):
                    consumers_ok |= set(w.meta[i]["args"])
                for s in set(reads):
                    i = node_of_store[s]
                    if reads.count(s) > 1:
                        self.add("C05", "store-read-twice", "store of node %d read %d times" % (i, reads.count(s)), replay)
                    if i != output and i not in consumers_ok:
                        self.add("C05", "needless-read", "store of node %d read although no executed call or the output consumes it" % i, replay)
            for s in set(writes):
                if writes.count(s) > 1:
                    self.add("C05", "store-written-twice", "store %d written %d times" % (s, writes.count(s)), replay)
            for i in set(calls):
                if calls.count(i) > 1:
                    self.add("C04", "call-twice", "call %d executed %d times" % (i, calls.count(i)), replay)
        ctx.count("run_status", res[0])
        ctx.count("stale_count", len(stale_real))
        return res, obs

    def eval_model(self, name="Cache/Logical.v vs _get_stale_nodes / uberjob.run (stale set, executed calls, reads, writes, output, contents)"):
        ctx = self.ctx
        self.tc.eval_model()
        if not self.cases:
            return
        terms = ["exec_cache %s %s %s %s %s" % t for t, *_ in self.cases]
        outs = core.coq_eval(HEADER, terms, ty="list Z", shard=150, tag="cache")
        for (t, obs, replay, n, ns), o in zip(self.cases, outs):
            m = parse_model(o, n, ns)
            ctx.compared(name)
            diffs = {}
            if m["stale"] != obs["stale"]:
                diffs["stale"] = (m["stale"], obs["stale"])
            if obs["status"] == "ok":
                for k in ("exec", "read", "written", "output", "after"):
                    if m[k] != obs[k]:
                        diffs[k] = (m[k], obs[k])
            if diffs:
                ctx.broke("correspondence Cache/Logical.v vs /repo", {"model_vs_impl": diffs, "case": replay})
        # L1 <-> L2 link: the pruned physical plan of Cache/Transform.v keeps exactly the roles Cache/Logical.v predicts
        lterms = ["exec_link %s %s %s %s %s" % t for t, *_ in self.cases]
        louts = core.coq_eval(HEADER, lterms, ty="list nat", shard=150, tag="link")
        for (t, obs, replay, n, ns), o in zip(self.cases, louts):
            ctx.compared("Cache/Link.v: roles kept by Transform.v+Prune.v = closed forms of Logical.v")
            bad = [int(x) for x in re.findall(r"\d+", o)]
            if bad:
                ctx.broke("L1/L2 models disagree (Cache/Link.v)", {"nodes": bad, "case": replay})
        self.cases = []

    def file(self, props):
        for prop, key, what, replay in self.found:
            if prop in props:
                self.ctx.fail(key, what, replay)
            else:
                l = self.ctx.notes.setdefault("other_property_failures_seen", [])
                if len(l) < 10:
                    l.append("%s:%s" % (prop, key))


def random_fresh(w, rng):
    ts = sorted(e[1] for e in w.sigma() if e is not None)
    if not ts or rng.random() < 0.4:
        return None
    c = rng.choice(["below", "equal", "between", "above"])
    if c == "below":
        return ts[0] - 1
    if c == "equal":
        return rng.choice(ts)
    if c == "between":
        return rng.choice(ts) + 1
    return ts[-1] + 1


TARGETED = {
    # stored -> unstored -> stored (+ a second stored consumer): staleness must flow through the unstored node
    "stored-unstored-stored": [("source", [], [], False), ("call", [0], [], True), ("call", [1], [], False),
                               ("call", [2], [], True), ("call", [1, 3], [], True)],
    # plain dependency from a stored node to an unstored consumer, and to a dependent source
    "dep-edges": [("source", [], [], False), ("call", [0], [], True), ("call", [0], [1], False),
                  ("source", [], [1], False), ("call", [2, 3], [], True)],
    # registered literal and literal with predecessors
    "literals": [("source", [], [], False), ("call", [0], [], True), ("lit", [], [1], False),
                 ("lit", [], [], True), ("call", [3, 1], [2], True)],
    # a stale dependent source with two rebuilt stored dependencies and two physical dependents (read-back + a node that
    # merely depends on it): its Barrier literal is a 2x2 hub
    "barrier-2x2": [("source", [], [], False), ("call", [0], [], True), ("call", [0], [], True), ("source", [], [1, 2], False),
                    ("call", [3], [], True), ("call", [0], [3], False), ("call", [5, 4], [], True)],
    # ... and with one dependent only (2x1)
    "barrier-2x1": [("source", [], [], False), ("call", [0], [], True), ("call", [0], [], True), ("source", [], [1, 2], False),
                    ("call", [3], [], True)],
    # three rebuilt stored dependencies and two dependents: m*n > m+n, the Barrier literal SURVIVES pruning
    "barrier-3x2": [("source", [], [], False), ("call", [0], [], True), ("call", [0], [], True), ("call", [0], [], True),
                    ("source", [], [1, 2, 3], False), ("call", [4], [], True), ("call", [0], [4], False), ("call", [6, 5], [], True)],
    # staleness that reaches a stored consumer ONLY through an unregistered literal gated on a stored node (add_dependency(a, literal))
    "through-gated-literal": [("source", [], [], False), ("call", [0], [], True), ("lit", [], [1], False), ("call", [2], [], True),
                              ("call", [3], [], True)],
    # fresh stored node newer than its stored consumer's consumer: times must flow through fresh stored nodes
    "stored-chain": [("source", [], [], False), ("call", [0], [], True), ("call", [1], [], False), ("call", [2], [], True),
                     ("call", [3], [], True)],
    # two sources, fan-in, chain of unstored calls
    "fan-in": [("source", [], [], False), ("source", [], [], False), ("call", [0], [], False), ("call", [2, 1], [], False),
               ("call", [3], [], True), ("call", [4, 0], [], False), ("call", [5], [], True)],
    # predecessors WITH and WITHOUT a modified time side by side, in both argument orders: an input-less unstored call, an unregistered
    # literal and a source (or a stored value) feed one stored value - the newest of the times that exist decides
    "timed-and-untimed": [("source", [], [], False), ("call", [], [], False), ("lit", [], [], False), ("call", [0, 1], [], True),
                          ("call", [1, 0], [], True), ("call", [2, 0, 1], [], True), ("call", [1, 3], [], True), ("call", [4, 1, 2], [], True)],
}


def targeted_histories(ctx, camp):
    """Fixed small worlds x a fixed history that exercises every operation kind."""
    rng = ctx.rng
    for name, spec in TARGETED.items():
        for variant in range(ctx.n(2, 8)):
            w = World(camp.uj, rng, spec=spec)
            last = w.n - 1
            stored = [i for i, m in enumerate(w.meta) if m["store"] is not None and not m["is_src"]]
            srcs = [m["store"] for m in w.meta if m["is_src"]]
            script = ["run", "run_none", "update", "run", "run_none", "delete", "run", "run_none", "fresh", "run_none",
                      "update", "cut", "run_none", "delete", "cut", "run"] + (["update", "cut_everywhere"] if variant == 0 else [])
            for step, op in enumerate(script):
                out = rng.choice([None, last, rng.randrange(w.n)])
                if op == "run":
                    camp.observe_run(w, out, None, [name, step, op], workers=rng.choice([1, 3]), scheduler=rng.choice([None, "random"]))
                elif op == "run_none":
                    res, obs = camp.observe_run(w, None, None, [name, step, op])
                    if res[0] == "ok":
                        sigma = w.sigma()
                        res2 = w.run(None, None)
                        ops = [(k, i) for k, i, _ in w.log if k in ("call", "read", "write")]
                        utd_s, _ = w.up_to_date(sigma, None)
                        if res2[0] == "ok" and ops and not w.tainted and not [i for i, m in enumerate(w.meta) if m["is_src"] and not utd_s[i]]:
                            camp.add("C05", "repeat-not-idempotent", "a repeated run with no output performed %r" % (ops[:6],),
                                     {"meta": w.meta, "sigma": sigma, "ops": ops, "world": name})
                elif op == "update":
                    w.set_store(rng.choice(srcs), rng.randrange(1, 1000))
                elif op == "delete":
                    s = w.meta[rng.choice(stored)]["store"]
                    w.stores[s].v = w.stores[s].t = None
                elif op == "fresh":
                    camp.observe_run(w, out, random_fresh(w, rng), [name, step, op])
                elif op == "cut":
                    try:
                        cut_and_repair(ctx, camp, w, out, [name, step, op])
                    except WorldLost:
                        break
                elif op == "cut_everywhere":
                    # after a source update: the run is cut at EVERY one of its operations in turn (store state restored in between), then repaired
                    saved = [(s_.v, s_.t) for s_ in w.stores]
                    try:
                        for kk in range(1, 40):
                            for s_, (v_, t_) in zip(w.stores, saved):
                                s_.v, s_.t = v_, t_
                            w.clock += 1000
                            n_before = len(camp.found)
                            cut_and_repair(ctx, camp, w, None, [name, step, op, kk], k_fixed=kk)
                            if w.opcount and kk > 30:
                                break
                    except WorldLost:
                        break
                ctx.case(("targeted", name, variant, step, tuple(str(x) for x in w.sigma())))
                ctx.count("targeted_world", name)


def controlled_stale_check(ctx, camp):
    """The stale check is an engine pass of its own (several workers): fan-in worlds are run while the deterministic scheduler
    drives its worker threads through aggressive interleavings, at bytecode granularity also inside caching.py; every run is
    observed like any other (model comparison, from-scratch and exactness monitors)."""
    import plansched
    rng = ctx.rng
    specs = {
        # S = f(a, b) unstored joins two sources; T = g(S, c) stored joins S and a third source
        "stale-fan-in": [("source", [], [], False), ("source", [], [], False), ("call", [0, 1], [], False), ("source", [], [], False),
                         ("call", [2, 3], [], True)],
        "stale-fan-in-stored": [("source", [], [], False), ("source", [], [], False), ("call", [0], [], True), ("call", [1], [], True),
                                ("call", [2, 3], [], True), ("source", [], [], False), ("call", [4, 5], [], True)],
    }
    for name, spec in specs.items():
        for trace_caching in (False, True):
            ctl = plansched.Controlled(stale_check=True, trace_caching=trace_caching)
            for si in range(ctx.n(6, 60)):
                w = World(camp.uj, rng, spec=spec)
                camp.observe_run(w, w.n - 1, None, [name, "build"], workers=1)
                srcs = [m["store"] for m in w.meta if m["is_src"]]
                for step in range(3):
                    w.set_store(rng.choice(srcs), rng.randrange(1, 1000))
                    sig = w.sigma()
                    utd, _ = w.up_to_date(sig, None)
                    with ctl:
                        for k in range(ctx.n(4, 8)):
                            ctl.set(plansched.stress_chooser(rng, si + step + k))
                            got = set(w.real_stale(None, workers=rng.choice([2, 3, 4])))
                            bad = [i for i, ok in utd.items() if (i in got) == ok]
                            if bad:
                                for prop in ("C03", "C05"):
                                    camp.add(prop, "stale-set-under-interleaving", "under a forced interleaving of the stale check's workers _get_stale_nodes reports "
                                             "node %d as %s; by the stores' modified times it is %s" % (bad[0], "out of date" if bad[0] in got else "up to date",
                                                                                                       "up to date" if utd[bad[0]] else "out of date"),
                                             {"meta": w.meta, "sigma": sig, "stale_reported": sorted(got), "world": name,
                                              "decisions": ctl.last.sched.decisions[:4000] if ctl.last else None})
                                break
                        ctl.set(plansched.stress_chooser(rng, si + step))
                        camp.observe_run(w, rng.choice([None, w.n - 1]), None, [name, "controlled", si, step], workers=rng.choice([2, 3, 4]))
                    ctx.case(("controlled-stale-check", name, trace_caching, si, step, tuple(ctl.last.sched.decisions[:200]) if ctl.last else 0), nontrivial=True)
                    ctx.count("controlled_stale_check", "%s/%s" % (name, "bytecodes of caching.py too" if trace_caching else "engine only"))


def history_campaign(ctx, camp, n_worlds, steps, props_cut=True):
    """Random worlds x random histories; every run in the history is observed."""
    rng = ctx.rng
    targeted_histories(ctx, camp)
    controlled_stale_check(ctx, camp)
    for wi in range(n_worlds):
        w = World(camp.uj, rng, maxn=ctx.n(8, 10), writers=(wi % 5 == 4))
        ctx.count("world_nodes", w.n)
        ctx.count("world_has_writer_call", bool(w.writer_of))
        ctx.count("world_registered", sum(1 for m in w.meta if m["store"] is not None))
        hist = []
        for step in range(steps):
            op = rng.choice(["run", "run", "run_none", "update_source", "delete", "fresh_run", "cut", "equal_times"])
            output = rng.choice([None] + list(range(w.n)))
            if op == "run":
                camp.observe_run(w, output, None, hist + [op], workers=rng.choice([1, 2, 4]), scheduler=rng.choice([None, "random"]))
            elif op == "run_none":
                res, obs = camp.observe_run(w, None, None, hist + [op])
                if res[0] == "ok":
                    # a run repeated immediately with no output requested does nothing
                    sigma = w.sigma()
                    res2 = w.run(None, None)
                    ops = [(k, i) for k, i, _ in w.log if k in ("call", "read", "write")]
                    # reading (DESIGN.md C05): the consequence is claimed when every source is present and up to date
                    # after the run; a missing source, or a dependent source nobody refreshes, stays out of date and
                    # keeps its dependents out of date by the property's own definition
                    utd_s, _ = w.up_to_date(sigma, None)
                    stale_src = [i for i, m in enumerate(w.meta) if m["is_src"] and not utd_s[i]]
                    if res2[0] == "ok" and ops and not stale_src and not w.tainted:
                        camp.add("C05", "repeat-not-idempotent", "a repeated run with no output performed %r" % (ops[:6],),
                                 {"meta": w.meta, "sigma": sigma, "ops": ops})
            elif op == "update_source":
                srcs = [m["store"] for m in w.meta if m["is_src"]]
                if srcs:
                    w.set_store(rng.choice(srcs), rng.randrange(1, 1000))
            elif op == "delete":
                st = [m["store"] for m in w.meta if m["store"] is not None and not m["is_src"]]
                if st:
                    s = rng.choice(st)
                    w.stores[s].v = w.stores[s].t = None
            elif op == "fresh_run":
                camp.observe_run(w, output, random_fresh(w, rng), hist + [op])
            elif op == "equal_times":
                # two stores with the same modified time (outside C05's distinctness assumption; model must still agree)
                pres = [s for s in w.stores if s.t is not None]
                if len(pres) >= 2:
                    a, b = rng.sample(pres, 2)
                    a.t = b.t
                    w.tainted = True
                camp.observe_run(w, output, random_fresh(w, rng), hist + [op])
            elif op == "cut" and props_cut:
                try:
                    cut_and_repair(ctx, camp, w, output, hist + [op])
                except WorldLost:
                    break
            hist.append(op)
            ctx.case((wi, step, op, tuple(str(x) for x in w.sigma())), nontrivial=w.n >= 2,
                     sample={"meta": w.meta, "history": hist} if wi == 1 and step == steps - 1 else None)
            ctx.count("history_op", op)


def cut_and_repair(ctx, camp, w, output, desc, k_fixed=None):
    """C08: cut a run at operation k, then check the stores and the repairing run."""
    rng = ctx.rng
    sigma0 = w.sigma()
    # how many operations does the complete run perform? (dry measurement on a throw-away copy of the store state)
    saved = [(s.v, s.t) for s in w.stores]
    clock = w.clock
    res = w.run(output, None)
    total = w.opcount
    for s, (v, t) in zip(w.stores, saved):
        s.v, s.t = v, t
    w.clock = clock + 1000     # keep the clock strictly increasing across the discarded measurement run
    if total == 0:
        return
    k = rng.randrange(1, total + 1) if k_fixed is None else min(k_fixed, total)
    hard = rng.random() < 0.3 and k_fixed is None
    w.fault_falsy = (not hard) and rng.random() < 0.4
    ctx.count("cut_exception_falsy", w.fault_falsy)
    res = w.run(output, None, workers=rng.choice([1, 3]), scheduler=rng.choice([None, "random"]), fault_at=k,
                max_errors=rng.choice([0, 0, 1, None]), fault_hard=hard)
    cutlog = [(a, b) for a, b, _ in w.log]
    sigma1 = w.sigma()
    ctx.count("cut_exception", "BaseException" if hard else "Exception")
    # a "writer" call that ran in the cut run although the dependent source it rewrites was up to date changed a source behind
    # the run's back: outside the properties' assumptions (same rule as in observe_run)
    if w.writer_of:
        utd0, _ = w.up_to_date(sigma0, None)
        nos = {m["store"]: i for i, m in enumerate(w.meta) if m["store"] is not None}
        ran = {b for a, b in cutlog if a == "call"}
        for i, sid in w.writer_of.items():
            if i in ran and utd0.get(nos[sid], False):
                w.tainted = True
                ctx.count("writer_ran_on_fresh_source", 1)
    if res[0] == "hang":
        camp.add("C08", "cut-run-hangs", "the run was cut at operation %d by a raised BaseException subclass and uberjob.run did not return within %d s"
                 % (k, HANG_TIMEOUT), {"meta": w.meta, "sigma_before": sigma0, "cut_at": k, "of": total, "log": cutlog[:200], "desc": desc})
        raise WorldLost()
    if w.fault_fired and res[0] == "ok":
        scr1 = w.scratch(w.sigma())
        wrong = [i for i, m in enumerate(w.meta) if m["store"] is not None and not m["is_src"]
                 and (w.sigma()[m["store"]] is None or w.sigma()[m["store"]][0] != scr1[i])]
        camp.add("C03", "run-returned-normally-with-wrong-stores",
                 "a run in which operation %d raised a %s returned normally; output %r, stored values of nodes %r differ from a run from scratch"
                 % (k, "BaseException subclass" if hard else "Exception", res[1], wrong),
                 {"meta": w.meta, "sigma_before": sigma0, "cut_at": k, "of": total, "log": cutlog[:200], "desc": desc})
        if wrong:
            camp.add("C05", "run-returned-normally-without-rebuilding",
                     "a run in which operation %d raised a %s returned normally although the out-of-date stored values of nodes %r were not rebuilt "
                     "(they still differ from a run from scratch); a repeated run would do work" % (k, "BaseException subclass" if hard else "Exception", wrong),
                     {"meta": w.meta, "sigma_before": sigma0, "cut_at": k, "of": total, "log": cutlog[:200], "desc": desc})
        camp.add("C08", "cut-run-reports-success", "the run was cut at operation %d by a raised %s but uberjob.run returned normally"
                 % (k, "BaseException subclass" if hard else "Exception"),
                 {"meta": w.meta, "sigma_before": sigma0, "cut_at": k, "of": total, "log": cutlog[:200], "desc": desc})
    replay = {"meta": w.meta, "sigma_before": sigma0, "cut_at": k, "of": total, "log": cutlog[:200], "sigma_after_cut": sigma1, "desc": desc}
    ctx.count("cut_kind", cutlog[k - 1][0] if k - 1 < len(cutlog) else "?")
    # every stored value that a later run would treat as up to date equals its from-scratch value
    scr = w.scratch(sigma1)
    utd, _ = w.up_to_date(sigma1, None)
    for i, m in enumerate(w.meta):
        if w.tainted:
            break
        if m["store"] is not None and not m["is_src"] and utd[i] and sigma1[m["store"]][0] != scr[i]:
            camp.add("C08", "cut-leaves-wrong-but-fresh-value",
                     "after a cut at operation %d node %d looks up to date but holds %r instead of %r" % (k, i, sigma1[m["store"]][0], scr[i]), replay)
    # written completely before the cut => not rewritten by the next run
    done = {b for a, b in cutlog if a == "write"}
    res2, obs2 = camp.observe_run(w, output, None, desc + ["repair"])
    node_of_store = {m["store"]: i for i, m in enumerate(w.meta) if m["store"] is not None}
    if res2[0] == "ok" and not w.tainted:
        for s in done:
            # (nothing upstream changed and fresh_time was not advanced: the oracle says it is up to date after the cut)
            if node_of_store[s] in obs2["written"] and utd[node_of_store[s]]:
                camp.add("C08", "needless-rebuild-after-cut",
                         "node %d was completely written before the cut but the next run rebuilt it" % node_of_store[s], replay)
        # the repairing run leaves from-scratch stored values (every store the run was responsible for: output None = all of them)
        if output is None:
            sigma2 = w.sigma()
            scr2 = w.scratch(sigma2)
            wrong = [i for i, m in enumerate(w.meta) if m["store"] is not None and not m["is_src"] and m["kind"] == "call"
                     and (sigma2[m["store"]] is None or sigma2[m["store"]][0] != scr2[i])]
            if wrong:
                camp.add("C08", "repair-leaves-wrong-stores", "after a cut at operation %d the next (successful, output=None) run left stored values of nodes %r that differ from a run from scratch: "
                         "%r instead of %r" % (k, wrong, [sigma2[w.meta[i]["store"]] and sigma2[w.meta[i]["store"]][0] for i in wrong], [scr2[i] for i in wrong]),
                         dict(replay, sigma_after_repair=sigma2))
