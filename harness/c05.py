"""C05: exactly the out-of-date stored values are rebuilt; a repeated run does nothing."""
import core
import cache_corr

RULE = ("random worlds (plans of 1-10 nodes mixing stored / unstored calls, pure and dependent sources, registered literals, Dep edges, "
        "duplicate arguments) x random histories (runs with any output / worker count / scheduler, source updates, deletions, "
        "fresh_time below/equal/between/above, cut runs, equal modified times); every run is compared with Cache/Logical.v and checked "
        "against an independent declarative up-to-date oracle; distinct = distinct (world, step, store state)")
TRUSTED_BASE = ["harness/cache_corr.py: in-memory stores with one strictly increasing logical clock, Python reference oracles (scratch, frontier up-to-date)",
                "H-user: call functions are deterministic functions of their arguments (the harness's are)"]


def run(ctx):
    import translate_stale
    translate_stale.check(ctx)      # caching.py's stale decision, translated to Gallina and linked to the model by a theorem
    import translate_mtime
    translate_mtime.check(ctx)      # what the bundled file stores / PathSource report as modified time: compiled from the source, linked to Codec.store_mtime
    camp = cache_corr.Campaign(ctx)
    cache_corr.history_campaign(ctx, camp, ctx.n(60, 1200), ctx.n(6, 8))
    import cache_files
    cache_files.run_file_histories(ctx, camp.found)     # real file stores, real modified times
    cache_files.rebuild_then_repeat(ctx, lambda key, what, replay: camp.add("C05", key, what, replay))
    cache_files.restored_timestamps(ctx, lambda key, what, replay: camp.add("C05", key, what, replay))
    import tz_histories
    tz_histories.run(ctx, camp.add, "C05")       # the same decisions in processes running in other time zones
    camp.eval_model()
    camp.file({"C05"})
    import engine_corr
    ec = engine_corr.campaign(ctx, set())       # 'each exactly once' under controlled schedules: a duplicate start is a C05 failure too
    for prop, key, what, replay in ec.found:
        if prop == "C04" and key == "started-twice":
            ctx.fail("engine:" + key, what + " (a rebuilt value would be computed / written twice)", replay)
