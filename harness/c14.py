"""C14: a dry run touches nothing and returns a faithful, self-contained physical plan."""
import core
import cache_corr
import transform_corr
import c09

RULE = ("random worlds x histories: every dry run's operation log must contain modified-time queries only; its physical plan is compared exactly "
        "with Cache/Transform.v; then from the same store state the real run and the returned plan executed alone (uberjob.run(physical, output=node), "
        "no registry) must perform the same calls, reads, writes and return the same output and leave the same store contents")
TRUSTED_BASE = ["harness/cache_corr.py worlds; store state snapshot/restore between the two executions"]


def run(ctx):
    dry_run_leaves_no_trace(ctx)
    import translate_avs
    translate_avs.check(ctx)       # _add_value_store re-read from caching.py and linked to Cache/Transform.v by a theorem
    import translate_physical
    translate_physical.check(ctx)  # plan_with_value_stores (registry loop, output redirection, prune) compiled from caching.py and linked to Transform.physical
    uj = core.use_repo()
    rng = ctx.rng
    tc = transform_corr.TransformCampaign(ctx)
    specs = list(cache_corr.TARGETED.items()) * ctx.n(2, 6)
    for wi in range(ctx.n(70, 1500) + len(specs)):
        spec = specs[wi][1] if wi < len(specs) else None
        w = cache_corr.World(uj, rng, maxn=ctx.n(8, 10), spec=spec, normalising=((wi // len(cache_corr.TARGETED)) % 2 == 1) if spec is not None else (wi % 2 == 1))
        for step in range(ctx.n(4, 6)):
            output = rng.choice([None] + list(range(w.n)))
            fresh = cache_corr.random_fresh(w, rng)
            sigma = [(s.v, s.t) for s in w.stores]
            res, log = tc.observe(w, output, fresh, [wi, step])
            rep = {"meta": w.meta, "output": output, "fresh": fresh, "sigma": w.sigma()}
            bad = [e for e in log if e[0] != "mtime"]
            if bad:
                ctx.fail("dry-run-touches", "dry run performed %r" % (bad[:5],), rep)
            if [(s.v, s.t) for s in w.stores] != sigma:
                ctx.fail("dry-run-changes-stores", "dry run changed store contents", rep)
            ctx.case((wi, step, tuple(str(x) for x in w.sigma()), output, fresh), nontrivial=len(w._stale_now) > 0,
                     sample={"meta": w.meta, "stale": sorted(w._stale_now), "dry_run_log": log[:20]} if wi == 2 and step == 1 else None)
            if res[0] == "ok":
                # the same transform_physical (none / identity / one that adds an audit call and redirects the output) is
                # given to the dry run and to the real run
                def audit(*a):
                    w.op("call", -1, a)
                    return a[0] if a else None

                def add_audit(pl, out):
                    n = pl.call(audit, out) if out is not None else pl.call(audit)
                    return pl, n
                tp = rng.choice([None, lambda pl, out: (pl, out), add_audit])
                if spec is not None and step == 0:
                    tp = None          # the targeted worlds' first run (everything out of date) always gets the order monitor
                ctx.count("transform_physical", "none" if tp is None else "audit" if tp is add_audit else "identity")
                if tp is not None:
                    res = w.run(output, fresh, dry_run=True, transform=tp)
                    if [e for e in w.log if e[0] != "mtime"]:
                        ctx.fail("dry-run-touches", "dry run (with transform_physical) performed %r" % ([(k, i) for k, i, _ in w.log if k != "mtime"][:5],), rep)
                    if res[0] != "ok":
                        continue
                phys, outnode = res[1]
                if outnode is not None and not phys.graph.has_node(outnode):
                    ctx.fail("output-node-not-in-plan", "the output node returned by the dry run is not a node of the returned physical plan", rep)
                    continue
                clock = w.clock
                resA = w.run(output, fresh, workers=rng.choice([1, 3]), transform=tp)
                logA = sorted((k, i) for k, i, _ in w.log if k in ("call", "read", "write"))
                afterA = [(s.v) for s in w.stores]
                for s, (v, t) in zip(w.stores, sigma):
                    s.v, s.t = v, t
                w.clock = clock
                w.log, w.opcount = [], 0
                sig_before_B = w.sigma()
                try:
                    # "executing all nodes of that plan by itself, with no registry"
                    nwB = rng.choice([1, 3])
                    w.slow_writes = 0.003 if nwB > 1 else 0
                    r = uj.run(phys, output=[outnode, list(phys.graph.nodes())], progress=None, max_workers=nwB)
                    resB = ("ok", r[0])
                except uj.CallError as e:
                    resB = ("callerror", e)
                except Exception as e:      # noqa   e.g. HasACycle: the returned plan cannot be executed at all
                    resB = ("raised %s: %s" % (type(e).__name__, e), None)
                finally:
                    w.slow_writes = 0
                if w.normalising and tp is None:
                    # ... in the order the plan prescribes (write, read-back, consumers; dependent sources after what they depend on)
                    utd_o, _ = w.up_to_date(sig_before_B, fresh)
                    c09.order_monitor(ctx, w, output, resB if resB[0] != "ok" else ("ok", resB[1]), list(w.log),
                                      set(w._stale_now) | {i for i, ok in utd_o.items() if not ok}, prefix="plan-alone:")
                logB = sorted((k, i) for k, i, _ in w.log if k in ("call", "read", "write"))
                afterB = [(s.v) for s in w.stores]
                ctx.count("real_run_status", resA[0])
                if resA[0] != resB[0] or (resA[0] == "ok" and resA[1] != resB[1]):
                    ctx.fail("plan-alone-different-result", "executing the dry-run plan alone gave %r, the real run %r" % (resB[:2], resA[:2]), rep)
                if resA[0] == "ok" and (logA != logB or afterA != afterB):
                    ctx.fail("plan-alone-different-effects", "dry-run plan executed alone: ops %r, real run: %r" % (logB[:12], logA[:12]), rep)
            op = rng.choice(["none", "update", "delete", "delete"])
            if op == "update":
                srcs = [m["store"] for m in w.meta if m["is_src"]]
                if srcs:
                    w.set_store(rng.choice(srcs), rng.randrange(1, 1000))
            elif op == "delete":
                st = [m["store"] for m in w.meta if m["store"] is not None and not m["is_src"]]
                if st:
                    s = rng.choice(st)
                    w.stores[s].v = w.stores[s].t = None
    tc.eval_model()
    retry_scenarios(ctx, uj)
    bundled_sources(ctx, uj)
    file_dry_run(ctx, uj)


def bundled_sources(ctx, uj):
    """a dry run asks the bundled sources (also subclasses that override read) for their modified time only"""
    import datetime as dt
    from uberjob.stores import LiteralSource, ModifiedTimeSource
    log = []

    class Clock(ModifiedTimeSource):
        def read(self):
            log.append("read clock")
            return super().read().date()           # hands the calendar day to the calls

    class Lit(LiteralSource):
        def read(self):
            log.append("read literal")
            return super().read()
    for stale in (False, True):
        plan, reg = uj.Plan(), uj.Registry()
        t = reg.source(plan, Clock(dt.datetime(2024, 5, 1, 12)))
        l_ = reg.source(plan, Lit("x", dt.datetime(2024, 5, 1)))
        rep = plan.call(lambda d, v: "%s %s" % (d, v), t, l_)

        class Out(uj.ValueStore):
            v = None
            tm = None if stale else dt.datetime(2024, 6, 1)

            def read(self):
                return self.v

            def write(self, v):
                log.append("write report")

            def get_modified_time(self):
                return self.tm
        reg.add(rep, Out())
        del log[:]
        ctx.case(("c14-bundled-sources", stale))
        try:
            uj.run(plan, registry=reg, output=rep, dry_run=True, progress=None)
            oc = "returned"
        except BaseException as e:      # noqa
            oc = "raised %s (%r)" % (type(e).__name__, getattr(e, "__cause__", None))
        if log or oc != "returned":
            ctx.fail("dry-run-touches-bundled-source", "a dry run over ModifiedTimeSource / LiteralSource subclasses %s and performed %r" % (oc, log), {"stale_report": stale})


def file_dry_run(ctx, uj):
    """a dry run over the bundled file stores leaves the directory exactly as it found it - also a staging file that a
    writer killed mid-write left behind (it belongs to the next write, which truncates it)"""
    import os
    import shutil
    import tempfile
    from uberjob.stores import JsonFileStore, PathSource, PickleFileStore, TextFileStore, TouchFileStore
    for leftover in (False, True):
        for present in (False, True):
            d = tempfile.mkdtemp(prefix="ujc14_")
            try:
                P = lambda n: os.path.join(d, n)
                with open(P("in.txt"), "w") as f:
                    f.write("3")
                plan, reg = uj.Plan(), uj.Registry()
                src = plan.call(int, reg.source(plan, TextFileStore(P("in.txt"))))
                stores = {"x.json": JsonFileStore, "y.pkl": PickleFileStore, "z.txt": TextFileStore, "t.touch": TouchFileStore}
                prev = src
                for name, cls in stores.items():
                    prev = plan.call(lambda v: v, prev) if cls is not TouchFileStore else plan.call(lambda v: None, prev)
                    reg.add(prev, cls(P(name)))
                    if present and name in ("y.pkl",):
                        cls(P(name)).write(1)
                    if leftover:
                        with open(P(name + ".STAGING"), "wb") as f:
                            f.write(b"half-written by a killed writer")
                snap = lambda: sorted((n, os.stat(P(n)).st_size, os.stat(P(n)).st_mtime_ns) for n in os.listdir(d))
                before = snap()
                try:
                    uj.run(plan, registry=reg, dry_run=True, progress=None)
                    oc = "returned"
                except BaseException as e:      # noqa
                    oc = "%s: %s" % (type(e).__name__, e)
                after = snap()
                ctx.case(("c14-file-dry-run", leftover, present))
                if before != after or oc != "returned":
                    ctx.fail("dry-run-touches-files", "a dry run over file stores (%s) %s; directory before %r, after %r"
                             % ("with leftover .STAGING files" if leftover else "clean directory", oc, [b[0] for b in before], [a[0] for a in after]),
                             {"leftover_staging": leftover, "before": before, "after": after})
            finally:
                shutil.rmtree(d, ignore_errors=True)


def retry_scenarios(ctx, uj):
    """a dry run performs the stale check exactly as the real run with the same arguments does - including retry= around
    transiently failing modified-time queries - so it succeeds exactly when the real run's stale check succeeds and
    plans the same writes"""
    import datetime as dt
    T0 = dt.datetime(2020, 1, 1)

    class Flaky(uj.ValueStore):
        def __init__(self, v, t, fails):
            self.v, self.t, self.fails, self.left, self.writes = v, t, fails, fails, 0

        def read(self):
            return self.v

        def write(self, v):
            self.v, self.t = v, T0 + dt.timedelta(days=100)
            self.writes += 1

        def get_modified_time(self):
            if self.left > 0:
                self.left -= 1
                raise IOError("transient")
            return self.t

    def build(fails, which):
        plan, reg = uj.Plan(), uj.Registry()
        st = [Flaky(1, T0 + dt.timedelta(days=5), fails if which == 0 else 0),
              Flaky(2, T0 + dt.timedelta(days=1), fails if which == 1 else 0),        # older than its source: stale
              Flaky(3, T0 + dt.timedelta(days=9), fails if which == 2 else 0)]
        s = reg.source(plan, st[0])
        a = plan.call(lambda x: x + 1, s)
        reg.add(a, st[1])
        b = plan.call(lambda x: x * 2, a)
        reg.add(b, st[2])
        return plan, reg, st, b

    for retry in (None, 1, 2, 4):
        for fails in (0, 1, 3):
            for which in (0, 1, 2):
                outs = {}
                for mode in ("dry", "real"):
                    plan, reg, st, b = build(fails, which)
                    try:
                        uj.run(plan, registry=reg, output=b, retry=retry, dry_run=(mode == "dry"), progress=None, max_workers=1)
                        outs[mode] = "ok"
                    except uj.CallError:
                        outs[mode] = "callerror"
                ctx.case(("c14-retry", retry, fails, which))
                ctx.count("retry_scenario", "%s/%s" % (outs["dry"], outs["real"]))
                if outs["dry"] != outs["real"]:
                    ctx.fail("dry-run-retry", "with retry=%r and a modified-time query that fails %d time(s) first, the dry run %s but the real run %s"
                             % (retry, fails, outs["dry"], outs["real"]), {"retry": retry, "transient_failures": fails, "store": which})


_run_before_api = run


def run(ctx):
    _run_before_api(ctx)
    import api_corr
    api_corr.run_api_corr(ctx)


def dry_run_leaves_no_trace(ctx):
    """Two identical worlds with the same history, except that in one of them a dry run is made at some earlier point (before a source
    update, before a deletion, twice in a row): every later real run performs exactly the same calls, reads and writes and leaves the same
    stored values in both worlds - a dry run changes nothing, not even what the registry / plan / process remembers."""
    import random
    uj = core.use_repo()
    specs = list(cache_corr.TARGETED.items())
    for si, (name, spec) in enumerate(specs * ctx.n(1, 4)):
        seed = ctx.rng.randrange(10 ** 9)
        worlds = [cache_corr.World(uj, random.Random(seed), spec=spec) for _ in range(2)]
        script_rng = random.Random(seed + 1)
        n = worlds[0].n
        srcs = [m["store"] for m in worlds[0].meta if m["is_src"]]
        stored = [m["store"] for m in worlds[0].meta if m["store"] is not None and not m["is_src"]]
        history = []
        for step in range(5):
            op = script_rng.choice(["update", "delete", "none"])
            out = script_rng.choice([None, n - 1, script_rng.randrange(n)])
            dry_first = script_rng.random() < 0.6
            val, which = script_rng.randrange(1, 1000), script_rng.randrange(100)
            logs = []
            for wi_, w in enumerate(worlds):
                if wi_ == 1 and dry_first:
                    for _ in range(script_rng.choice([1, 1, 2]) if False else 1):
                        w.run(out, None, dry_run=True)          # only the second world makes the dry run
                if op == "update" and srcs:
                    w.set_store(srcs[which % len(srcs)], val)
                elif op == "delete" and stored:
                    s_ = w.stores[stored[which % len(stored)]]
                    s_.v = s_.t = None
                res = w.run(out, None, workers=1)
                logs.append((res[0], sorted((k, i) for k, i, _ in w.log if k in ("call", "read", "write")), [x if x is None else x[0] for x in w.sigma()]))
            history.append((op, out, dry_first))
            ctx.case(("c14-dry-run-leaves-no-trace", name, si, step))
            if logs[0] != logs[1]:
                ctx.fail("dry-run-leaves-trace", "two identical worlds (%s), the second one made a dry run before step %d of %r: the real runs differ - without the dry run: %s %r stores %r; "
                         "with it: %s %r stores %r" % (name, step, history, logs[0][0], logs[0][1][:12], logs[0][2], logs[1][0], logs[1][1][:12], logs[1][2]),
                         {"world": name, "history": history, "meta": worlds[0].meta})
                break
