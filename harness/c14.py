"""C14: a dry run touches nothing and returns a faithful, self-contained physical plan."""
import core
import cache_corr
import transform_corr

RULE = ("random worlds x histories: every dry run's operation log must contain modified-time queries only; its physical plan is compared exactly "
        "with Cache/Transform.v; then from the same store state the real run and the returned plan executed alone (uberjob.run(physical, output=node), "
        "no registry) must perform the same calls, reads, writes and return the same output and leave the same store contents")
TRUSTED_BASE = ["harness/cache_corr.py worlds; store state snapshot/restore between the two executions"]


def run(ctx):
    uj = core.use_repo()
    rng = ctx.rng
    tc = transform_corr.TransformCampaign(ctx)
    specs = list(cache_corr.TARGETED.items()) * ctx.n(2, 6)
    for wi in range(ctx.n(70, 1500) + len(specs)):
        spec = specs[wi][1] if wi < len(specs) else None
        w = cache_corr.World(uj, rng, maxn=ctx.n(8, 10), spec=spec, normalising=(wi % 2 == 1))
        for step in range(ctx.n(4, 6)):
            output = rng.choice([None] + list(range(w.n)))
            fresh = cache_corr.random_fresh(w, rng)
            sigma = [(s.v, s.t) for s in w.stores]
            res, log = tc.observe(w, output, fresh, [wi, step])
            rep = {"meta": w.meta, "output": output, "fresh": fresh, "sigma": w.sigma()}
            bad = [e for e in log if e[0] != "mtime"]
            if bad:
                ctx.fail("dry-run-touches", "dry run performed %r" % (bad[:5],), rep)
            if [(s.v, s.t) for s in w.stores] != sigma:
                ctx.fail("dry-run-changes-stores", "dry run changed store contents", rep)
            ctx.case((wi, step, tuple(str(x) for x in w.sigma()), output, fresh), nontrivial=len(w._stale_now) > 0,
                     sample={"meta": w.meta, "stale": sorted(w._stale_now), "dry_run_log": log[:20]} if wi == 2 and step == 1 else None)
            if res[0] == "ok":
                # the same transform_physical (none / identity / one that adds an audit call and redirects the output) is
                # given to the dry run and to the real run
                def audit(*a):
                    w.op("call", -1, a)
                    return a[0] if a else None

                def add_audit(pl, out):
                    n = pl.call(audit, out) if out is not None else pl.call(audit)
                    return pl, n
                tp = rng.choice([None, lambda pl, out: (pl, out), add_audit])
                ctx.count("transform_physical", "none" if tp is None else "audit" if tp is add_audit else "identity")
                if tp is not None:
                    res = w.run(output, fresh, dry_run=True, transform=tp)
                    if [e for e in w.log if e[0] != "mtime"]:
                        ctx.fail("dry-run-touches", "dry run (with transform_physical) performed %r" % ([(k, i) for k, i, _ in w.log if k != "mtime"][:5],), rep)
                    if res[0] != "ok":
                        continue
                phys, outnode = res[1]
                if outnode is not None and not phys.graph.has_node(outnode):
                    ctx.fail("output-node-not-in-plan", "the output node returned by the dry run is not a node of the returned physical plan", rep)
                    continue
                clock = w.clock
                resA = w.run(output, fresh, workers=rng.choice([1, 3]), transform=tp)
                logA = sorted((k, i) for k, i, _ in w.log if k in ("call", "read", "write"))
                afterA = [(s.v) for s in w.stores]
                for s, (v, t) in zip(w.stores, sigma):
                    s.v, s.t = v, t
                w.clock = clock
                w.log, w.opcount = [], 0
                try:
                    # "executing all nodes of that plan by itself, with no registry"
                    r = uj.run(phys, output=[outnode, list(phys.graph.nodes())], progress=None, max_workers=rng.choice([1, 3]))
                    resB = ("ok", r[0])
                except uj.CallError as e:
                    resB = ("callerror", e)
                logB = sorted((k, i) for k, i, _ in w.log if k in ("call", "read", "write"))
                afterB = [(s.v) for s in w.stores]
                ctx.count("real_run_status", resA[0])
                if resA[0] != resB[0] or (resA[0] == "ok" and resA[1] != resB[1]):
                    ctx.fail("plan-alone-different-result", "executing the dry-run plan alone gave %r, the real run %r" % (resB[:2], resA[:2]), rep)
                if resA[0] == "ok" and (logA != logB or afterA != afterB):
                    ctx.fail("plan-alone-different-effects", "dry-run plan executed alone: ops %r, real run: %r" % (logB[:12], logA[:12]), rep)
            op = rng.choice(["none", "update", "delete", "delete"])
            if op == "update":
                srcs = [m["store"] for m in w.meta if m["is_src"]]
                if srcs:
                    w.set_store(rng.choice(srcs), rng.randrange(1, 1000))
            elif op == "delete":
                st = [m["store"] for m in w.meta if m["store"] is not None and not m["is_src"]]
                if st:
                    s = rng.choice(st)
                    w.stores[s].v = w.stores[s].t = None
    tc.eval_model()
