"""Helper process for C11's os._exit faults: reads a JSON list of cases on stdin, runs each one with
c11_common.run_case (which forks a child that dies by os._exit at the chosen file operation) and prints a
JSON list of observations.  Started by harness/c11.py with core.PY and env=core.repo_env()."""
import json
import os
import sys

sys.path.insert(0, os.path.dirname(os.path.abspath(__file__)))
import c11_common as cc  # noqa


def main():
    import uberjob  # noqa  (resolved through PYTHONPATH = <repo>/src)
    cases = json.load(sys.stdin)
    out = []
    for c in cases:
        c = cc.dec(c)
        try:
            out.append(cc.enc(cc.run_case(c)))
        except BaseException as e:
            out.append({"harness_error": "%s: %s" % (type(e).__name__, e)})
    sys.stdout.write(json.dumps({"uberjob": os.path.dirname(uberjob.__file__), "results": out}))
    sys.stdout.flush()


if __name__ == "__main__":
    main()
