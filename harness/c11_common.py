"""Shared by harness/c11.py (in-process exception faults) and harness/c11_child.py (os._exit faults in forked
children): writers, values, the file-operation injector and run_case().

File operations of one write are numbered in execution order from 0: the call of `open` in
uberjob.stores._file_store, every write()/close() on the object it returned, `os.replace`, `os.remove`.
Nothing in /repo is edited: the names `open` and `os` are rebound in the module namespace of
uberjob.stores._file_store for the duration of one write."""
import builtins
import os
import pathlib
import shutil
import tempfile

OLD = b"OLD-CONTENT\n"
JUNK = b"\x00JUNK-LEFT-BY-A-KILLED-PROCESS"
OLD_NS = 10 ** 18          # fixed old mtime (2001-09-09), so "mtime changed" does not depend on clock granularity
DIE_CODE = 77


class Unserialisable:
    def __reduce__(self):
        raise TypeError("cannot pickle on purpose")


class BodyError(Exception):
    pass


def values_for(writer, thorough=False):
    """name -> value.  For helper writers a value is (chunks, raise_after)."""
    bad = Unserialisable()
    if writer == "json":
        v = {"small": {"a": [1, "é"]}, "scalar": 3, "empty": [],
             "bad_deep": {"a": [1, {"b": [2, bad]}], "z": 0}}
        if thorough:
            v.update({"str": "x\ny", "nest": [[[]], {"k": {"k": None}}], "bad_first": bad})
        return v
    if writer == "pickle":
        v = {"small": {"a": (1, 2)}, "bad": [1, 2, bad],
             "big_bad": [b"x" * 70000, b"y" * 70000, bad]}       # frames reach the file before the failure
        if thorough:
            v.update({"none": None, "big": [b"x" * 70000, b"y" * 70000]})
        return v
    if writer == "text":
        v = {"crlf": "ab\r\ncé", "empty": ""}
        if thorough:
            v.update({"long": "line\n" * 50})
        return v
    if writer == "binary":
        v = {"bytes": b"\x00\xff\n\r", "empty": b""}
        if thorough:
            v.update({"long": bytes(range(256))})
        return v
    if writer == "touch":
        return {"none": None, "bad": 5}
    if writer == "sw_text":
        return {"chunks": (["ab", "", "cé"], False), "raise": (["ab", "cd"], True), "nochunk_raise": ([], True)}
    if writer in ("sw_bin", "swp"):
        return {"chunks": ([b"\x01\x02", b"\x03"], False), "raise": ([b"\x01\x02"], True), "nochunk": ([], False)}
    raise KeyError(writer)


WRITERS = ["json", "pickle", "text", "binary", "touch", "sw_text", "sw_bin", "swp"]
IMPL_ONLY = {("pickle", "big_bad"), ("pickle", "big")}      # too large for Coq literals: monitors only
GOOD_VALUE = {"json": "small", "pickle": "small", "text": "crlf", "binary": "bytes", "touch": "none",
              "sw_text": "chunks", "sw_bin": "chunks", "swp": "chunks"}


def fs_mod():
    import uberjob.stores._file_store as m
    return m


def do_write(writer, path, value):
    import uberjob.stores as st
    m = fs_mod()
    if writer == "json":
        st.JsonFileStore(path).write(value)
    elif writer == "pickle":
        st.PickleFileStore(path).write(value)
    elif writer == "text":
        st.TextFileStore(path, encoding="utf-8").write(value)
    elif writer == "binary":
        st.BinaryFileStore(path).write(value)
    elif writer == "touch":
        st.TouchFileStore(path).write(value)
    elif writer in ("sw_text", "sw_bin"):
        chunks, raise_after = value
        kw = {"mode": "w", "encoding": "utf-8", "newline": ""} if writer == "sw_text" else {"mode": "wb"}
        with m.staged_write(path, **kw) as f:
            for c in chunks:
                f.write(c)
            if raise_after:
                raise BodyError("user code failed")
    elif writer == "swp":
        chunks, raise_after = value
        with m.staged_write_path(path) as sp:
            if isinstance(path, pathlib.Path) != isinstance(sp, pathlib.Path) or str(sp) != str(path) + ".STAGING":
                raise AssertionError("staging path %r for %r" % (sp, path))
            opener = m.__dict__.get("open", builtins.open)     # the (possibly instrumented) open of the module
            with opener(sp, "wb") as f:
                for c in chunks:
                    f.write(c)
                if raise_after:
                    raise BodyError("user code failed")
    else:
        raise KeyError(writer)


def do_read(writer, path):
    import uberjob.stores as st
    if writer == "json":
        return st.JsonFileStore(path).read()
    if writer == "pickle":
        return st.PickleFileStore(path).read()
    if writer == "text":
        return st.TextFileStore(path, encoding="utf-8").read()
    if writer == "binary":
        return st.BinaryFileStore(path).read()
    if writer == "touch":
        return st.TouchFileStore(path).read()
    with open(path, "rb") as f:
        return f.read()


def expected_read(writer, value):
    if writer == "sw_text":
        return "".join(value[0]).encode("utf-8")
    if writer in ("sw_bin", "swp"):
        return b"".join(value[0])
    return value


# the subclasses of OSError that the operating system really reports for open / write / close / rename - a handler may single one out
ERRNO_FLAVOURS = {"PermissionError": "EACCES", "FileNotFoundError": "ENOENT", "FileExistsError": "EEXIST", "IsADirectoryError": "EISDIR",
                  "InterruptedError": "EINTR", "BlockingIOError": "EAGAIN", "TimeoutError": "ETIMEDOUT"}


class Injected(OSError):
    pass


class InjectedBase(KeyboardInterrupt):
    pass


class Injector:
    """kind: 0 none, 1 exception, 2 die before, 3 die after operation number k."""

    def __init__(self, kind=0, k=-1, pre=0, exc="OSError"):
        self.kind, self.k, self.pre, self.exc = kind, k, pre, exc
        self.n = 0
        self.log = []          # [name, data-bytes-or-None]
        self.fired = None      # (op name, bytes of the chunk prefix that reached the file)

    def _exc(self):
        if self.exc in ERRNO_FLAVOURS:
            import errno
            return getattr(builtins, self.exc)(getattr(errno, ERRNO_FLAVOURS[self.exc]), "injected")
        return Injected("injected") if self.exc == "OSError" else InjectedBase("injected")

    def op(self, name, data, do, do_prefix=None):
        i = self.n
        self.n += 1
        self.log.append([name, data])
        hit = i == self.k
        if hit and self.kind == 2:
            os._exit(DIE_CODE)
        if hit and self.kind == 1:
            pre_bytes = 0
            if do_prefix is not None:
                pre_bytes = do_prefix(self.pre)
            self.fired = (name, pre_bytes)
            raise self._exc()
        r = do()
        if hit and self.kind == 3:
            os._exit(DIE_CODE)
        return r

    # --- the names rebound in uberjob.stores._file_store
    def open(self, path, mode="r", *a, **kw):
        def real():
            return FileProxy(builtins.open(path, mode, *a, **kw), self)

        def prefix(pre):
            if pre:
                builtins.open(path, mode, *a, **kw).close()     # created, then open() itself failed
            return pre

        return self.op("open", None, real, prefix)

    class OsProxy:
        def __init__(self, inj):
            self._inj = inj

        # every other os function that changes a file is a numbered operation too (a fault / a process death can hit it): code that
        # bypasses open() / os.replace() - os.open + os.write + os.ftruncate, os.rename, os.link ... - is covered the same way
        COUNTED = ("open", "write", "pwrite", "writev", "ftruncate", "truncate", "close", "fsync", "fdatasync", "rename", "renames", "link", "symlink", "unlink", "utime")

        def __getattr__(self, name):
            real = getattr(os, name)
            if name in Injector.OsProxy.COUNTED:
                return lambda *a, **k: self._inj.op("os." + name, None, lambda: real(*a, **k))
            return real

        def replace(self, a, b):
            return self._inj.op("replace", None, lambda: os.replace(a, b))

        def remove(self, a):
            return self._inj.op("remove", None, lambda: os.remove(a))

    def __enter__(self):
        m = fs_mod()
        self._saved = (m.__dict__.get("open", None), m.os)
        m.open = self.open
        m.os = Injector.OsProxy(self)
        return self

    def __exit__(self, *a):
        m = fs_mod()
        if self._saved[0] is None:
            del m.open
        else:
            m.open = self._saved[0]
        m.os = self._saved[1]


class FileProxy:
    def __init__(self, real, inj):
        self._real, self._inj, self._closed = real, inj, False

    def _enc(self, data):
        if isinstance(data, str):
            return data.encode(self._real.encoding)
        return bytes(data)

    def write(self, data):
        def prefix(pre):
            part = data[:pre]
            if len(part):
                self._real.write(part)
            return len(self._enc(part))

        return self._inj.op("write", self._enc(data), lambda: self._real.write(data), prefix)

    def close(self):
        if self._closed:
            return
        self._closed = True

        def prefix(pre):
            self._real.close()       # the descriptor is released, then close() reports an error
            return 0

        return self._inj.op("close", None, self._real.close, prefix)

    def __enter__(self):
        return self

    def __exit__(self, *a):
        self.close()
        return False

    def __getattr__(self, name):
        return getattr(self._real, name)


def snapshot(d, target, staging):
    def rd(p):
        try:
            with open(p, "rb") as f:
                return f.read()
        except FileNotFoundError:
            return None

    t = rd(target)
    changed = None
    if t is not None:
        changed = os.stat(target).st_mtime_ns != OLD_NS
    return {"listing": sorted(os.listdir(d)), "target": t, "staging": rd(staging), "mtime_changed": changed}


def run_case(case):
    """Perform one (possibly faulted) write in a fresh directory and report what the directory looks like.

    case: writer, value (name), pathkind ('str'|'pathlib'), old (None|'old'|'new' - bytes given in case['old_bytes']),
          leftover (bool), kind, k, pre, exc, later (bool)."""
    writer = case["writer"]
    value = values_for(writer, True)[case["value"]]
    d = tempfile.mkdtemp(prefix="ujc11_")
    try:
        tpath = os.path.join(d, "t.dat")
        spath = tpath + ".STAGING"
        path = pathlib.Path(tpath) if case["pathkind"] == "pathlib" else tpath
        old = case.get("old_bytes")
        if old is not None:
            with open(tpath, "wb") as f:
                f.write(old)
            os.utime(tpath, ns=(OLD_NS, OLD_NS))
        if case.get("leftover"):
            with open(spath, "wb") as f:
                f.write(JUNK)
        inj = Injector(case["kind"], case["k"], case.get("pre", 0), case.get("exc", "OSError"))
        out = {"outcome": 0, "exc": None}
        if case["kind"] in (2, 3):
            pid = os.fork()
            if pid == 0:
                code = 0
                try:
                    with inj:
                        do_write(writer, path, value)
                except BaseException:
                    code = 1
                os._exit(code)
            _, status = os.waitpid(pid, 0)
            code = os.waitstatus_to_exitcode(status)
            out["outcome"] = 2 if code == DIE_CODE else code
        else:
            try:
                with inj:
                    do_write(writer, path, value)
            except BaseException as e:      # noqa: the injected fault may be a KeyboardInterrupt subclass
                out["outcome"] = 1
                out["exc"] = type(e).__name__
            out["log"] = inj.log
            out["fired"] = inj.fired
        out.update(snapshot(d, tpath, spath))
        if case.get("later"):
            # a later, undisturbed write and read in the same directory
            gv = values_for(writer, True)[GOOD_VALUE[writer]]
            lat = {}
            try:
                do_write(writer, path, gv)
                got = do_read(writer, path)
                lat["read_ok"] = (got == expected_read(writer, gv)) and type(got) is type(expected_read(writer, gv))
            except BaseException as e:
                lat["error"] = "%s: %s" % (type(e).__name__, e)
            lat["listing"] = sorted(os.listdir(d))
            out["later"] = lat
        return out
    finally:
        shutil.rmtree(d, ignore_errors=True)


def enc(o):
    """JSON-able form of an observation (bytes -> hex)."""
    if isinstance(o, bytes):
        return {"hex": o.hex()}
    if isinstance(o, dict):
        return {k: enc(v) for k, v in o.items()}
    if isinstance(o, (list, tuple)):
        return [enc(v) for v in o]
    return o


def dec(o):
    if isinstance(o, dict):
        if set(o) == {"hex"}:
            return bytes.fromhex(o["hex"])
        return {k: dec(v) for k, v in o.items()}
    if isinstance(o, list):
        return [dec(v) for v in o]
    return o
