"""C07: run always terminates and leaves nothing running; cycles are rejected up front."""
import threading
import time

import core
import engine_corr
import planlevel

RULE = ("engine level: random DAGs x configs (workers 1..n+2) x failing sets x controlled schedules; the scheduler's 'no runnable thread' "
        "is the deadlock detector, threading.enumerate() the leak detector; traces accepted by Engine.v; cyclic graphs (self loops, "
        "2-cycles, long cycles, cycle off the needed part, cycle through a source) must raise before any call / store access")
TRUSTED_BASE = ["harness/detsched.py, harness/engine_corr.py, harness/planlevel.py"]


def literal_cycles(ctx):
    """a cycle closed through Literal nodes connected only by add_dependency edges must be rejected as well"""
    import networkx as nx
    uberjob = core.use_repo()
    for shape in ("x-lit-x", "x-lit-lit-x", "src-x-lit-x", "x-y-lit-x"):
        for with_output in (True, False):
            calls = []
            p = uberjob.Plan()
            f = lambda *a: calls.append(a) or 1
            x = p.call(f)
            l1 = p.lit("gate")
            if shape == "x-lit-x":
                p.add_dependency(x, l1); p.add_dependency(l1, x)
                out = x
            elif shape == "x-lit-lit-x":
                l2 = p.lit("gate2")
                p.add_dependency(x, l1); p.add_dependency(l1, l2); p.add_dependency(l2, x)
                out = x
            elif shape == "src-x-lit-x":
                s0 = p.call(f)
                y = p.call(f, s0)
                p.add_dependency(y, l1); p.add_dependency(l1, y)
                out = y
            else:
                y = p.call(f, x)
                p.add_dependency(y, l1); p.add_dependency(l1, x)
                out = y
            ctx.case(("literal-cycle", shape, with_output))
            try:
                core.call_watched(lambda: uberjob.run(p, output=out if with_output else [out, 1], progress=None, max_workers=2))
                ctx.fail("cycle:literal-not-rejected", "a dependency cycle through a literal (%s) was run without an error; calls executed: %d" % (shape, len(calls)),
                         {"shape": shape})
            except nx.HasACycle:
                if calls:
                    ctx.fail("cycle:literal-late", "cycle through a literal (%s) reported after %d calls ran" % (shape, len(calls)), {"shape": shape})
            except BaseException as e:  # noqa
                ctx.fail("cycle:literal-wrong-error", "cycle through a literal (%s) raised %r" % (shape, e), {"shape": shape})


def interrupted(ctx):
    """when run raises because the calling thread was interrupted, nothing is still executing and every thread has exited"""
    import detsched
    camp = engine_corr.EngineCampaign(ctx)
    rng = ctx.rng
    for gi in range(ctx.n(12, 100) if camp.usable else 0):
        fam, nodes, edges = engine_corr.gen_graph(rng, maxn=7)
        if len(nodes) < 2:
            continue
        k = rng.randrange(0, len(nodes))
        # ... also when the call that is in flight at the interrupt (or a later one) fails and exceeds the error limit
        failing = rng.sample(nodes, rng.choice([0, 1, 1, 2]))
        run_, outcome = camp.one(nodes, edges, rng.choice([1, 2, 3]), rng.choice([0, 0, 1, None]), rng.choice(["default", "random", "cheap"]),
                                 failing, rng.choice(["Exception", "BaseException"]), detsched.random_chooser(rng, 0.2), "interrupt",
                                 interrupt_at=("join", k))
        ctx.case(("c07-interrupt", tuple(nodes), tuple(edges), k))
    # independent calls that ALL fail, interrupt after k starts: the error limit is exceeded around the time the coordinator queues the
    # shutdown sentinels - they must still reach every worker
    for workers in ((2, 3) if camp.usable else ()):
        for max_errors in (0, 1):
            for k in (1, 2, 3):
                for si in range(ctx.n(2, 6)):
                    nodes = list(range(6))
                    run_, outcome = camp.one(nodes, [], workers, max_errors, rng.choice(["default", "random", "cheap"]), nodes, "Exception",
                                             detsched.random_chooser(rng, rng.choice([0.1, 0.4])), "interrupt+failures", interrupt_at=("join", k))
                    ctx.case(("c07-interrupt-all-failing", workers, max_errors, k, si))
    engine_corr.file_findings(ctx, camp, {"C07"})


def observer_threads(ctx):
    """run(progress=[...]) with a bundled display (it starts an update thread) next to a member whose __enter__ or __exit__
    raises, or with a failing call: whatever run raises, the threads it started are gone when it returns"""
    import contextlib
    import io
    import threading
    import time
    uberjob = core.use_repo()
    import uberjob.progress as up

    class BadObs(up.ProgressObserver):
        def __init__(self, where):
            self.where = where

        def __enter__(self):
            if self.where == "enter":
                raise OSError("cannot open the progress log")

        def __exit__(self, *a):
            if self.where == "exit":
                raise OSError("cannot close the progress log")

        def increment_total(self, **k):
            pass
        increment_running = increment_completed = increment_failed = increment_total

    class BadProgress(up.Progress):
        def __init__(self, where):
            self.where = where

        def observer(self):
            return BadObs(self.where)

    def boom():
        raise ValueError("call fails")
    for where in ("enter", "exit", "none"):
        for order in ("display-first", "display-last"):
            for failing_call in (False, True):
                plan = uberjob.Plan()
                x = plan.call(boom) if failing_call else plan.call(lambda: 1)
                members = [up.console_progress, BadProgress(where)]
                if order == "display-last":
                    members.reverse()
                before = set(threading.enumerate())
                with contextlib.redirect_stdout(io.StringIO()):
                    try:
                        uberjob.run(plan, output=x, progress=members, max_workers=2)
                        oc = "returned"
                    except BaseException as e:      # noqa
                        oc = type(e).__name__
                deadline = time.time() + 3
                while time.time() < deadline:
                    leaked = [t for t in threading.enumerate() if t not in before and t.is_alive()]
                    if not leaked:
                        break
                    time.sleep(0.01)
                ctx.case(("c07-observer-threads", where, order, failing_call))
                ctx.count("observer_fault_outcome", "%s/%s" % (where, oc))
                if leaked:
                    ctx.fail("observer-thread-leak", "run(progress=[console display, member whose __%s__ raises]) (%s) ended with %s but left threads running: %r"
                             % (where, order, oc, [t.name for t in leaked]), {"member_fails_in": where, "order": order, "failing_call": failing_call})
                    for t in leaked:      # let the leaked update thread end so that the check itself can finish
                        for obj in __import__("gc").get_objects():
                            if isinstance(obj, up.ProgressObserver.__mro__[0]) and hasattr(obj, "_done_event"):
                                try:
                                    obj._done_event.set()
                                except Exception:
                                    pass


def failing_progress_output(ctx):
    """a progress display whose output keeps failing (HTML target in a missing directory, a callable that raises) must not
    keep run from finishing: run returns or raises promptly and its threads are gone"""
    import os
    import tempfile
    import threading
    import time
    uberjob = core.use_repo()
    import uberjob.progress as up

    def raising_output(data):
        raise OSError("progress sink unavailable")
    d = tempfile.mkdtemp(prefix="ujc07p_")
    try:
        for sink_name, sink in (("missing-directory", os.path.join(d, "no", "such", "dir", "progress.html")), ("raising-callable", raising_output)):
            for failing_call in (False, True):
                plan = uberjob.Plan()
                x = plan.call((lambda: 1 / 0) if failing_call else (lambda: 1))
                before = set(threading.enumerate())
                box = {}

                def target():
                    try:
                        uberjob.run(plan, output=x, progress=up.html_progress(sink), max_workers=2)
                        box["o"] = "returned"
                    except BaseException as e:      # noqa
                        box["o"] = type(e).__name__
                th = threading.Thread(target=target, daemon=True)
                hook, threading.excepthook = threading.excepthook, (lambda a: None)
                try:
                    th.start()
                    th.join(15)
                    ctx.case(("c07-progress-output-fault", sink_name, failing_call))
                    if "o" not in box:
                        ctx.fail("progress-output:hang", "run(progress=html_progress(<%s>)) did not return within 15 s although every call had finished" % sink_name,
                                 {"sink": sink_name, "failing_call": failing_call})
                        return
                    ctx.count("progress_output_fault_outcome", "%s/%s" % (sink_name, box["o"]))
                    deadline = time.time() + 3
                    leaked = True
                    while time.time() < deadline and leaked:
                        leaked = [t for t in threading.enumerate() if t not in before and t is not th and t.is_alive()]
                        time.sleep(0.01)
                    if leaked:
                        ctx.fail("progress-output:thread-leak", "run(progress=html_progress(<%s>)) ended with %s but left threads running: %r"
                                 % (sink_name, box["o"], [t.name for t in leaked]), {"sink": sink_name, "failing_call": failing_call})
                finally:
                    threading.excepthook = hook
    finally:
        import shutil
        shutil.rmtree(d, ignore_errors=True)


def nested_and_scoped(ctx):
    """run returns also when it is called while a plan.scope(...) block is open, when a call function or a store's read itself
    runs another plan with a registry, and when another thread keeps a scope of its own plan open meanwhile"""
    import datetime as dt
    import threading
    uberjob = core.use_repo()

    class Mem(uberjob.ValueStore):
        def __init__(self, v=None):
            self.v, self.t = v, (dt.datetime(2020, 1, 1) if v is not None else None)

        def read(self):
            return self.v

        def write(self, v):
            self.v, self.t = v, dt.datetime(2021, 1, 1)

        def get_modified_time(self):
            return self.t

    def inner_run():
        ip, ir = uberjob.Plan(), uberjob.Registry()
        with ip.scope("inner"):
            x = ip.call(lambda: 5)
        ir.add(x, Mem())
        return uberjob.run(ip, registry=ir, output=x, progress=None, max_workers=2)

    def scenario(kind):
        plan, reg = uberjob.Plan(), uberjob.Registry()
        if kind == "nested-in-call":
            with plan.scope("outer"):
                y = plan.call(inner_run)
                return uberjob.run(plan, output=y, progress=None, max_workers=2)
        if kind == "nested-in-store-read":
            class NestedStore(Mem):
                def read(self):
                    return inner_run()
            with plan.scope("outer"):
                s_ = reg.source(plan, NestedStore(1))
                y = plan.call(lambda v: v, s_)
                return uberjob.run(plan, registry=reg, output=y, progress=None, max_workers=2)
        # another thread holds a scope of ITS plan open while this thread runs a plan with a registry
        other = uberjob.Plan()
        entered, release = threading.Event(), threading.Event()

        def holder():
            with other.scope("held"):
                entered.set()
                release.wait(10)
        th = threading.Thread(target=holder, daemon=True)
        th.start()
        entered.wait(5)
        try:
            return inner_run()
        finally:
            release.set()
            th.join(5)
    for kind in ("nested-in-call", "nested-in-store-read", "other-thread-holds-a-scope"):
        box = {}

        def target():
            try:
                box["o"] = scenario(kind)
            except BaseException as e:      # noqa
                box["o"] = "raised %s: %s" % (type(e).__name__, e)
        th = threading.Thread(target=target, daemon=True)
        th.start()
        th.join(15)
        ctx.case(("c07-nested-scoped", kind))
        if "o" not in box:
            ctx.fail("nested:hang", "uberjob.run (%s) did not return within 15 s" % kind, {"scenario": kind})
            return
        if box["o"] != 5:
            ctx.fail("nested:result", "uberjob.run (%s) gave %r instead of 5" % (kind, box["o"]), {"scenario": kind})


def transform_cycles(ctx):
    """a cycle that transform_physical introduces is rejected like any other: HasACycle, no call executed, no store written -
    with and without a registry"""
    import datetime as dt
    import networkx as nx
    uberjob = core.use_repo()

    class Mem(uberjob.ValueStore):
        def __init__(self):
            self.v, self.t, self.writes = None, None, 0

        def read(self):
            return self.v

        def write(self, v):
            self.writes += 1
            self.v, self.t = v, dt.datetime(2021, 1, 1)

        def get_modified_time(self):
            return self.t
    for with_registry in (False, True):
        for workers in (1, 3):
            executed = []
            plan, reg = uberjob.Plan(), uberjob.Registry()
            a = plan.call(lambda: executed.append("a") or 1)
            b = plan.call(lambda v: executed.append("b") or v + 1, a)
            c = plan.call(lambda v: executed.append("c") or v + 1, b)
            other = plan.call(lambda: executed.append("other") or 0)
            st = Mem()
            if with_registry:
                reg.add(other, st)

            def tp(pl, out):
                pl.add_dependency(out, next(n for n in pl.graph.nodes() if n is a))       # output -> a: a cycle a -> b -> c -> a
                return pl, out
            ctx.case(("c07-transform-cycle", with_registry, workers))
            try:
                res = core.call_watched(lambda: uberjob.run(plan, output=c, registry=reg if with_registry else None, transform_physical=tp, max_workers=workers, progress=None))
                oc = "returned %r" % (res,)
            except nx.HasACycle:
                oc = "HasACycle"
            except BaseException as e:      # noqa
                oc = "raised %s" % type(e).__name__
            if oc != "HasACycle" or executed or st.writes:
                ctx.fail("transform-cycle", "transform_physical added a dependency that closes a cycle (%s registry): run %s; calls executed %r, store writes %d"
                         % ("with" if with_registry else "without", oc, executed, st.writes), {"registry": with_registry, "max_workers": workers})


def slow_progress_sink(ctx):
    """the final progress output may take long (slow disk, blocked pipe): run still waits for the display thread it started"""
    import functools
    import threading
    import time
    uberjob = core.use_repo()
    from uberjob.progress import Progress
    from uberjob.progress._html_progress_observer import HtmlProgressObserver
    for failing_call in (False, True):
        calls = []

        def sink(data):
            time.sleep(0.8)
            calls.append(time.time())
        prog = Progress(functools.partial(HtmlProgressObserver, sink, initial_update_delay=0.05, min_update_interval=0.05, max_update_interval=0.1))
        plan = uberjob.Plan()
        x = plan.call((lambda: 1 / 0) if failing_call else (lambda: 1))
        before = set(threading.enumerate())
        try:
            uberjob.run(plan, output=x, progress=prog, max_workers=2)
        except uberjob.CallError:
            pass
        t_ret = time.time()
        alive = [t.name for t in threading.enumerate() if t not in before and t.is_alive()]
        time.sleep(1.2)
        late = [t for t in calls if t > t_ret + 0.05]
        ctx.case(("c07-slow-sink", failing_call))
        if alive or late:
            ctx.fail("slow-sink:thread-alive", "a slow progress sink: when run ended, threads it had started were still alive %r and the sink was written %d time(s) afterwards"
                     % (alive, len(late)), {"failing_call": failing_call})


def no_thread_available(ctx):
    """The very first worker thread cannot be started (RuntimeError: can't start new thread - a process / container thread limit): run
    raises at once - it does not sit waiting for workers that do not exist - no call has executed and no thread is left.  (A failure at a
    LATER worker start hits the same start-up window as finding F6 and is documented with it, not probed here.)"""
    import datetime as dt
    uberjob = core.use_repo()

    class Mem(uberjob.ValueStore):
        def read(self):
            return 1

        def write(self, v):
            pass

        def get_modified_time(self):
            return dt.datetime(2020, 1, 1)
    for with_registry in (False, True):
        for workers in (1, 3):
            for scheduler in (None, "random"):
                executed = []
                plan, reg = uberjob.Plan(), uberjob.Registry()
                a = plan.call(lambda: executed.append("a") or 1)
                b = plan.call(lambda v: executed.append("b") or v + 1, a)
                if with_registry:
                    reg.add(b, Mem())
                before = set(threading.enumerate())

                real_start = threading.Thread.start

                def attempt():
                    def start(self):
                        raise RuntimeError("can't start new thread")
                    threading.Thread.start = start
                    try:
                        return uberjob.run(plan, output=b, registry=reg if with_registry else None, max_workers=workers, scheduler=scheduler, progress=None)
                    finally:
                        threading.Thread.start = real_start
                ctx.case(("c07-no-thread-available", with_registry, workers, scheduler))
                try:
                    res = core.call_watched(attempt, timeout=8)
                    oc = "returned %r" % (res,)
                except core.Hang:
                    threading.Thread.start = real_start        # the stuck helper thread never reaches its finally
                    oc = "hang"
                except BaseException as e:      # noqa
                    oc = "raised %s" % type(e).__name__
                left = [t for t in threading.enumerate() if t not in before and t.name != "watched-call"]
                if not oc.startswith("raised") or executed or left:
                    ctx.fail("no-thread-available", "no worker thread can be started (max_workers=%d, %s registry): run %s; calls executed: %r; threads left: %r"
                             % (workers, "with" if with_registry else "without", "did not return (it waits for workers that were never started)" if oc == "hang" else oc, executed, left),
                             {"max_workers": workers, "registry": with_registry, "scheduler": scheduler})
                    if oc == "hang":
                        return           # one stuck run is enough


def run(ctx):
    no_thread_available(ctx)
    cyclic_exception_chains(ctx)
    falsy_stores(ctx)
    import c06
    c06.retry_across_calls(ctx)        # several calls through one retry: no call is retried for ever, run returns
    transform_cycles(ctx)
    slow_progress_sink(ctx)
    nested_and_scoped(ctx)
    observer_threads(ctx)
    failing_progress_output(ctx)
    engine_corr.campaign(ctx, {"C07"})
    literal_cycles(ctx)
    interrupted(ctx)
    planlevel.plan_campaign(ctx, {"C07"}, n_quick=60, n_thorough=1000)
    cycles(ctx)
    import translate_nxutil
    translate_nxutil.check(ctx)      # networkx_util.py (Kahn, all_ancestors, predecessor_count, is_source_node) compiled from the source and linked to Base/Topo.v
    import topo_corr
    topo_corr.run_topo(ctx)         # real topological_sort / all_ancestors / predecessor_count vs Base/Topo.v


def cycles(ctx):
    import datetime as dt
    import networkx as nx
    uberjob = core.use_repo()
    import uberjob._execution.run_function_on_graph as rfg
    rng = ctx.rng
    # engine level: cyclic graph -> HasACycle, before any callback
    for trial in range(ctx.n(40, 400)):
        fam, nodes, edges = engine_corr.gen_graph(rng, maxn=7)
        if len(nodes) < 1 or core.HANGS[0] >= 4:     # (after a few hangs the point is made: do not spend a timeout on every further graph)
            continue
        kind = rng.choice(["self", "two", "back"])
        if kind == "self":
            n = rng.choice(nodes)
            edges.append((n, n, "dep"))
        elif kind == "two" and len(nodes) >= 2:
            a, b = rng.sample(nodes, 2)
            edges += [(a, b, "dep"), (b, a, "pos")]
        else:
            if not edges:
                continue
            # close a cycle along an existing path: add edge from a descendant back to an ancestor
            u, v, _ = rng.choice(edges)
            edges.append((v, u, "dep"))
        g = engine_corr.build_nx(uberjob, nodes, edges)
        called = []
        ctx.case(("cyclic", tuple(nodes), tuple(edges)))
        ctx.count("cyclic_kind", kind)
        try:
            core.call_watched(lambda: rfg.run_function_on_graph(g, called.append, worker_count=2))
            ctx.fail("cycle:not-rejected", "cyclic graph was run without an error", {"nodes": nodes, "edges": edges})
        except nx.HasACycle:
            if called:
                ctx.fail("cycle:late", "calls %r executed before the cycle was reported" % called, {"nodes": nodes, "edges": edges})
        except BaseException as e:
            ctx.fail("cycle:wrong-error", "cyclic graph raised %r" % (e,), {"nodes": nodes, "edges": edges})

    # plan level with a registry: the error must come before any store access
    class Store(uberjob.ValueStore):
        def __init__(self, log, name):
            self.log, self.name, self.v = log, name, None

        def read(self):
            self.log.append(("read", self.name))
            return self.v

        def write(self, v):
            self.log.append(("write", self.name))
            self.v = v

        def get_modified_time(self):
            self.log.append(("mtime", self.name))
            return dt.datetime(2020, 1, 1) if self.v is not None else None

    for where in ("needed", "off-output", "through-source", "dependant-created-first"):
        for with_registry in (False, True):
            log, calls = [], []
            p = uberjob.Plan()
            r = uberjob.Registry()
            f = lambda *a: calls.append(a) or 1
            early = p.call(f)           # created before everything else; in "dependant-created-first" it is made to depend on the cycle later
            src = r.source(p, Store(log, "src")) if with_registry else p.call(f)
            a = p.call(f, src)
            b = p.call(f, a)
            c = p.call(f, b)
            other = p.call(f, 5)
            other2 = p.call(f, other)
            if where == "needed":
                p.add_dependency(c, a)
            elif where == "dependant-created-first":
                p.add_dependency(c, a)
                p.add_dependency(b, early)
                c = p.call(f, c, early)
            elif where == "off-output":
                p.add_dependency(other2, other)
            else:
                p.add_dependency(c, src)
            if with_registry:
                r.add(b, Store(log, "b"))
            ctx.case(("plan-cycle", where, with_registry))
            before = set(threading.enumerate())
            try:
                core.call_watched(lambda: uberjob.run(p, output=c, registry=r if with_registry else None, progress=None, max_workers=2))
                if where != "off-output" or with_registry:
                    ctx.fail("cycle:plan-not-rejected", "plan with a cycle (%s) ran without error" % where, {"where": where, "registry": with_registry})
            except nx.HasACycle:
                if calls or log:
                    ctx.fail("cycle:plan-late", "cycle (%s) reported after calls %r / store accesses %r" % (where, calls, log),
                             {"where": where, "registry": with_registry, "log": log})
            except BaseException as e:
                ctx.fail("cycle:plan-wrong-error", "plan with a cycle raised %r" % (e,), {"where": where, "registry": with_registry})
            if [t for t in threading.enumerate() if t not in before]:
                ctx.fail("cycle:plan-leak", "threads left after cycle error", {"where": where})


def cyclic_exception_chains(ctx):
    """A failing call may raise an exception whose __cause__ / __context__ chain is cyclic (`raise errors[-1] from errors[0]` in a retry
    helper that saw a single error; two exceptions naming each other): run still returns - it raises CallError - under every bundled
    progress display, and no thread is left behind."""
    import contextlib
    import io
    uberjob = core.use_repo()
    from uberjob.progress import console_progress, html_progress, null_progress

    def self_cause():
        e = ValueError("self-caused")
        e.__cause__ = e
        return e

    def self_context():
        e = ValueError("self-context")
        e.__context__ = e
        return e

    def pair():
        a, b = ValueError("a"), KeyError("b")
        a.__cause__, b.__cause__ = b, a
        return a

    def via_retry_decorator():
        return None       # the decorator below builds the cycle
    makers = {"__cause__ is itself": self_cause, "__context__ is itself": self_context, "two exceptions naming each other": pair, "retry decorator chaining first and last error": via_retry_decorator}

    def chaining_retry(fn):
        def wrapper(*a, **k):
            errors = []
            try:
                return fn(*a, **k)
            except Exception as e:      # noqa
                errors.append(e)
            raise errors[-1] from errors[0]
        return wrapper
    for name, mk in makers.items():
        for pname, prog in (("None", None), ("console", console_progress), ("html(callable)", html_progress(lambda b: None)), ("null", null_progress)):
            for workers in (1, 3):
                def bad():
                    e = mk()
                    if e is None:
                        raise ValueError("only error")
                    raise e
                plan = uberjob.Plan()
                x = plan.call(bad)
                y = plan.call(lambda: 1)
                before = set(threading.enumerate())
                ctx.case(("c07-cyclic-exception-chain", name, pname, workers))
                kw = {"retry": chaining_retry} if mk is via_retry_decorator else {}
                try:
                    with contextlib.redirect_stdout(io.StringIO()), contextlib.redirect_stderr(io.StringIO()):
                        core.call_watched(lambda: uberjob.run(plan, output=[x, y], progress=prog, max_workers=workers, **kw), timeout=25)
                    oc = "returned"
                except uberjob.CallError:
                    oc = "callerror"
                except core.Hang:
                    oc = "hang"
                except BaseException as e:      # noqa
                    oc = "raised %s" % type(e).__name__
                time.sleep(0.05)
                left = [t.name for t in threading.enumerate() if t not in before and t.name != "watched-call"] if oc != "hang" else []
                if oc != "callerror" or left:
                    ctx.fail("cyclic-exception-chain", "a call fails with an exception whose chain is cyclic (%s), progress=%s, max_workers=%d: run %s; threads left: %r"
                             % (name, pname, workers, "did not return within 25 s" if oc == "hang" else oc, left), {"chain": name, "progress": pname, "max_workers": workers})
                    if oc == "hang":
                        return


def falsy_stores(ctx):
    """A value store is an ordinary object: an in-memory / history store that defines __len__ or __bool__ is falsy while it is empty.
    Runs over registries in which SOME or ALL stores are falsy still terminate - stale check and physical run - with the right values,
    for every worker setting, and leave no thread behind."""
    import datetime as dt
    uberjob = core.use_repo()
    for falsy_by in ("__len__", "__bool__"):
        for which in ("all stores", "the source only", "the stored values only"):
            for workers, stale_workers in ((None, None), (1, 1), (4, 2)):
                def mk(falsy):
                    class Hist(uberjob.ValueStore):
                        def __init__(self):
                            self.items = []

                        def read(self):
                            return self.items[-1][0]

                        def write(self, v):
                            self.items.append((v, dt.datetime(2021, 1, 1) + dt.timedelta(seconds=len(self.items))))

                        def get_modified_time(self):
                            return self.items[-1][1] if self.items else None
                    if falsy:
                        if falsy_by == "__len__":
                            Hist.__len__ = lambda self: 0
                        else:
                            Hist.__bool__ = lambda self: False
                    return Hist()
                plan, reg = uberjob.Plan(), uberjob.Registry()
                src_store = mk(which != "the stored values only")
                src_store.items.append((5, dt.datetime(2020, 1, 1)))
                src = reg.source(plan, src_store)
                a = plan.call(lambda v: v + 1, src)
                b = plan.call(lambda v: v * 2, a)
                sa, sb = mk(which != "the source only"), mk(which != "the source only")
                reg.add(a, sa)
                reg.add(b, sb)
                for rnd in ("first run", "repeated run"):
                    before = set(threading.enumerate())
                    ctx.case(("c07-falsy-stores", falsy_by, which, workers, rnd))
                    try:
                        res = core.call_watched(lambda: uberjob.run(plan, registry=reg, output=b, progress=None, max_workers=workers, stale_check_max_workers=stale_workers), timeout=20)
                        oc = "returned %r" % (res,)
                    except core.Hang:
                        oc = "hang"
                    except BaseException as e:      # noqa
                        oc = "raised %s: %r" % (type(e).__name__, getattr(e, "__cause__", None))
                    time.sleep(0.02)
                    left = [t.name for t in threading.enumerate() if t not in before and t.name != "watched-call"] if oc != "hang" else []
                    if oc != "returned 12" or left:
                        ctx.fail("falsy-stores", "value stores that are falsy (define %s; %s), max_workers=%r, stale_check_max_workers=%r, %s: run %s; threads left: %r"
                                 % (falsy_by, which, workers, stale_workers, rnd, "did not return within 20 s" if oc == "hang" else oc, left),
                                 {"falsy_by": falsy_by, "which": which, "max_workers": workers, "stale_check_max_workers": stale_workers, "round": rnd})
                        if oc == "hang":
                            return
