"""C18: staleness depends only on instants, not on time zone or naive/aware form."""
import concurrent.futures as cf
import datetime as dt
import json
import os
import re
import subprocess
import zoneinfo

import core

RULE = ("instants are drawn around every UTC-offset transition (2011-2012 and 2021) of UTC, America/New_York, Europe/London, "
        "Asia/Kolkata, Australia/Lord_Howe (30 min DST) and Pacific/Apia (incl. the skipped day of 2011-12-30): k*15 min either side, "
        "+-1 us, both occurrences of every repeated hour, plus far-apart instants. (1) conversion cases: each instant in each form "
        "(naive local exactly as a file store reports it, aware in UTC / the zone's own offset / fixed offsets / zoneinfo objects) and "
        "non-existent local wall times (gaps, malformed stream) through the real _to_naive_utc_time in a subprocess per TZ; (2) run cases: "
        "a 5-tuple of instants (fresh_time, two sources, two stored values; some absent) is executed by a real uberjob.run(registry=, "
        "fresh_time=) in EVERY zone under several naive/aware mixes; a case is distinct by (instants, zone, mix) and non-trivial when at "
        "least one datetime is naive or carries a non-zero offset")
TRUSTED_BASE = [
    "H-tz: CPython's naive.astimezone() (local_to_seconds + localtime) inverts datetime.fromtimestamp when fold is honoured; premise of the "
    "C18 theorems, tested for every generated instant in every zone on CPython and on the model zone",
    "the C library's TZ handling / tzdata on this machine agree with zoneinfo (cross-checked per datetime: wall, fold, offset)",
    "Store/Time.v table_zone + mktime (CPython's local_to_seconds transcribed) are used for evaluation only; the theorems hold for any zone satisfying H-tz",
    "datetimes CPython cannot convert (around datetime.min/max) are returned unchanged by the code and are outside the model",
]
ZONES = ["UTC", "America/New_York", "Europe/London", "Asia/Kolkata", "Australia/Lord_Howe", "Pacific/Apia"]
EPOCH = dt.datetime(1970, 1, 1, tzinfo=dt.timezone.utc)
EPOCH_N = dt.datetime(1970, 1, 1)
US = dt.timedelta(microseconds=1)
MIN15 = 15 * 60 * 10 ** 6
HOUR = 3600 * 10 ** 6
FIXED_OFFS = [0, 19800 * 10 ** 6, -4 * HOUR, 14 * HOUR, -10 * HOUR, 37800 * 10 ** 6, -12 * HOUR + 60 * 10 ** 6]
HEADER = ("From Coq Require Import List Arith Bool ZArith.\nImport ListNotations.\n"
          "From UJ Require Import Store.Time Run.Exec_Time.\nLocal Open Scope Z_scope.\n")


def us_of(d):
    return (d - EPOCH) // US


def off_at(zi, i):
    return (EPOCH + i * US).astimezone(zi).utcoffset() // US


def transitions(zi, start, end):
    """[(instant_us, offset_us after it)] within [start, end), found by a daily scan and bisection to the second."""
    out, day = [], 86400 * 10 ** 6
    t, o = start, off_at(zi, start)
    while t < end:
        o2 = off_at(zi, t + day)
        if o2 != o:
            lo, hi = t, t + day
            while hi - lo > 10 ** 6:
                mid = (lo + hi) // 2 // 10 ** 6 * 10 ** 6
                if off_at(zi, mid) == o:
                    lo = mid
                else:
                    hi = mid
            out.append((hi, off_at(zi, hi)))
            o = off_at(zi, t + day)
        t += day
    return out


def local_form(zi, i):
    d = (EPOCH + i * US).astimezone(zi)
    return {"naive": True, "wall": (d.replace(tzinfo=None) - EPOCH_N) // US, "fold": d.fold}


def coq_rep(desc):
    if desc is None:
        return "None"
    if desc["naive"]:
        return "(Some (Naive %s %s))" % (core.coq_Z(desc["wall"]), core.coq_bool(bool(desc["fold"])))
    return "(Some (Aware %s %s))" % (core.coq_Z(desc["wall"]), core.coq_Z(desc["off"]))


def nats(s):
    return sorted(int(x) for x in re.findall(r"\d+", s))


def zints(s):
    return [int(x) for x in re.findall(r"-?\d+", s)]


FILE_CHILD = r"""
import os, sys, json, time, tempfile, shutil, datetime as dt
time.tzset()
from uberjob.stores._file_store import get_modified_time
import uberjob.stores as st
from uberjob._transformations.caching import _to_naive_utc_time
inst = json.load(sys.stdin)
d = tempfile.mkdtemp(); p = os.path.join(d, 'f'); open(p, 'w').close()
dd = os.path.join(d, 'dir'); os.mkdir(dd)
e1, e2 = os.path.join(dd, 'early'), os.path.join(dd, 'late')
open(e1, 'w').close(); open(e2, 'w').close()
out = []
try:
    for i in inst:
        os.utime(p, ns=(i * 1000, i * 1000))
        # a path that is a DIRECTORY whose entries were modified 40 minutes before / 20 minutes after the directory itself
        os.utime(e1, ns=((i - 2400 * 10**6) * 1000, (i - 2400 * 10**6) * 1000)); os.utime(e2, ns=((i + 1200 * 10**6) * 1000, (i + 1200 * 10**6) * 1000))
        os.utime(dd, ns=(i * 1000, i * 1000))
        m = get_modified_time(p)
        c = _to_naive_utc_time(m)
        per = {}
        for cls in (st.PathSource, st.TextFileStore, st.JsonFileStore, st.BinaryFileStore, st.PickleFileStore, st.TouchFileStore):
            mk = cls(p).get_modified_time()
            per[cls.__name__] = (_to_naive_utc_time(mk) - dt.datetime(1970, 1, 1)) // dt.timedelta(microseconds=1)
            mk = cls(dd).get_modified_time()
            per[cls.__name__ + " on a directory"] = (_to_naive_utc_time(mk) - dt.datetime(1970, 1, 1)) // dt.timedelta(microseconds=1)
        out.append([(c - dt.datetime(1970, 1, 1)) // dt.timedelta(microseconds=1), m.fold, m.tzinfo is None, per])
finally:
    shutil.rmtree(d, ignore_errors=True)
print(json.dumps({"tzname": list(time.tzname), "out": out}))
"""


def file_mtimes(ctx, zones, tables):
    """The bundled file stores' get_modified_time (real files, mtimes set with os.utime) must denote the file's instant,
    also inside the repeated hour of a fall-back: _to_naive_utc_time(get_modified_time(path)) == instant."""
    import json
    for z in zones:
        trs = [x for x, _ in tables[z][1] if x > us_of(dt.datetime(2019, 1, 1, tzinfo=dt.timezone.utc))]
        inst = []
        for t in trs:
            for delta in (-5400, -1800, -1, 0, 1, 1800, 3599, 3600, 5400):
                inst.append((t // 10 ** 6 + delta) * 10 ** 6)
        inst += [us_of(dt.datetime(2021, 7, 1, 12, tzinfo=dt.timezone.utc)), us_of(dt.datetime(2021, 1, 15, 3, tzinfo=dt.timezone.utc))]
        env = core.repo_env()
        env["TZ"] = z
        p = subprocess.run([core.PY, "-c", FILE_CHILD], input=json.dumps(inst), env=env, stdout=subprocess.PIPE,
                           stderr=subprocess.PIPE, text=True, timeout=300)
        if p.returncode != 0:
            ctx.broke("C18 file-mtime helper failed for TZ=%s" % z, p.stderr[-1500:])
            continue
        rep = json.loads(p.stdout)
        for i, (conv, fold, naive, per) in zip(inst, rep["out"]):
            ctx.case(("file-mtime", z, i))
            for cls, ck in per.items():
                if ck != i:
                    ctx.fail("file-mtime:%s" % cls,
                             "TZ=%s: %s.get_modified_time() of a file modified at instant %d us is read by the staleness check as %d us (off by %d s)"
                             % (z, cls, i, ck, (ck - i) // 10 ** 6), {"zone": z, "store": cls, "instant_us": i, "converted_us": ck})
                    break
            ctx.count("file_mtime_fold", fold)
            if conv != i:
                ctx.fail("file-mtime:wrong-instant",
                         "TZ=%s: a file modified at instant %d us is reported by get_modified_time as a time that the staleness check reads as %d us (off by %d s)" % (z, i, conv, (conv - i) // 10 ** 6),
                         {"zone": z, "instant_us": i, "converted_us": conv, "fold": fold})


def run(ctx):
    core.use_repo()
    import translate_time
    translate_time.check(ctx)        # _to_naive_utc_time compiled from caching.py and linked to Store/Time.v by a theorem
    rng = ctx.rng
    zones, tables = [], {}
    W0, W1 = us_of(dt.datetime(2011, 1, 1, tzinfo=dt.timezone.utc)), us_of(dt.datetime(2022, 6, 1, tzinfo=dt.timezone.utc))
    for z in ZONES:
        try:
            zi = zoneinfo.ZoneInfo(z)
        except Exception as e:
            ctx.notes.setdefault("zones_skipped", []).append("%s: %r" % (z, e))
            continue
        zones.append(z)
        tables[z] = (off_at(zi, W0), transitions(zi, W0, W1))
    if len(zones) < 2:
        ctx.broke("C18 needs at least two usable zones", zones)
        return
    ctx.notes["zones"] = {z: len(tables[z][1]) for z in zones}
    file_mtimes(ctx, zones, tables)

    def interesting(z):
        trs = [x for x, _ in tables[z][1]]
        return [x for x in trs if x < us_of(dt.datetime(2012, 6, 1, tzinfo=dt.timezone.utc)) or x > us_of(dt.datetime(2021, 1, 1, tzinfo=dt.timezone.utc))]

    # ... and, for every transition, the instants whose UTC clock reading equals the zone's local clock reading at the
    # transition (a naive-UTC value re-read as local time would land in the skipped / repeated hour there)
    def shifted(z):
        zi = zoneinfo.ZoneInfo(z)
        return sorted({x + off_at(zi, x - 1) for x in interesting(z)} | {x + off_at(zi, x + 1) for x in interesting(z)})

    pool_tr = sorted({x for z in zones for x in interesting(z)} | {x for z in zones for x in shifted(z)})
    anchors = pool_tr + [us_of(dt.datetime(2021, 7, 1, 12, tzinfo=dt.timezone.utc)), us_of(dt.datetime(2021, 12, 31, 23, 59, 59, tzinfo=dt.timezone.utc))]

    def near(x):
        return x + rng.randint(-10, 10) * MIN15 + rng.choice([0, 0, 1, -1, 999999, 30 * 60 * 10 ** 6 - 1])

    def rep_kind(kind, i, z):
        r = _rep_kind(kind, i, z)
        if rng.random() < 0.25:
            r["sub"] = True        # the same datetime as an instance of a datetime SUBCLASS (as pandas.Timestamp, arrow, pendulum values are)
        return r

    def _rep_kind(kind, i, z):
        if kind == "naive":
            return {"t": "naive", "i": i}
        if kind == "utc":
            return {"t": "aware", "i": i, "off": 0}
        if kind == "own":
            return {"t": "aware", "i": i, "off": off_at(zoneinfo.ZoneInfo(z), i)}
        if kind == "fixed":
            return {"t": "aware", "i": i, "off": rng.choice(FIXED_OFFS)}
        return {"t": "aware_zi", "i": i, "zone": rng.choice(zones)}

    KINDS = ["naive", "utc", "own", "fixed", "zi"]
    # ---------------------------------------------------------------- build the per-zone work lists
    work = {z: [] for z in zones}      # (meta, case)
    # (1) conversions
    for z in zones:
        zi = zoneinfo.ZoneInfo(z)
        own = interesting(z)
        insts = set()
        for x in own:
            for k in range(-8, 9):
                insts.add(x + k * MIN15)
            insts.update([x - 1, x + 1, x - 10 ** 6, x + HOUR - 1])
        for _ in range(ctx.n(25, 400)):
            insts.add(near(rng.choice(anchors)))
        insts = sorted(insts)
        if ctx.quick and len(insts) > 120:
            keep = set(rng.sample(insts, 120))
            # never drop the repeated hours
            for x in own:
                keep.update(x + k * MIN15 for k in range(-5, 6))
            insts = sorted(keep)
        for i in insts:
            kinds = KINDS if not ctx.quick else ["naive", rng.choice(KINDS[1:])]
            for kind in kinds:
                work[z].append(({"kind": "conv", "i": i, "rk": kind}, {"kind": "conv", "rep": rep_kind(kind, i, z)}))
        # gaps: local wall times that do not exist (spring forward), both fold values
        prev = tables[z][0]
        for x, o in tables[z][1]:
            if o > prev and x in own:
                for w in (x + prev, x + prev + (o - prev) // 2, x + o - 1):
                    for fold in (0, 1):
                        work[z].append(({"kind": "gap", "wall": w, "fold": fold}, {"kind": "conv", "rep": {"t": "naive_wall", "wall": w, "fold": fold}}))
            prev = o
    # (2) runs: the same instant tuples in every zone and several representation mixes
    tuples = []
    # the witness of C18_decision_by_instants_prefix_refuted on real time: summer in New York is UTC-4
    T = us_of(dt.datetime(2021, 7, 1, 16, tzinfo=dt.timezone.utc))
    tuples.append({"fresh": T - HOUR, "s": T - 10 * HOUR, "s2": T - 10 * HOUR, "a": T, "b": T + 1})
    for x in pool_tr:
        # two stored values inside the repeated hour / around the transition
        tuples.append({"fresh": None, "s": x - 3 * HOUR, "s2": x - 3 * HOUR, "a": x - 2 * MIN15, "b": x + MIN15})
        tuples.append({"fresh": x + MIN15, "s": x - 3 * HOUR, "s2": x - 3 * HOUR, "a": x - 2 * MIN15, "b": x + 2 * MIN15})
    # values whose UTC clock readings, re-read as local time, fall into / just after the hour the zone skips in spring:
    # the newer one must still count as newer (one tuple per zone, always kept)
    must = []
    for z in zones:
        zi = zoneinfo.ZoneInfo(z)
        prev = tables[z][0]
        for x, o in tables[z][1]:
            if o > prev and x in interesting(z):
                a0 = x + prev             # the local wall reading of the transition, taken as a UTC instant
                must.append({"fresh": None, "s": a0 + 70 * 60 * 10 ** 6, "s2": a0 - 3 * HOUR, "a": a0 + 30 * 60 * 10 ** 6, "b": a0 + 40 * 60 * 10 ** 6})
                break
            prev = o
    if ctx.quick:
        # never drop the tuples whose fresh_time lies in a repeated hour (an aware fresh_time must keep denoting its instant)
        with_fresh = [t for t in tuples[1:] if t["fresh"] is not None]
        keep = with_fresh[:4]
        rest = [t for t in tuples[1:] if t not in keep]
        tuples = tuples[:1] + must + keep + rng.sample(rest, min(len(rest), 12))
    else:
        tuples = tuples + must
    for _ in range(ctx.n(30, 500)):
        x = rng.choice(anchors)
        t = {k: near(x) for k in ("fresh", "s", "s2", "a", "b")}
        if rng.random() < 0.3:
            t["fresh"] = None
        if rng.random() < 0.12:
            t[rng.choice(["a", "b"])] = None
        if rng.random() < 0.2:
            t["s"] = x - 40 * 86400 * 10 ** 6
        if rng.random() < 0.2:
            t["b"] = t["a"]            # equal instants: strict comparison
        tuples.append(t)
    mixes_fixed = [{k: "naive" for k in ("fresh", "s", "s2", "a", "b")},
                   {k: "utc" for k in ("fresh", "s", "s2", "a", "b")},
                   {"fresh": "utc", "s": "naive", "s2": "naive", "a": "naive", "b": "naive"},
                   {"fresh": "naive", "s": "fixed", "s2": "own", "a": "naive", "b": "zi"}]
    for ti, t in enumerate(tuples):
        for z in zones:
            mixes = mixes_fixed + [{k: rng.choice(KINDS) for k in t} for _ in range(ctx.n(1, 3))]
            for mi, mix in enumerate(mixes):
                case = {"kind": "run", "allow_dependent_source": True}
                for k, i in t.items():
                    case[k] = None if i is None else rep_kind(mix[k], i, z)
                work[z].append(({"kind": "run", "tuple": ti, "mix": mix, "mi": mi}, case))

    # ---------------------------------------------------------------- run the children (one per TZ)
    def child(z):
        env = core.repo_env()
        env["TZ"] = z
        probe = [tables[z][1][0][0] - HOUR, tables[z][1][0][0] + HOUR] if tables[z][1] else [anchors[0]]
        p = subprocess.run([core.PY, os.path.join(os.path.dirname(os.path.abspath(__file__)), "c18_child.py")],
                           input=json.dumps({"zone": z, "probe": probe, "cases": [c for _, c in work[z]]}),
                           env=env, stdout=subprocess.PIPE, stderr=subprocess.PIPE, text=True, timeout=900)
        return z, p

    results = {}
    with cf.ThreadPoolExecutor(len(zones)) as ex:
        for z, p in ex.map(child, zones):
            if p.returncode != 0:
                ctx.broke("C18 helper process failed for TZ=%s" % z, p.stderr[-2000:])
                continue
            rep = json.loads(p.stdout)
            if not rep["uberjob"].startswith(core.REPO_SRC):
                ctx.broke("C18 helper imported uberjob from the wrong place", rep["uberjob"])
            if rep.get("warm_up_error"):
                ctx.fail("extreme-markers", "TZ=%s: a run with a source dated datetime.min and fresh_time=datetime.max raised %s" % (z, rep["warm_up_error"]), {"zone": z})
            for what, sk, src_kind, got, want, err in rep.get("markers", []):
                ctx.case(("extreme-marker", z, what, sk, src_kind))
                if got != want:
                    ctx.fail("extreme-markers", "TZ=%s: %s (%s), the dependent value stored at 2024-06-01 12:00 (%s): %s; the marker denotes an instant %s every ordinary one in every zone, so the value must %sbe rebuilt"
                             % (z, what, src_kind, sk, "the run raised " + err if err else ("rebuilt" if got else "not rebuilt"), "after" if want else "before", "" if want else "not "),
                             {"zone": z, "marker": what, "stored": sk, "source": src_kind})
            if not rep["zone_ok"]:
                ctx.notes.setdefault("zones_skipped", []).append("%s: the C library does not honour TZ=%s (tzname %r)" % (z, z, rep["tzname"]))
                continue
            results[z] = rep["results"]

    # ---------------------------------------------------------------- monitors + model terms
    header = HEADER
    for zi_, z in enumerate(zones):
        d, tr = tables[z]
        header += "Definition tr%d : list (Z * Z) := %s.\nDefinition d%d : Z := %s.\n" % (
            zi_, core.coq_list(tr, lambda t: "(%s, %s)" % (core.coq_Z(t[0]), core.coq_Z(t[1]))), zi_, core.coq_Z(d))
    zterms, zmeta = [], []      # list Z terms
    nterms, nmeta = [], []      # list nat terms
    decisions = {}              # tuple index -> {frozenset(written): [(zone, mix)]}
    pre_decisions = {}          # tuple index -> {did the dependent source's predecessor run: [(zone, mix)]}
    for zi_, z in enumerate(zones):
        if z not in results:
            continue
        zinfo = zoneinfo.ZoneInfo(z)
        for (meta, case), res in zip(work[z], results[z]):
            if "error" in res:
                ctx.fail("error:%s" % meta["kind"], "TZ=%s: %s" % (z, res["error"]), {"zone": z, "case": case})
                continue
            if meta["kind"] in ("conv", "gap"):
                desc = res["rep"]
                nontrivial = desc["naive"] or desc.get("off", 0) != 0
                ctx.case((z, meta["kind"], json.dumps(case["rep"], sort_keys=True)), nontrivial=nontrivial)
                ctx.count("conversion", "%s/%s" % (z, meta.get("rk", "gap")))
                if not res["naive_result"]:
                    ctx.fail("conv:aware-result", "_to_naive_utc_time returned an aware datetime", {"zone": z, "case": case})
                if meta["kind"] == "conv":
                    i = meta["i"]
                    # the C library's idea of the zone agrees with zoneinfo (so the table given to the model is the process's zone)
                    if desc["naive"] and desc != local_form(zinfo, i):
                        ctx.broke("process-local zone disagrees with zoneinfo", {"zone": z, "instant": i, "child": desc, "zoneinfo": local_form(zinfo, i)})
                    if desc["naive"]:
                        ctx.compared("H-tz on CPython")
                        if not res.get("h_tz"):
                            ctx.broke("H-tz fails on CPython: naive local form does not convert back to the instant / other fold reading on the wrong side", {"zone": z, "instant": i, "rep": desc})
                        ctx.count("fold_of_naive", desc["fold"])
                    # monitor: every representation of instant i converts to the naive-UTC datetime of i
                    if res["conv"] != i:
                        ctx.fail("conv:%s" % ("naive-local-vs-aware" if desc["naive"] else "aware"),
                                 "TZ=%s: _to_naive_utc_time(%r) is %d us away from the instant it denotes" % (z, desc, res["conv"] - i),
                                 {"zone": z, "instant_us": i, "datetime": desc, "converted_us": res["conv"]})
                    zterms.append("exec_conv true tr%d d%d %s" % (zi_, zi_, coq_rep(desc)[6:-1]))
                    zmeta.append(("conv", z, desc, [res["conv"], i]))
                    if desc["naive"]:
                        zterms.append("exec_zone_at tr%d d%d %s" % (zi_, zi_, core.coq_Z(i)))
                        zmeta.append(("zone_at", z, i, [desc["wall"] - i, desc["fold"], i, res["other"]]))
                else:
                    ctx.count("gap_walls", z)
                    zterms.append("exec_conv true tr%d d%d %s" % (zi_, zi_, coq_rep(desc)[6:-1]))
                    zmeta.append(("gap", z, desc, [res["conv"], None]))
            else:
                reps = res["reps"]
                ti = meta["tuple"]
                t = tuples[ti]
                written = frozenset(res["written"])
                nontrivial = any(d is not None and (d["naive"] or d["off"] != 0) for d in reps.values())
                ctx.case((z, "run", ti, meta["mi"], json.dumps(meta["mix"], sort_keys=True)), nontrivial=nontrivial)
                ctx.count("run_mix", "+".join(sorted(set(meta["mix"][k] for k in t if t[k] is not None))))
                ctx.count("run_stale_set", ",".join(sorted(written)) or "-")
                if res.get("dep_source"):
                    # s2 is a dependent source here (s -> a -> pre -> s2): a plan of its own, compared with the model and across zones / representations
                    pre_decisions.setdefault(ti, {}).setdefault((written, bool(res.get("pre_ran"))), []).append((z, meta["mix"]))
                    plan = ("[mkNode 0%%nat [] (Some (true, %s)); mkNode 1%%nat [0%%nat] (Some (false, %s)); mkNode 2%%nat [1%%nat] None; "
                            "mkNode 3%%nat [2%%nat] (Some (true, %s)); mkNode 4%%nat [1%%nat; 3%%nat] None; mkNode 5%%nat [4%%nat] (Some (false, %s))]"
                            ) % (coq_rep(reps["s"]), coq_rep(reps["a"]), coq_rep(reps["s2"]), coq_rep(reps["b"]))
                    nterms.append("exec_stale true tr%d d%d %s %s" % (zi_, zi_, coq_rep(reps["fresh"]), plan))
                    nmeta.append(("run-dep", z, ti, meta["mix"], (written, bool(res.get("pre_ran")))))
                    continue
                decisions.setdefault(ti, {}).setdefault(written, []).append((z, meta["mix"]))
                plan = ("[mkNode 0%%nat [] (Some (true, %s)); mkNode 1%%nat [] (Some (true, %s)); "
                        "mkNode 2%%nat [0%%nat] (Some (false, %s)); mkNode 3%%nat [2%%nat; 1%%nat] None; "
                        "mkNode 4%%nat [3%%nat] (Some (false, %s))]") % (coq_rep(reps["s"]), coq_rep(reps["s2"]), coq_rep(reps["a"]), coq_rep(reps["b"]))
                nterms.append("exec_stale true tr%d d%d %s %s" % (zi_, zi_, coq_rep(reps["fresh"]), plan))
                nmeta.append(("run", z, ti, meta["mix"], written))
    # the decision on the instants themselves, once per tuple
    for ti, t in enumerate(tuples):
        def oi(i):
            return "None" if i is None else "(Some %s)" % core.coq_Z(i)
        plan = ("[mkNode 0%%nat [] (Some (true, %s)); mkNode 1%%nat [] (Some (true, %s)); "
                "mkNode 2%%nat [0%%nat] (Some (false, %s)); mkNode 3%%nat [2%%nat; 1%%nat] None; "
                "mkNode 4%%nat [3%%nat] (Some (false, %s))]") % (oi(t["s"]), oi(t["s2"]), oi(t["a"]), oi(t["b"]))
        nterms.append("exec_stale_inst %s %s" % (oi(t["fresh"]), plan))
        nmeta.append(("inst", None, ti, None, None))

    zouts = core.coq_eval(header, zterms, ty="list Z", shard=300)
    nouts = core.coq_eval(header, nterms, ty="list nat", shard=300)
    for (what, z, desc, exp), out in zip(zmeta, zouts):
        got = zints(out)
        ctx.compared("Store/Time.v to_naive_utc / table zone vs _to_naive_utc_time and CPython zone arithmetic")
        if what == "conv" and got != exp:
            ctx.broke("correspondence Store/Time.v to_naive_utc vs /repo _to_naive_utc_time", {"zone": z, "datetime": desc, "model [conv, instant]": got, "impl [conv, instant]": exp})
        if what == "gap" and got[0] != exp[0]:
            ctx.broke("correspondence Store/Time.v to_naive_utc vs /repo on a non-existent local time", {"zone": z, "datetime": desc, "model": got[0], "impl": exp[0]})
        if what == "zone_at" and got != exp:
            ctx.broke("model zone (offset table, fold rule, mktime) disagrees with CPython / H-tz fails in the model", {"zone": z, "instant": desc, "model [off, fold, recovered, other fold]": got, "python": exp})
    model_inst = {}
    for (what, z, ti, mix, written), out in zip(nmeta, nouts):
        if what == "inst":
            model_inst[ti] = frozenset({2: "a", 4: "b"}[n] for n in nats(out) if n in (2, 4))
    for (what, z, ti, mix, written), out in zip(nmeta, nouts):
        if what == "run-dep":
            ctx.compared("Store/Time.v stale_nodes (plan with a dependent source) vs stores written / predecessor run by uberjob.run")
            st_ = set(nats(out))
            got = (frozenset({1: "a", 5: "b"}[n] for n in st_ if n in (1, 5)), 3 in st_)
            if got != written:
                ctx.broke("correspondence Store/Time.v stale_nodes vs uberjob.run (dependent source)", {"zone": z, "tuple": tuples[ti], "mix": mix, "model": [sorted(got[0]), got[1]], "impl": [sorted(written[0]), written[1]]})
            continue
        if what != "run":
            continue
        ctx.compared("Store/Time.v stale_nodes vs stores written by uberjob.run")
        got = frozenset({2: "a", 4: "b"}[n] for n in nats(out) if n in (2, 4))
        if got != written:
            ctx.broke("correspondence Store/Time.v stale_nodes vs uberjob.run", {"zone": z, "tuple": tuples[ti], "mix": mix, "model": sorted(got), "impl": sorted(written)})
    # monitor: one decision per instant tuple, whatever the zone and the representation
    for ti, by in decisions.items():
        ref = model_inst.get(ti)
        groups = {k: v for k, v in by.items()}
        if len(groups) > 1 or (ref is not None and set(groups) != {ref}):
            odd = [(sorted(w), v[:3]) for w, v in groups.items() if w != ref]
            inv = [m for _, v in odd for _, m in v]
            naive_involved = any("naive" in m.values() for m in inv)
            ctx.fail("naive-local-vs-aware" if naive_involved else "aware-offset",
                     "the set of rewritten stores depends on zone / representation: instants %r give %r" % (
                         tuples[ti], {",".join(sorted(w)) or "-": ["%s %s" % (z, "/".join(m[k] for k in ("fresh", "s", "s2", "a", "b"))) for z, m in v[:4]] for w, v in groups.items()}),
                     {"instants_us": tuples[ti], "decision_on_instants": sorted(ref) if ref is not None else None,
                      "observed": [{"written": sorted(w), "zone": z, "mix": m} for w, v in groups.items() for z, m in v[:3]]})
    # ... and whether a dependent source counts as out of date (its predecessor call is run) depends on the instants only
    for ti, by in pre_decisions.items():
        if len(by) > 1:
            ctx.fail("dependent-source", "with a dependent source, what is rebuilt / whether the call it depends on is run depends on zone / representation: instants %r give %r"
                     % (tuples[ti], {"%s pre_ran=%s" % (",".join(sorted(k[0])) or "-", k[1]): ["%s %s" % (z, "/".join(m[x] for x in ("fresh", "s", "s2", "a", "b"))) for z, m in v[:4]] for k, v in by.items()}),
                     {"instants_us": tuples[ti], "observed": [{"written": sorted(k[0]), "predecessor_ran": k[1], "zone": z, "mix": m} for k, v in by.items() for z, m in v[:3]]})
    ctx.notes["c18_counts"] = {"tuples": len(tuples), "zones_run": sorted(results), "conv_terms": len(zterms), "run_terms": len(nterms)}
    ctx.samples.append({"tuple": tuples[0], "decision": sorted(model_inst.get(0, [])), "zones": sorted(results)})
    ctx.samples.append({"transitions": {z: [(str(EPOCH + x * US), o // 10 ** 6) for x, o in tables[z][1] if x in interesting(z)][:4] for z in zones}})
