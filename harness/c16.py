"""C16: intermediate results are released as soon as their last consumer has finished."""
import gc
import re
import threading
import weakref

import core

RULE = ("generated DAGs of 1-12 user calls (chains, fan-out, fan-in, random layered; positional and keyword arguments; some "
        "functions return an object that keeps its arguments) with output None / a node / a nested structure; real uberjob.run "
        "with progress=None; max_workers=1 under schedulers default and random: at EVERY user-call start gc.collect() and the set "
        "of live results (weakref) is compared with the model's live set for the current (finished, in-flight) state; "
        "max_workers=3: model-free monitor only; a case is distinct by (shape, output, scheduler, workers); non-trivial = at "
        "least one result was observed dead before the end of the run")
TRUSTED_BASE = [
    "CPython reference counting + gc.collect() free an object as soon as no reference is left; weakref reports it",
    "harness/c16.py holds results only through weakref; run_physical.prep_run_physical is wrapped to learn the physical graph, "
    "the output node and the start/end of every node (the wrapper holds nodes, never results)",
    "failing calls are not generated: the traceback of a raised exception keeps the failed call's argument values alive (runtime residue)",
]


class Obj:
    __slots__ = ("i", "keep", "__weakref__")

    def __init__(self, i):
        self.i, self.keep = i, None


def gen_dag(rng):
    """-> list of (posargs, kwargs, keeper) per call; args are ('n', j) for call j<i or ('l', value)"""
    n = rng.randint(1, 12)
    fam = rng.choice(["chain", "fanout", "fanin", "layered", "layered", "random"])
    calls = []
    for i in range(n):
        if i == 0:
            preds = []
        elif fam == "chain":
            preds = [i - 1] + ([rng.randrange(i)] if rng.random() < 0.2 else [])
        elif fam == "fanout":
            preds = [0] if rng.random() < 0.8 else [rng.randrange(i)]
        elif fam == "fanin":
            preds = list(range(i)) if i == n - 1 else ([] if rng.random() < 0.7 else [rng.randrange(i)])
        elif fam == "layered":
            lo = max(0, i - 4)
            preds = rng.sample(range(lo, i), min(i - lo, rng.choice([1, 1, 2, 3])))
        else:
            preds = rng.sample(range(i), min(i, rng.choice([0, 1, 2, 3])))
        if rng.random() < 0.15 and preds:
            preds.append(preds[0])      # the same node twice (parallel edges)
        items = [("n", p) for p in preds] + [("l", rng.randint(0, 9)) for _ in range(rng.choice([0, 0, 1]))]
        rng.shuffle(items)
        k = rng.randint(0, len(items))
        pos, kw = items[:k], items[k:]
        calls.append((pos, [("k%d" % j, a) for j, a in enumerate(kw)], rng.random() < 0.15))
    return fam, calls


def gen_output(rng, n):
    x = rng.random()
    if x < 0.2:
        return None
    if x < 0.45:
        return ("n", rng.randrange(n))
    def struct(depth):
        y = rng.random()
        if depth == 0 or y < 0.45:
            return ("n", rng.randrange(n)) if rng.random() < 0.8 else ("l", rng.randint(0, 9))
        cnt = rng.choice([1, 2, 2, 3])
        if y < 0.75:
            return ("list", [struct(depth - 1) for _ in range(cnt)])
        if y < 0.9:
            return ("tuple", [struct(depth - 1) for _ in range(cnt)])
        return ("dict", [struct(depth - 1) for _ in range(cnt)])
    return (rng.choice(["list", "tuple", "dict"]), [struct(2) for _ in range(rng.choice([1, 2, 3]))])


def topo(calls, args):
    seen, order = set(), []

    def visit(c):
        if c in seen:
            return
        seen.add(c)
        for a in args[c]:
            visit(a)
        order.append(c)
    for c in calls:
        visit(c)
    return order


def run(ctx):
    bundled_stores_release(ctx)
    dependency_only_predecessors(ctx)
    uberjob = core.use_repo()
    import uberjob._execution.run_physical as rp
    from uberjob import _builtins
    from uberjob.graph import Call, KeywordArg, PositionalArg

    rng = ctx.rng
    import random as _random
    _random.seed(ctx.seed)
    GATHER = (_builtins.gather_list, _builtins.gather_tuple, _builtins.gather_set, _builtins.gather_dict)
    state = {"info": None}
    orig_prep = rp.prep_run_physical

    def w_prep(plan, **kw):
        info = state["info"]
        if info is None:
            return orig_prep(plan, **kw)
        graph = plan.graph
        calls = [n for n in graph.nodes() if type(n) is Call]
        info["args"] = {c: [u for u, _, k in graph.in_edges(c, keys=True)
                            if type(k) in (PositionalArg, KeywordArg) and type(u) is Call] for c in calls}
        info["calls"] = calls
        info["out"] = kw.get("output_node")
        r = orig_prep(plan, **kw)
        proc, log, lock = r.process, info["log"], info["lock"]

        def process(node):
            if type(node) is not Call:
                return proc(node)
            with lock:
                log.append(("start", node))
            try:
                proc(node)
            except BaseException:
                with lock:
                    log.append(("fail", node))
                raise
            with lock:
                log.append(("ok", node))
        return r._replace(process=process)

    rp.prep_run_physical = w_prep
    gc.collect()
    gc.freeze()
    try:
        _run(ctx, uberjob, rng, state, GATHER, Call)
    finally:
        rp.prep_run_physical = orig_prep
        gc.unfreeze()
    extra_scenarios(ctx, uberjob)
    sentinel(ctx)


def extra_scenarios(ctx, uberjob):
    """(A) the inputs of a consumer that FAILS are released too (the failure happens inside C code, so no Python frame of
    the call keeps them alive) while the run goes on; (B) with retry >= 2 the inputs of a call whose first attempt raised
    are released by reference counting alone (cyclic GC switched off) once it has finished."""
    import operator
    import threading
    import time
    import weakref

    class Big:
        pass

    # ---- (A)
    for scheduler in (None, "random"):
        for variant in ("c-level-failure", "second-failure"):
            verdicts, box = [], {}

            def make2():
                b = Big()
                box["wr"] = weakref.ref(b)
                return b

            gate = threading.Event()

            def bad_py2(x):
                gate.wait(5)
                time.sleep(0.1)          # the earlier failure has been recorded as the run's first error by now
                raise ValueError("consumer fails")

            def first_bad2():
                gate.set()
                raise ValueError("an earlier, unrelated failure")

            def probe2():
                t0 = time.time()
                while time.time() - t0 < 20.0:       # generous: only a value that is really kept makes this wait
                    if "wr" in box and box.get("consumer_done"):
                        gc.collect()
                        if box["wr"]() is None:
                            verdicts.append("released")
                            return 1
                    time.sleep(0.01)
                verdicts.append("kept")
                return 0

            import uberjob._execution.run_physical as rp
            orig = rp.prep_run_physical

            def w_prep2(plan, **kw):
                r = orig(plan, **kw)
                proc = r.process

                def process(node):
                    try:
                        proc(node)
                    finally:
                        if getattr(node, "fn", None) in (operator.index, bad_py2):
                            box["consumer_done"] = True
                return r._replace(process=process)
            p = uberjob.Plan()
            big = p.call(make2)
            others = []
            if variant == "c-level-failure":
                others.append(p.call(operator.index, big))
            else:
                others.append(p.call(first_bad2))
                others.append(p.call(bad_py2, big))
            pr = p.call(probe2)
            rp.prep_run_physical = w_prep2
            try:
                try:
                    uberjob.run(p, output=[pr] + others, max_workers=3, max_errors=None, scheduler=scheduler, progress=None)
                except uberjob.CallError:
                    pass
            finally:
                rp.prep_run_physical = orig
            ctx.case(("c16-failing-consumer-verdict", variant, scheduler))
            ctx.count("failing_consumer_verdict", verdicts[0] if verdicts else "none")
            if verdicts and verdicts[0] == "kept":
                ctx.fail("failing-consumer:inputs-kept", "the input of a consumer that failed (%s) stayed alive while the run went on" % variant,
                         {"variant": variant, "scheduler": scheduler, "max_errors": None, "max_workers": 3})

    # ---- (D) a result that NO call consumes (a set-up call others merely depend on; a store write's return value) is dropped
    # as soon as its call has finished, also when several such calls exist
    for workers in (1, 3):
        for scheduler in (None, "random"):
            box = {"alive": []}

            def setup(tag):
                b = Big()
                box[tag] = weakref.ref(b)
                return b

            def probe(tag):
                gc.collect()
                box["alive"] += [t for t in ("s1", "s2") if t in box and box[t]() is not None]
                return tag

            p = uberjob.Plan()
            s1 = p.call(setup, "s1")
            p1 = p.call(probe, "p1")
            s2 = p.call(setup, "s2")
            p2 = p.call(probe, "p2")
            p.add_dependency(s1, p1)
            p.add_dependency(p1, s2)
            p.add_dependency(s2, p2)
            uberjob.run(p, output=[p1, p2], max_workers=workers, scheduler=scheduler, progress=None)
            ctx.case(("c16-unconsumed", workers, scheduler))
            if box["alive"]:
                ctx.fail("unconsumed:kept", "the result of a call that no call consumes (%s) was still alive when a later call ran" % sorted(set(box["alive"])),
                         {"workers": workers, "scheduler": scheduler})

    # ---- (E) when the observer is told that a call completed, the call has already let go of its inputs
    from uberjob.progress import Progress, ProgressObserver
    for workers in (1, 2):
        box = {"done": False, "alive_at_completed": None}

        def make5():
            b = Big()
            box["wr"] = weakref.ref(b)
            return b

        def consumer5(x):
            box["done"] = True
            return 1

        class Obs(ProgressObserver):
            def __enter__(self):
                pass

            def __exit__(self, *a):
                pass

            def increment_total(self, **k):
                pass
            increment_running = increment_failed = increment_total

            def increment_completed(self, *, section, scope):
                if box["done"] and box["alive_at_completed"] is None and "consumer5" in repr(scope):
                    gc.collect()
                    box["alive_at_completed"] = box["wr"]() is not None

        p = uberjob.Plan()
        a = p.call(make5)
        c = p.call(consumer5, a)
        uberjob.run(p, output=c, max_workers=workers, progress=Progress(Obs))
        ctx.case(("c16-completed-callback", workers))
        if box["alive_at_completed"]:
            ctx.fail("completed-callback:kept", "a result was still alive when the observer was told that its last consumer had completed", {"workers": workers})

    # ---- (C) a call that merely DEPENDS on another call (add_dependency) does not keep that call's result alive
    for workers in (1, 3):
        for scheduler in (None, "random"):
            box = {}

            def make4():
                b = Big()
                box["wr"] = weakref.ref(b)
                return b

            def consumer(x):
                return 1

            def dependent():
                gc.collect()
                box["alive_in_dependent"] = box["wr"]() is not None
                return 2

            p = uberjob.Plan()
            a = p.call(make4)
            c = p.call(consumer, a)
            d_ = p.call(dependent)
            p.add_dependency(a, d_)
            p.add_dependency(c, d_)          # d starts after a's only consumer has finished
            uberjob.run(p, output=[c, d_], max_workers=workers, scheduler=scheduler, progress=None)
            ctx.case(("c16-dependency-only", workers, scheduler))
            if box.get("alive_in_dependent"):
                ctx.fail("dependency-only:kept", "the result of a call stays alive for a call that merely depends on it (add_dependency), "
                         "although every call that consumes it has finished", {"workers": workers, "scheduler": scheduler})

    # ---- (F) reference counting alone (cyclic GC off) releases results however they were passed: positionally, by keyword,
    # inside a gathered structure
    for how in ("positional", "keyword", "in-list", "in-dict-kw"):
        for workers in (1, 3):
            box = {}

            def make6():
                b = Big()
                box["wr"] = weakref.ref(b)
                return b

            def consume6(*a, **k):
                return 1

            def probe6(small):
                box["alive_at_probe"] = box["wr"]() is not None
                return small
            p = uberjob.Plan()
            a = p.call(make6)
            c = {"positional": lambda: p.call(consume6, a), "keyword": lambda: p.call(consume6, value=a),
                 "in-list": lambda: p.call(consume6, [a, 1]), "in-dict-kw": lambda: p.call(consume6, d={"k": a})}[how]()
            pr = p.call(probe6, c)
            was = gc.isenabled()
            gc.disable()
            try:
                uberjob.run(p, output=pr, max_workers=workers, progress=None)
            finally:
                if was:
                    gc.enable()
                gc.collect()
            ctx.case(("c16-refcount", how, workers))
            if box.get("alive_at_probe"):
                ctx.fail("refcount:" + how, "a result passed %s is still alive (cyclic GC off) after its only consumer finished: a reference cycle in the "
                         "library keeps it" % how, {"passed": how, "workers": workers})

    # ---- (G) error-tolerant run: a failed call (also one whose callable leaves no Python frame) does not keep its inputs
    import operator
    for fn_kind in ("python-function", "operator.getitem"):
        box = {}

        def make7():
            b = {"big": Big()}
            box["wr"] = weakref.ref(b["big"])
            return b

        def pyfail(d):
            raise KeyError("nope")

        def probe7():
            # polled a little later: the failing call has been handled by then
            import time
            deadline = time.time() + 2
            while time.time() < deadline:
                gc.collect()
                if box["wr"]() is None:
                    break
                time.sleep(0.02)
            box["alive_late"] = box["wr"]() is not None
            return 1
        p = uberjob.Plan()
        t = p.call(make7)
        bad = p.call(operator.getitem, t, "nope") if fn_kind == "operator.getitem" else p.call(pyfail, t)
        pr = p.call(probe7)
        p.add_dependency(t, pr)
        try:
            uberjob.run(p, output=[bad, pr], max_workers=3, max_errors=None, progress=None)
        except uberjob.CallError:
            pass
        ctx.case(("c16-failed-call-inputs", fn_kind))
        ctx.count("failed_call_inputs_kept", "%s:%s" % (fn_kind, box.get("alive_late")))
        if fn_kind == "operator.getitem" and box.get("alive_late"):
            # (for a failing Python function the exception's own traceback references the function's frame and its arguments:
            #  inherent to Python and the same on every version of the code - recorded, not judged)
            ctx.fail("failed-call:inputs-kept", "error-tolerant run: the input of a failed operator.getitem call stays alive while the run goes on",
                     {"callable": fn_kind})

    # ---- (H) a node of a Call SUBCLASS put into the graph by hand is inert (the engine executes exact Calls only): results
    # wired into it are released like results nobody consumes
    from uberjob.graph import Call as _Call, PositionalArg as _Pos, Dependency as _Dep
    for workers in (1, 3):
        box = {"alive": []}

        class MarkerCall(_Call):
            pass

        def make8():
            b = Big()
            box["wr"] = weakref.ref(b)
            return b

        def probe8(tag):
            gc.collect()
            box["alive"].append(box["wr"]() is not None)
            return tag
        p = uberjob.Plan()
        a = p.call(make8)
        marker = MarkerCall(len, scope=(), stack_frame=None)
        p.graph.add_node(marker)
        p.graph.add_edge(a, marker, _Pos(0))
        probes = [p.call(probe8, i) for i in range(3)]
        p.graph.add_edge(a, probes[0], _Dep())
        p.add_dependency(probes[0], probes[1])
        p.add_dependency(probes[1], probes[2])
        try:
            uberjob.run(p, output=[probes[2], marker], max_workers=workers, progress=None)
        except BaseException:       # noqa
            pass
        ctx.case(("c16-inert-subclass-node", workers))
        if any(box["alive"]):
            ctx.fail("inert-node:kept", "a result wired into a Call-subclass node (which never runs) was still alive at later call boundaries: %r" % box["alive"], {"workers": workers})

    # ---- (B) retry: reference counting alone releases the inputs of a call whose first attempt raised
    for workers in (1, 4):
        for scheduler in (None, "random"):
            box, attempts = {}, [0]

            def make3():
                b = Big()
                box["wr"] = weakref.ref(b)
                return b

            def flaky(x):
                attempts[0] += 1
                if attempts[0] == 1:
                    raise ValueError("first attempt fails")
                return 7

            def probe3(small):
                box["alive_at_probe"] = box["wr"]() is not None
                return small

            p = uberjob.Plan()
            pr = p.call(probe3, p.call(flaky, p.call(make3)))
            was = gc.isenabled()
            gc.disable()
            try:
                uberjob.run(p, output=pr, retry=2, max_workers=workers, scheduler=scheduler, progress=None)
            finally:
                if was:
                    gc.enable()
                gc.collect()
            ctx.case(("c16-retry-refcount", workers, scheduler))
            if box.get("alive_at_probe"):
                ctx.fail("retry:cycle-keeps-result", "with retry=2 the input of a call whose first attempt raised is still alive (cyclic GC off) "
                         "after the call finished: something in uberjob's retry path still references it",
                         {"workers": workers, "scheduler": scheduler})


def _run(ctx, uberjob, rng, state, GATHER, Call):
    ndag = ctx.n(400, 4000)
    terms, pending = [], []
    for di in range(ndag):
        gc.freeze()          # keep gc.collect() cheap: what the harness accumulated so far is never scanned again
        fam, spec = gen_dag(rng)
        n = len(spec)
        outspec = gen_output(rng, n)
        plan = uberjob.Plan()
        tracked = {}                 # user call index -> weakref
        measured = {}                # run-local: user call index -> frozenset(live user calls) at its start
        hook = {"fn": None, "lock": None}

        def make(i, keeper):
            def fn(*args, **kwargs):
                hook["fn"](i)
                o = Obj(i)
                if keeper:
                    o.keep = args + tuple(kwargs.values())
                with hook["lock"]:
                    tracked[i] = weakref.ref(o)
                return o
            fn.__name__ = "f%d" % i
            return fn

        nodes = []
        for i, (pos, kw, keeper) in enumerate(spec):
            conv = lambda a: nodes[a[1]] if a[0] == "n" else a[1]
            nodes.append(plan.call(make(i, keeper), *[conv(a) for a in pos], **{k: conv(a) for k, a in kw}))
        user_of = {nd: i for i, nd in enumerate(nodes)}

        def build(o):
            if o is None:
                return None
            if o[0] == "n":
                return nodes[o[1]]
            if o[0] == "l":
                return o[1]
            parts = [build(x) for x in o[1]]
            if o[0] == "list":
                return parts
            if o[0] == "tuple":
                return tuple(parts)
            return {"k%d" % j: p for j, p in enumerate(parts)}
        output = build(outspec)
        ctx.count("family", fam)
        ctx.count("calls", n)
        ctx.count("output", "none" if outspec is None else outspec[0])

        for sched, workers in (("default", 1), ("random", 1), (rng.choice(["default", "random"]), 3)):
            tracked.clear()
            measured.clear()
            info = {"log": [], "lock": threading.Lock()}
            state["info"] = info
            single = workers == 1
            viol = []

            def on_start(i, info=info, single=single, viol=viol):
                with info["lock"]:
                    log = list(info["log"])
                    gc.collect()
                    known = list(tracked)
                    live = frozenset(j for j, w in tracked.items() if w() is not None)
                if single:
                    measured[i] = live
                # ---- model-free monitor
                started = {nd for ev, nd in log if ev == "start"}
                ended = {nd for ev, nd in log if ev == "ok"}
                args, outn = info["args"], info["out"]
                cons = {}
                for c, a in args.items():
                    for p in a:
                        cons.setdefault(p, set()).add(c)
                # results that may legitimately be kept inside other objects: output structure and keeper results
                held = set()
                stack = [outn] if outn is not None else []
                while stack:
                    q = stack.pop()
                    if q in held:
                        continue
                    held.add(q)
                    if type(q) is Call and (q.fn in GATHER or (q in user_of and spec[user_of[q]][2])):
                        stack.extend(args.get(q, []))
                keeper_held = set()
                for q in args:
                    if q in user_of and spec[user_of[q]][2]:
                        keeper_held.update(args[q])
                for j in known:
                    p = nodes[j]
                    cs = cons.get(p, set())
                    alive = j in live
                    if cs and any(c not in started for c in cs) and not alive:
                        viol.append(("freed-too-early", j, i))
                    if alive and all(c in ended for c in cs) and p not in held and p not in keeper_held and p in ended:
                        viol.append(("kept-too-long", j, i))
            hook["fn"], hook["lock"] = on_start, info["lock"]
            res = uberjob.run(plan, output=output, progress=None, scheduler=sched, max_workers=workers)
            state["info"] = None
            gc.collect()
            final_live = frozenset(j for j, w in tracked.items() if w() is not None)
            del res
            gc.collect()
            after = sorted(j for j, w in tracked.items() if w() is not None)
            replay = {"family": fam, "calls": spec, "output": outspec, "scheduler": sched, "max_workers": workers,
                      "seed": ctx.seed, "index": di}
            for kind, j, at in viol[:3]:
                ctx.fail(kind, "result of call %d was %s: observed at the start of call %d (%s, %d workers)" % (
                    j, "already collected although a consumer had not started" if kind == "freed-too-early"
                    else "still alive although every consumer had finished and it is not part of the output", at, sched, workers),
                    dict(replay, result=j, at_start_of=at))
            if after:
                ctx.fail("kept-after-run", "results %s are still alive after run returned and its return value was dropped" % after,
                         dict(replay, alive=after))
            # how many results were dead at some measured point before the end
            dead_seen = 0
            order_started = [user_of[nd] for ev, nd in info["log"] if ev == "start" and nd in user_of]
            done = set()
            for i in order_started:
                if i in measured:
                    dead_seen += len([j for j in done if j not in measured[i]])
                done.add(i)
            ctx.case((fam, repr(spec), repr(outspec), sched, workers), nontrivial=dead_seen > 0 or not single,
                     sample=dict(replay, live_at_start={str(k): sorted(v) for k, v in measured.items()}) if di == 7 and single else None)
            ctx.count("config", "%s/%d" % (sched, workers))
            if not single:
                continue
            # ---- model comparison
            calls = info["calls"]
            args = info["args"]
            order = topo(calls, args)
            num = {c: k for k, c in enumerate(order)}
            a_l = [[num[a] for a in args[c]] for c in order]
            held_l = [[num[a] for a in args[c]] if (c.fn in GATHER or (c in user_of and spec[user_of[c]][2])) else [] for c in order]
            outn = info["out"]
            o_t = core.coq_option(num[outn] if type(outn) is Call else None)
            evs = [(0 if ev == "start" else 1, num[nd]) for ev, nd in info["log"]]
            terms.append("exec_trace %s %s %s %s" % (
                core.coq_list(a_l, core.coq_list), o_t, core.coq_list(held_l, core.coq_list),
                core.coq_list(evs, lambda e: "(%d, %d)" % e)))
            pending.append({"replay": replay, "user": {num[nd]: i for nd, i in user_of.items() if nd in num},
                            "measured": dict(measured), "final": final_live})
    header = ("From Coq Require Import List Arith Bool.\nImport ListNotations.\n"
              "From UJ Require Import Obs.RefGraph Run.Exec_RefGraph.\n")
    outs = core.coq_eval(header, terms, ty="list nat", shard=max(10, len(terms) // 12 + 1), tag="c16")
    for pend, o in zip(pending, outs):
        zs = [int(x) for x in re.findall(r"\d+", o)]
        i = 0
        user = pend["user"]
        while i < len(zs):
            tag = zs[i]
            if tag == 0:
                ctx.broke("correspondence RefGraph.v: the observed event sequence is not a run of the model",
                          dict(pend["replay"], event_index=zs[i + 1]))
                break
            if tag == 2:
                model_final = frozenset(user[c] for c in zs[i + 1:] if c in user)
                ctx.compared("RefGraph.v live set vs weakref liveness when run returns")
                if model_final != pend["final"]:
                    ctx.broke("correspondence RefGraph.v: live results after the run (output still held)",
                              dict(pend["replay"], model=sorted(model_final), impl=sorted(pend["final"])))
                break
            c, k = zs[i + 1], zs[i + 2]
            live = zs[i + 3:i + 3 + k]
            i += 3 + k
            if c in user:
                ctx.compared("RefGraph.v live set vs weakref liveness at a call start")
                m = frozenset(user[x] for x in live if x in user)
                got = pend["measured"].get(user[c])
                if got != m:
                    ctx.broke("correspondence RefGraph.v: live results at the start of call %d" % user[c],
                              dict(pend["replay"], model=sorted(m), impl=sorted(got) if got is not None else None))


def sentinel(ctx):
    """the finally that clears the BoundCall, and the lookup being the only table kept"""
    import ast
    import os
    src = open(os.path.join(core.REPO_SRC, "uberjob", "_execution", "run_physical.py")).read()
    tree = ast.parse(src)
    ok = False
    for node in ast.walk(tree):
        if isinstance(node, ast.Try) and node.finalbody:
            if any("bound_call.value = None" in ast.unparse(s) for s in node.finalbody) and \
                    any("bound_call.value.run(" in ast.unparse(s) for s in node.body):
                ok = True
    if not ok:
        ctx.broke("sentinel: process() no longer clears bound_call.value in a finally around bound_call.value.run", {})
    f = next(n for n in ast.walk(tree) if isinstance(n, ast.FunctionDef) and n.name == "_create_bound_call_lookup_and_output_slot")
    ret = ast.unparse([s for s in f.body if isinstance(s, ast.Return)][0])
    if ret != "return (bound_call_lookup, output_slot)":
        ctx.broke("sentinel: _create_bound_call_lookup_and_output_slot returns something else", {"return": ret})


class BigList(list):
    pass


class BigStr(str):
    pass


class BigBytes(bytearray):
    pass


def bundled_stores_release(ctx):
    """With the bundled file stores (Pickle / Json / Text / Binary, direct and through a MountedStore): once a stored value has been
    written - and read back, when some call consumes it - nothing of uberjob's (the run, the plan, the registry, THE STORE OBJECT) keeps
    the computed object alive; checked from a later call of the same run and after the run."""
    import gc
    import os
    import shutil
    import tempfile
    import weakref
    uberjob = core.use_repo()
    import uberjob.stores as st
    from uberjob._testing.test_mounted_file_store import TestMountedFileStore

    kinds = {"pickle": (st.PickleFileStore, lambda: BigList([1, 2, 3])), "json": (st.JsonFileStore, lambda: BigList([1, 2, 3])), "text": (st.TextFileStore, lambda: BigStr("text")),
             "binary": (st.BinaryFileStore, lambda: BigBytes(b"bytes"))}
    root = tempfile.mkdtemp(prefix="ujc16s_")
    try:
        n = 0
        for kind, (cls, mk) in kinds.items():
            for mounted in (False, True):
                for consumed in (False, True):
                    for workers in (1, 3):
                        n += 1
                        box, verdict = {}, {}

                        def make():
                            o = mk()
                            box["wr"] = weakref.ref(o)
                            return o

                        def later():
                            gc.collect()
                            verdict["during"] = box["wr"]() is None
                            return 0
                        path = os.path.join(root, "v%d.dat" % n)
                        store = TestMountedFileStore(cls) if mounted else cls(path)
                        plan, reg = uberjob.Plan(), uberjob.Registry()
                        v = plan.call(make)
                        reg.add(v, store)
                        outs = []
                        if consumed:
                            use = plan.call(len, v)
                            outs.append(use)
                        probe = plan.call(later)
                        plan.add_dependency(outs[-1] if consumed else v, probe)
                        outs.append(probe)
                        ctx.case(("c16-bundled-store", kind, mounted, consumed, workers))
                        try:
                            uberjob.run(plan, registry=reg, output=outs, max_workers=workers, progress=None)
                            oc = "ok"
                        except BaseException as e:      # noqa
                            oc = "raised %s: %r" % (type(e).__name__, getattr(e, "__cause__", None))
                        gc.collect()
                        after = box.get("wr", lambda: None)() is None
                        if oc != "ok" or not verdict.get("during", False) or not after:
                            ctx.fail("bundled-store:retained", "%s store%s, the stored value %s: run %s; the computed object was %s when a later call of the run looked, and %s after the run "
                                     "(plan, registry and store still referenced by the caller)" % (kind, " behind a MountedStore" if mounted else "", "consumed by a call" if consumed else "not consumed by any call",
                                                                                               oc, "released" if verdict.get("during") else "STILL ALIVE", "released" if after else "STILL ALIVE"),
                                     {"store": kind, "mounted": mounted, "consumed": consumed, "max_workers": workers})
                        del plan, reg, store
    finally:
        shutil.rmtree(root, ignore_errors=True)


def dependency_only_predecessors(ctx):
    """A call whose result NO call consumes - other nodes merely depend on it (add_dependency), among them a dependent SOURCE that is out of
    date - has its result released as soon as it has finished: checked from a later call of the same run, for filled / empty source store,
    1 and 3 workers, both schedulers."""
    import datetime as dt
    import gc
    import weakref
    uberjob = core.use_repo()

    class Big:
        pass
    for store_state in ("empty", "older than fresh_time", "up to date"):
        for workers in (1, 3):
            for scheduler in (None, "random"):
                box, verdict = {}, {}

                class Mem(uberjob.ValueStore):
                    def __init__(self):
                        self.v, self.t = (None, None) if store_state == "empty" else (5, dt.datetime(2020, 1, 1))

                    def read(self):
                        return self.v

                    def write(self, v):
                        self.v, self.t = v, dt.datetime(2021, 1, 1)

                    def get_modified_time(self):
                        return self.t
                st = Mem()

                def make():
                    o = Big()
                    box["wr"] = weakref.ref(o)
                    return o

                def fill():
                    gc.collect()
                    verdict["during"] = box["wr"]() is None
                    st.v, st.t = 7, dt.datetime(2021, 6, 1)
                    return 0
                plan, reg = uberjob.Plan(), uberjob.Registry()
                p = plan.call(make)
                q = plan.call(fill)
                plan.add_dependency(p, q)
                s_ = reg.source(plan, st)
                plan.add_dependency(p, s_)
                plan.add_dependency(q, s_)
                c = plan.call(lambda v: v, s_)
                ctx.case(("c16-dependency-only-predecessors", store_state, workers, scheduler))
                try:
                    res = uberjob.run(plan, registry=reg, output=c, max_workers=workers, scheduler=scheduler, progress=None,
                                      fresh_time=dt.datetime(2020, 6, 1) if store_state == "older than fresh_time" else None)
                    oc = "returned %r" % (res,)
                except BaseException as e:      # noqa
                    oc = "raised %s: %r" % (type(e).__name__, getattr(e, "__cause__", None))
                if "during" in verdict and not verdict["during"]:
                    ctx.fail("dependency-only:retained", "a call whose result nobody consumes (a dependent source, %s, and another call merely depend on it): its result was STILL ALIVE while the "
                             "later call ran (max_workers=%d, scheduler=%r); run %s" % (store_state, workers, scheduler, oc), {"store": store_state, "max_workers": workers, "scheduler": scheduler})
