"""Stale decisions in processes that run in other time zones (C03 / C05 reading of C18): several runs in ONE process per
zone (so state kept between runs shows), datetimes given as naive local (what the file stores report / the documentation
passes) and as aware values, instants chosen in a zone's summer (DST in force although the standard offset is zero) and
around the repeated hour of a fall-back.  The oracle works on instants only."""
import datetime as dt
import json
import os
import subprocess

import core

UTC = dt.timezone.utc


def us(y, mo, d, h, mi=0, s=0):
    return int((dt.datetime(y, mo, d, h, mi, s, tzinfo=UTC) - dt.datetime(1970, 1, 1, tzinfo=UTC)).total_seconds()) * 10 ** 6


def oracle(c):
    g = lambda k: None if c[k] is None else c[k]["i"]
    F, S, S2, A, B = g("fresh"), g("s"), g("s2"), g("a"), g("b")
    a_stale = A is None or S > A or (F is not None and F > A)
    if a_stale:
        b_stale = True
    else:
        up = max(A, S2)
        b_stale = B is None or up > B or (F is not None and F > B)
    return sorted(x for x, st in (("a", a_stale), ("b", b_stale)) if st)


def cases_for(zone):
    N = lambda i: {"t": "naive", "i": i}
    W = lambda i, off=0: {"t": "aware", "i": i, "off": off * 3600 * 10 ** 6}
    out = []
    if zone in ("Europe/London", "Europe/Lisbon"):
        base = us(2026, 7, 1, 10)                                  # summer: local = UTC+1, standard offset 0
        m = 60 * 10 ** 6
        for forms in ((N, W), (W, N), (N, N), (W, W)):
            fa, fs = forms
            # a written 10:10Z, b 10:12Z, source s updated 10:30Z (later), s2 old: a and b must be rebuilt
            out.append({"kind": "run", "fresh": None, "s": fs(base + 30 * m), "s2": W(base - 600 * m), "a": fa(base + 10 * m), "b": fa(base + 12 * m)})
            # source older than a: nothing to do
            out.append({"kind": "run", "fresh": None, "s": fs(base + 5 * m), "s2": W(base - 600 * m), "a": fa(base + 10 * m), "b": fa(base + 12 * m)})
            # fresh_time 10:20Z between the writes and now, given in the other form
            out.append({"kind": "run", "fresh": fs(base + 20 * m), "s": W(base - 60 * m), "s2": W(base - 600 * m), "a": fa(base + 10 * m), "b": fa(base + 25 * m)})
    if zone == "America/New_York":
        fb = us(2021, 11, 7, 6)                                    # 06:00Z: clocks go from 02:00 EDT back to 01:00 EST
        m = 60 * 10 ** 6
        early, late = fb - 30 * m, fb + 30 * m                     # both read 01:30 on the wall clock (fold 0 / fold 1)
        for _ in range(2):
            # the same wall-clock time, first pass then second pass, as naive fresh_time; stores written at 06:00Z sharp
            out.append({"kind": "run", "fresh": N(early), "s": W(fb - 120 * m), "s2": W(fb - 600 * m), "a": W(fb), "b": W(fb + m)})
            out.append({"kind": "run", "fresh": N(late), "s": W(fb - 120 * m), "s2": W(fb - 600 * m), "a": W(fb), "b": W(fb + m)})
            # ... and as naive modified times of the stored values against an aware source
            out.append({"kind": "run", "fresh": None, "s": W(fb), "s2": W(fb - 600 * m), "a": N(early), "b": N(early + m)})
            out.append({"kind": "run", "fresh": None, "s": W(fb), "s2": W(fb - 600 * m), "a": N(late), "b": N(late + m)})
    return out


def run(ctx, add, prop):
    child = os.path.join(os.path.dirname(os.path.abspath(__file__)), "c18_child.py")
    for zone in ("Europe/London", "America/New_York", "Europe/Lisbon"):
        cs = cases_for(zone)
        env = core.repo_env()
        env["TZ"] = zone
        p = subprocess.run([core.PY, child], input=json.dumps({"zone": zone, "cases": cs, "probe": []}), env=env,
                           stdout=subprocess.PIPE, stderr=subprocess.PIPE, text=True, timeout=300)
        if p.returncode != 0:
            ctx.broke("time-zone helper process failed for TZ=%s" % zone, p.stderr[-1500:])
            continue
        rep = json.loads(p.stdout)
        for k, (c, r) in enumerate(zip(cs, rep["results"])):
            ctx.case(("tz-history", zone, k))
            want = oracle(c)
            got = r.get("written", r.get("error"))
            if got != want:
                add(prop, "tz-history", "TZ=%s, run %d in the process: stores rewritten %r, by the instants involved %r should be (fresh_time %s, source %s, a %s, b %s)"
                    % (zone, k + 1, got, want, c["fresh"], c["s"], c["a"], c["b"]), {"zone": zone, "run_index": k, "case": c, "rewritten": got, "expected": want})
