"""C06: nothing downstream of a failed call runs; the raised error names a real failure."""
import core
import engine_corr
import planlevel

RULE = ("engine level: random DAGs x failing sets (Exception, BaseException, KeyboardInterrupt, SystemExit raised in workers) x "
        "max_errors x workers x controlled schedules, traces accepted by Engine.v; plan level: uberjob.run on random plans, "
        "CallError.call / __cause__ identity checks")
TRUSTED_BASE = ["harness/detsched.py, harness/engine_corr.py, harness/planlevel.py"]


def run(ctx):
    engine_corr.campaign(ctx, {"C06"})
    planlevel.plan_campaign(ctx, {"C06"})
    import prune_corr
    prune_corr.run_prune(ctx)       # dependencies routed through literals survive pruning (Cache/Prune.v)
