"""C06: nothing downstream of a failed call runs; the raised error names a real failure."""
import core
import engine_corr
import planlevel

RULE = ("engine level: random DAGs x failing sets (Exception, BaseException, KeyboardInterrupt, SystemExit raised in workers) x "
        "max_errors x workers x controlled schedules, traces accepted by Engine.v; plan level: uberjob.run on random plans, "
        "CallError.call / __cause__ identity checks")
TRUSTED_BASE = ["harness/detsched.py, harness/engine_corr.py, harness/planlevel.py"]


def run(ctx):
    engine_corr.campaign(ctx, {"C06"})
    planlevel.plan_campaign(ctx, {"C06"})
    import prune_corr
    prune_corr.run_prune(ctx)       # dependencies routed through literals survive pruning (Cache/Prune.v)
    awkward_failures(ctx)


def awkward_failures(ctx):
    """The error that run raises names the failing call and chains the very exception it raised, also when
    - the failing callable object (or a value in the call's scope) has a __repr__ that raises,
    - the exception is not an Exception (SystemExit / custom BaseException) or is falsy,
    - run is called from inside an `except` block (an unrelated exception is being handled)."""
    import threading
    uberjob = core.use_repo()

    class Loader:
        """a callable whose repr only works after a successful call"""
        def __call__(self):
            raise self.exc

        def __repr__(self):
            return "Loader(%s)" % self.loaded          # AttributeError: never loaded

    class BadScope:
        def __repr__(self):
            raise RuntimeError("repr of the scope value fails")

        def __hash__(self):
            return 1

        def __eq__(self, o):
            return self is o

    class Cancelled(BaseException):
        pass

    class Falsy(Exception):
        def __bool__(self):
            return False
    def inner_error():
        ip = uberjob.Plan()
        ib = ip.call(lambda: 1 / 0)
        try:
            uberjob.run(ip, output=ib, progress=None, max_workers=1)
        except uberjob.CallError as e:
            return e
    for exc in (ValueError("v"), Cancelled("c"), SystemExit(3), Falsy("f"), inner_error()):
        for variant in ("plain", "raising-repr-callable", "raising-repr-scope", "inside-except"):
            for workers, retry in ((1, None), (3, None), (1, 2), (3, 3)):
                plan = uberjob.Plan()
                dependents = []
                if variant == "raising-repr-callable":
                    fn = Loader()
                    fn.exc = exc
                    bad = plan.call(fn)
                elif variant == "raising-repr-scope":
                    with plan.scope(BadScope()):
                        bad = plan.call(lambda: (_ for _ in ()).throw(exc))
                else:
                    bad = plan.call(lambda: (_ for _ in ()).throw(exc))
                after = plan.call(lambda v: dependents.append(v), bad)
                box = {}

                def target():
                    try:
                        if variant == "inside-except":
                            try:
                                raise KeyError("unrelated")
                            except KeyError:
                                uberjob.run(plan, output=after, max_workers=workers, progress=None, retry=retry)
                        else:
                            uberjob.run(plan, output=after, max_workers=workers, progress=None, retry=retry)
                        box["o"] = ("returned", None)
                    except uberjob.CallError as e:
                        box["o"] = ("callerror", e)
                    except BaseException as e:      # noqa
                        box["o"] = ("other", e)
                th = threading.Thread(target=target, daemon=True)
                hook, threading.excepthook = threading.excepthook, (lambda a: None)
                try:
                    th.start()
                    th.join(20)
                finally:
                    threading.excepthook = hook
                rep = {"exception": type(exc).__name__, "variant": variant, "max_workers": workers, "retry": retry}
                ctx.case(("c06-awkward", type(exc).__name__, variant, workers, retry))
                if "o" not in box:
                    ctx.fail("awkward:hang", "a call raising %s (%s): run did not return within 20 s" % (type(exc).__name__, variant), rep)
                    return
                kind, e = box["o"]
                if kind != "callerror":
                    ctx.fail("awkward:not-raised", "a call raising %s (%s): run %s instead of raising CallError" % (
                        type(exc).__name__, variant, "returned normally" if kind == "returned" else "raised %r" % (e,)), rep)
                elif e.call is not bad or e.__cause__ is not exc:
                    ctx.fail("awkward:wrong-error", "a call raising %s (%s): CallError.call is %sthe failing call, __cause__ is %r (raised: %r)" % (
                        type(exc).__name__, variant, "" if e.call is bad else "NOT ", e.__cause__, exc), rep)
                if dependents:
                    ctx.fail("awkward:downstream-ran", "the dependent of the failing call ran", rep)
