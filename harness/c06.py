"""C06: nothing downstream of a failed call runs; the raised error names a real failure."""
import collections

import core
import engine_corr
import planlevel

RULE = ("engine level: random DAGs x failing sets (Exception, BaseException, KeyboardInterrupt, SystemExit raised in workers) x "
        "max_errors x workers x controlled schedules, traces accepted by Engine.v; plan level: uberjob.run on random plans, "
        "CallError.call / __cause__ identity checks")
TRUSTED_BASE = ["harness/detsched.py, harness/engine_corr.py, harness/planlevel.py"]


def run(ctx):
    import c04
    c04.outcome_under_every_progress(ctx)      # a failing call makes run RAISE whatever progress display is attached
    retry_across_calls(ctx)
    same_exception_object(ctx)
    implicit_call_failures(ctx)
    failing_call_without_cwd(ctx)
    engine_corr.campaign(ctx, {"C06"})
    planlevel.plan_campaign(ctx, {"C06"})
    import prune_corr
    prune_corr.run_prune(ctx)       # dependencies routed through literals survive pruning (Cache/Prune.v)
    awkward_failures(ctx)


def awkward_failures(ctx):
    """The error that run raises names the failing call and chains the very exception it raised, also when
    - the failing callable object (or a value in the call's scope) has a __repr__ that raises,
    - the exception is not an Exception (SystemExit / custom BaseException) or is falsy,
    - run is called from inside an `except` block (an unrelated exception is being handled)."""
    import threading
    uberjob = core.use_repo()

    class Loader:
        """a callable whose repr only works after a successful call"""
        def __call__(self):
            raise self.exc

        def __repr__(self):
            return "Loader(%s)" % self.loaded          # AttributeError: never loaded

    class BadScope:
        def __repr__(self):
            raise RuntimeError("repr of the scope value fails")

        def __hash__(self):
            return 1

        def __eq__(self, o):
            return self is o

    class Cancelled(BaseException):
        pass

    class Falsy(Exception):
        def __bool__(self):
            return False
    def inner_error():
        ip = uberjob.Plan()
        ib = ip.call(lambda: 1 / 0)
        try:
            uberjob.run(ip, output=ib, progress=None, max_workers=1)
        except uberjob.CallError as e:
            return e
    for exc in (ValueError("v"), Cancelled("c"), SystemExit(3), Falsy("f"), inner_error()):
        for variant in ("plain", "raising-repr-callable", "raising-repr-scope", "inside-except", "single-call"):      # single-call: the plan consists of the failing call alone
            for workers, retry in ((1, None), (3, None), (1, 2), (3, 3)):
                plan = uberjob.Plan()
                dependents = []
                if variant == "raising-repr-callable":
                    fn = Loader()
                    fn.exc = exc
                    bad = plan.call(fn)
                elif variant == "raising-repr-scope":
                    with plan.scope(BadScope()):
                        bad = plan.call(lambda: (_ for _ in ()).throw(exc))
                else:
                    bad = plan.call(lambda: (_ for _ in ()).throw(exc))
                after = bad if variant == "single-call" else plan.call(lambda v: dependents.append(v), bad)
                box = {}

                def target():
                    try:
                        if variant == "inside-except":
                            try:
                                raise KeyError("unrelated")
                            except KeyError:
                                uberjob.run(plan, output=after, max_workers=workers, progress=None, retry=retry)
                        else:
                            uberjob.run(plan, output=after, max_workers=workers, progress=None, retry=retry)
                        box["o"] = ("returned", None)
                    except uberjob.CallError as e:
                        box["o"] = ("callerror", e)
                    except BaseException as e:      # noqa
                        box["o"] = ("other", e)
                th = threading.Thread(target=target, daemon=True)
                hook, threading.excepthook = threading.excepthook, (lambda a: None)
                try:
                    th.start()
                    th.join(20)
                finally:
                    threading.excepthook = hook
                rep = {"exception": type(exc).__name__, "variant": variant, "max_workers": workers, "retry": retry}
                ctx.case(("c06-awkward", type(exc).__name__, variant, workers, retry))
                if "o" not in box:
                    ctx.fail("awkward:hang", "a call raising %s (%s): run did not return within 20 s" % (type(exc).__name__, variant), rep)
                    return
                kind, e = box["o"]
                if kind != "callerror":
                    ctx.fail("awkward:not-raised", "a call raising %s (%s): run %s instead of raising CallError" % (
                        type(exc).__name__, variant, "returned normally" if kind == "returned" else "raised %r" % (e,)), rep)
                elif e.call is not bad or e.__cause__ is not exc:
                    ctx.fail("awkward:wrong-error", "a call raising %s (%s): CallError.call is %sthe failing call, __cause__ is %r (raised: %r)" % (
                        type(exc).__name__, variant, "" if e.call is bad else "NOT ", e.__cause__, exc), rep)
                if dependents:
                    ctx.fail("awkward:downstream-ran", "the dependent of the failing call ran", rep)


def implicit_call_failures(ctx):
    """The failing call may be one the library created itself (the gather_* call of a container argument, unpack, the getitem of an
    unpacked item): the error names THAT call - a call that did raise in this run - never the user call fed by it, which was not started."""
    uberjob = core.use_repo()
    cases = {
        "gather_set of an unhashable item": lambda plan, x, started: plan.call(lambda v: started.append("consumer") or v, {x, 1}),
        "gather_dict with an unhashable key": lambda plan, x, started: plan.call(lambda v: started.append("consumer") or v, {x: 1}),
        "unpack of too few items": lambda plan, x, started: plan.call(lambda a, b, c: started.append("consumer"), *plan.unpack(x, 3)),
        "getitem beyond the unpacked length": lambda plan, x, started: plan.call(lambda v: started.append("consumer"), plan.call(__import__("operator").getitem, x, 5)),
        # callables implemented in C have no frame of their own: the failing call's traceback ends in the library's own plumbing
        "operator.truediv of a list": lambda plan, x, started: plan.call(lambda v: started.append("consumer"), plan.call(__import__("operator").truediv, x, 0)),
        "int() of a list": lambda plan, x, started: plan.call(lambda v: started.append("consumer"), plan.call(int, x)),
        "partial of operator.getitem": lambda plan, x, started: plan.call(lambda v: started.append("consumer"), plan.call(__import__("functools").partial(__import__("operator").getitem, [0]), x)),
    }
    for name, build in cases.items():
        for workers in (1, 3):
            for max_errors, retry in ((0, None), (None, None), (0, 2), (None, 3)):
                started = []
                plan = uberjob.Plan()
                x = plan.call(lambda: started.append("x") or [1, 2])
                consumer = build(plan, x, started)
                ctx.case(("implicit-call-failure", name, workers, max_errors, retry))
                try:
                    res = uberjob.run(plan, output=consumer, max_workers=workers, max_errors=max_errors, progress=None, retry=retry)
                    oc, err = "returned %r" % (res,), None
                except uberjob.CallError as e:
                    oc, err = "callerror", e
                except BaseException as e:      # noqa
                    oc, err = "raised %s: %s" % (type(e).__name__, e), None
                bad = None
                if oc != "callerror":
                    bad = "run %s" % oc
                elif "consumer" in started:
                    bad = "the consumer of the failed implicit call was started"
                elif err.call is consumer or err.call is x:
                    bad = "the error names %s, which did not raise (it %s)" % ("the consumer call" if err.call is consumer else "the producing call",
                                                                                    "was never started" if err.call is consumer else "returned normally")
                elif not isinstance(err.__cause__, (TypeError, ValueError, IndexError, KeyError)):
                    bad = "the cause is %r, not the exception the implicit call raised" % (err.__cause__,)
                if bad:
                    ctx.fail("implicit-call-failure", "%s (max_workers=%d, max_errors=%r, retry=%r): %s" % (name, workers, max_errors, retry, bad),
                             {"case": name, "max_workers": workers, "max_errors": max_errors, "retry": retry})


CWD_CHILD = r'''
import os, sys, tempfile, json
import uberjob
out = []
for when in ("before the run", "inside the failing call"):
    d = tempfile.mkdtemp(prefix="ujc06cwd_")
    home = os.getcwd() if os.path.isdir("/") else "/"
    src = "def boom(d, when):\n    import os\n    if when == 'inside the failing call':\n        os.chdir(d); os.rmdir(d)\n    raise ValueError('boom')\n"
    ns = {}
    exec(compile(src, "/abs/path/pipeline_%d.py" % len(out), "exec"), ns)
    plan = uberjob.Plan()
    build = "def build(plan, boom, d, when):\n    return plan.call(boom, d, when)\n"
    exec(compile(build, "/abs/path/build_%d.py" % len(out), "exec"), ns)
    node = ns["build"](plan, ns["boom"], d, when)
    if when == "before the run":
        os.chdir(d); os.rmdir(d)
    try:
        uberjob.run(plan, output=node, progress=None)
        out.append([when, "returned"])
    except uberjob.CallError as e:
        out.append([when, "callerror" if isinstance(e.__cause__, ValueError) and e.call is node else "callerror naming another call / cause %r" % (e.__cause__,)])
    except BaseException as e:
        out.append([when, "raised %s: %s" % (type(e).__name__, e)])
    os.chdir("/")
print(json.dumps({"uberjob": os.path.dirname(uberjob.__file__), "out": out}))
'''


def failing_call_without_cwd(ctx):
    """The process's working directory may have been removed (a job that cleans up after itself, a deleted checkout): a failing call
    is still reported as CallError naming the call and chaining its exception."""
    import json
    import subprocess
    p = subprocess.run([core.PY, "-c", CWD_CHILD], env=core.repo_env(), stdout=subprocess.PIPE, stderr=subprocess.PIPE, text=True, timeout=120, cwd="/")
    ctx.case(("failing-call-without-cwd",))
    if p.returncode != 0:
        ctx.fail("no-cwd:error", "the helper process failed: %s" % (p.stderr.strip().splitlines()[-1:] or "?"), {"stderr": p.stderr[-1500:]})
        return
    rep = json.loads(p.stdout)
    if not rep["uberjob"].startswith(core.REPO_SRC):
        ctx.broke("C06 helper imported uberjob from the wrong place", rep["uberjob"])
    for when, oc in rep["out"]:
        if oc != "callerror":
            ctx.fail("no-cwd", "a call fails while the working directory no longer exists (removed %s): run %s instead of raising CallError for the call with its ValueError" % (when, oc),
                     {"cwd_removed": when, "outcome": oc})



def retry_across_calls(ctx):
    """retry=n (an int or a user decorator) over plans in which SEVERAL calls go through it - the same function object used by several
    calls, earlier calls that fail once and then succeed, earlier calls that exhaust their attempts while the run goes on: every failing
    call still fails the run with its own last exception, nothing downstream of it runs, and no call's failure is turned into a value."""
    import itertools
    uberjob = core.use_repo()
    for retry in (2, 3):
        for workers in (1, 3):
            for max_errors in (0, 1, None):
                for shape in ("flaky-then-failing", "same-function-fails-twice", "many-ok-then-failing"):
                    attempts = collections.Counter()
                    started = []

                    def flaky(tag, fail_first):
                        def f(*a):
                            attempts[tag] += 1
                            if attempts[tag] <= fail_first:
                                raise ValueError("%s attempt %d" % (tag, attempts[tag]))
                            return tag
                        f.__name__ = tag
                        return f

                    def always(tag):
                        attempts[tag] += 1
                        raise ValueError("%s attempt %d" % (tag, attempts[tag]))
                    plan = uberjob.Plan()
                    if shape == "flaky-then-failing":
                        pre = [plan.call(flaky("pre%d" % i, 1)) for i in range(3)]
                        bad = plan.call(always, "bad")
                        for q in pre:
                            plan.add_dependency(q, bad)
                        expected_fail_tags = {"bad"}
                    elif shape == "same-function-fails-twice":
                        first = plan.call(always, "first")
                        bad = plan.call(always, "bad")
                        if max_errors == 0:
                            expected_fail_tags = {"first", "bad"}      # whichever runs first fails the run
                        else:
                            expected_fail_tags = {"first", "bad"}
                    else:
                        pre = [plan.call(flaky("ok%d" % i, 0)) for i in range(6)]
                        bad = plan.call(always, "bad")
                        for q in pre:
                            plan.add_dependency(q, bad)
                        expected_fail_tags = {"bad"}
                    after = plan.call(lambda v: started.append("after") or v, bad)
                    outputs = [first, after] if shape == "same-function-fails-twice" else after
                    ctx.case(("retry-across-calls", retry, workers, max_errors, shape))
                    try:
                        res = core.call_watched(lambda: uberjob.run(plan, output=outputs, retry=retry, max_workers=workers, max_errors=max_errors, progress=None), timeout=30)
                        oc = "returned %r" % (res,)
                        cause = None
                    except uberjob.CallError as e:
                        oc, cause = "callerror", e.__cause__
                    except core.Hang:
                        oc, cause = "did not return within 30 s", None
                    except BaseException as e:      # noqa
                        oc, cause = "raised %s" % type(e).__name__, None
                    problems = []
                    if oc != "callerror":
                        problems.append("run %s instead of raising CallError" % oc)
                    elif not (isinstance(cause, ValueError) and str(cause).split()[0] in expected_fail_tags and str(cause).endswith("attempt %d" % retry)):
                        problems.append("the error chains %r, not the last attempt (attempt %d) of a call that failed" % (cause, retry))
                    if started:
                        problems.append("the call downstream of the failing call was started")
                    over = {t: n for t, n in attempts.items() if n > retry}
                    if over:
                        problems.append("calls attempted more than retry=%d times: %r" % (retry, over))
                    if oc == "callerror" and attempts["bad"] not in (0, retry) and not (shape == "same-function-fails-twice" and max_errors == 0 and workers > 1):
                        problems.append("the failing call was attempted %d times, not %d" % (attempts["bad"], retry))
                    if oc.startswith("did not return"):
                        ctx.fail("retry-across-calls", "retry=%d, max_workers=%d, max_errors=%r, %s: run did not return within 30 s (a call is retried for ever); attempts so far: %r"
                                 % (retry, workers, max_errors, shape, dict(attempts)), {"retry": retry, "max_workers": workers, "max_errors": max_errors, "shape": shape})
                        return
                    if problems:
                        ctx.fail("retry-across-calls", "retry=%d, max_workers=%d, max_errors=%r, %s: %s" % (retry, workers, max_errors, shape, "; ".join(problems)),
                                 {"retry": retry, "max_workers": workers, "max_errors": max_errors, "shape": shape, "attempts": dict(attempts)})


def same_exception_object(ctx):
    """The SAME exception object raised again (a module-level error instance, a memoised failure): in every run the error names a call
    that raised in THIS run - never the call of an earlier run or of another plan - and chains that very object."""
    uberjob = core.use_repo()
    shared = ValueError("shared")

    def reraise(*a):
        raise shared
    earlier = []
    for rnd in range(3):
        for workers, max_errors in ((1, 0), (3, None)):
            plan = uberjob.Plan()
            ok = plan.call(lambda: 1)
            bad = [plan.call(reraise, ok, i) for i in range(2 if max_errors is None else 1)]
            after = plan.call(lambda *a: 0, *bad)
            ctx.case(("same-exception-object", rnd, workers, max_errors))
            try:
                uberjob.run(plan, output=after, max_workers=workers, max_errors=max_errors, progress=None)
                oc, err = "returned", None
            except uberjob.CallError as e:
                oc, err = "callerror", e
            except BaseException as e:      # noqa
                oc, err = "raised %s" % type(e).__name__, None
            problem = None
            if oc != "callerror":
                problem = "run %s" % oc
            elif not any(err.call is b for b in bad):
                problem = "the error names %s" % ("the failing call of an EARLIER run (another plan)" if any(err.call is b for b in earlier) else "a call that did not raise in this run")
            elif err.__cause__ is not shared:
                problem = "the cause is %r, not the exception object raised" % (err.__cause__,)
            earlier.extend(bad)
            if problem:
                ctx.fail("same-exception-object", "a call raising a module-level exception instance, run number %d with that instance (max_workers=%d, max_errors=%r): %s"
                         % (len(earlier), workers, max_errors, problem), {"round": rnd, "max_workers": workers, "max_errors": max_errors})
