"""Translator tie for src/uberjob/_execution/scheduler.py (C01, C04, C10 rely on every queue discipline being a faithful bag):
`create_simple_queue`, `RandomQueue` (`__init__`, `_qsize`, `_put`, `_get`), `PriorityQueue` (`__init__`, `_qsize`, `_put`, `_get`) and the
dispatch of `create_queue` are parsed with `ast` on every run and compiled to Gallina (coq/gen/QueuesGen.v); coq/gen/QueuesLink.v
(hand-written, committed) proves each generated operation equal to the model in Engine/Queues.v, whose refinement of Engine.v's bag
semantics is QueuesProofs.v.  Fail-closed.

Trusted: this file; a Python list is a Gallina list (`append x` = `++ [x]`, `pop()` removes the last element, `l[-1]` is the last
element, a tuple assignment evaluates its right-hand side first and then stores left to right); `collections.deque` under the stdlib
`Queue._put/_get` is FIFO; `random.randrange(n)` is a parameter i < n (anything else is outside its contract: None);
`random.shuffle` leaves a permutation (a parameter); `heapq.heapify/heappush/heappop` are the section variables hify/hpush/hpop of
Queues.v (H-heapq); `KeyValuePair(k, v)` is the pair (k, v) and `.value` its second component."""
import ast
import os
import subprocess

import core
from translate_stale import GEN, TranslationError, _expect, _fn, _src


def _cls(tree, name):
    for n in tree.body:
        if isinstance(n, ast.ClassDef) and n.name == name:
            return n
    raise TranslationError("class %s not found" % name)


def _method(cls, name):
    for n in cls.body:
        if isinstance(n, ast.FunctionDef) and n.name == name:
            return n
    raise TranslationError("method %s.%s not found" % (cls.name, name))


def _body(f):
    return [s for s in f.body if not (isinstance(s, ast.Expr) and isinstance(s.value, ast.Constant)) and not isinstance(s, ast.Expr) or not (isinstance(s, ast.Expr) and isinstance(s.value, ast.Constant))]


def srcs(f):
    return [_src(s) for s in f.body if not (isinstance(s, ast.Expr) and isinstance(s.value, ast.Constant))]


def elem(e):
    """element expression of self.queue -> (kind, index term) for reads"""
    s = _src(e)
    if s == "self.queue[-1]":
        return "last"
    if s == "self.queue[i]":
        return "i"
    raise TranslationError("not an element of self.queue the compiler knows: `%s`" % s)


def gen_random_queue(tree):
    c = _cls(tree, "RandomQueue")
    _expect([_src(b) for b in c.bases] == ["Queue"], "RandomQueue(Queue)", c)
    init = srcs(_method(c, "__init__"))
    _expect(init == ["super().__init__()", "self.queue = list(initial_items)", "random.shuffle(self.queue)", "self.unfinished_tasks = len(self.queue)"],
            "RandomQueue.__init__: list(initial_items); shuffle; unfinished_tasks = len", _method(c, "__init__"))
    _expect(srcs(_method(c, "_qsize")) == ["return len(self.queue)"], "RandomQueue._qsize", _method(c, "_qsize"))
    _expect(srcs(_method(c, "_get")) == ["return self.queue.pop()"], "RandomQueue._get: pop() of the LAST element", _method(c, "_get"))
    put = [s for s in _method(c, "_put").body if not (isinstance(s, ast.Expr) and isinstance(s.value, ast.Constant))]
    _expect([a.arg for a in _method(c, "_put").args.args] == ["self", "item"], "_put(self, item)", _method(c, "_put"))
    lines = []
    have_i = False
    for s in put:
        src = _src(s)
        if src == "self.queue.append(item)":
            lines.append("let l := l ++ [item] in")
        elif src == "i = random.randrange(len(self.queue))":
            lines.append("if negb (i <? length l) then None else")
            have_i = True
        elif isinstance(s, ast.Assign) and isinstance(s.targets[0], ast.Tuple) and isinstance(s.value, ast.Tuple) and len(s.targets[0].elts) == 2 and len(s.value.elts) == 2:
            _expect(have_i, "the index is drawn before it is used", s)
            rd = [elem(x) for x in s.value.elts]
            wr = [elem(x) for x in s.targets[0].elts]
            idx = {"last": "(length l - 1)", "i": "i"}
            lines.append("match nth_error l %s, nth_error l %s with" % (idx[rd[0]], idx[rd[1]]))
            lines.append("| Some a, Some b => let l := upd %s a l in let l := upd %s b l in Some l" % (idx[wr[0]], idx[wr[1]]))
            lines.append("| _, _ => None end")
            break
        else:
            raise TranslationError("RandomQueue._put: statement the compiler does not know: `%s`" % src)
    _expect(lines and lines[-1].startswith("| _, _"), "RandomQueue._put ends with the swap", _method(c, "_put"))
    return ["Definition gen_rq_init {A} (shuffled : list A) : list A * nat := (shuffled, length shuffled).",
            "Definition gen_rq_put {A} (i : nat) (item : A) (l : list A) : option (list A) :=\n  %s." % "\n  ".join(lines),
            "Definition gen_rq_get {A} (l : list A) : option (A * list A) := match rev l with [] => None | z :: r => Some (z, rev r) end.   (* self.queue.pop() *)"]


def gen_simple_and_priority(tree):
    f = _fn(tree, "create_simple_queue")
    _expect(srcs(f) == ["queue = Queue()", "queue.queue = deque(initial_items)", "queue.unfinished_tasks = len(queue.queue)", "return queue"], "create_simple_queue", f)
    c = _cls(tree, "PriorityQueue")
    _expect([_src(b) for b in c.bases] == ["Queue"], "PriorityQueue(Queue)", c)
    _expect(srcs(_method(c, "__init__")) == ["super().__init__()", "self.queue = [KeyValuePair(priority(item), item) for item in initial_items]", "heapify(self.queue)",
                                             "self.unfinished_tasks = len(self.queue)", "self.priority = priority"], "PriorityQueue.__init__", _method(c, "__init__"))
    _expect(srcs(_method(c, "_qsize")) == ["return len(self.queue)"], "PriorityQueue._qsize", _method(c, "_qsize"))
    _expect(srcs(_method(c, "_put")) == ["heappush(self.queue, KeyValuePair(self.priority(item), item))"], "PriorityQueue._put", _method(c, "_put"))
    _expect(srcs(_method(c, "_get")) == ["return heappop(self.queue).value"], "PriorityQueue._get", _method(c, "_get"))
    kv = _cls(tree, "KeyValuePair")
    _expect(srcs(_method(kv, "__eq__")) == ["return self.key == other.key"] and srcs(_method(kv, "__lt__")) == ["return self.key < other.key"]
            and [_src(d) for d in kv.decorator_list] == ["total_ordering"], "KeyValuePair is ordered by its key alone", kv)
    return ["Definition gen_fifo_init {A} (items : list A) : list A * nat := (items, length items).   (* deque(initial_items); unfinished_tasks = len *)",
            "Section PQ.\n  Context {A K : Type}.\n  Variable hify : list (K * A) -> list (K * A).\n  Variable hpush : list (K * A) -> K * A -> list (K * A).\n"
            "  Variable hpop : list (K * A) -> option ((K * A) * list (K * A)).\n  Variable priority : A -> K.\n"
            "  Definition gen_pq_init (items : list A) : list (K * A) * nat := let q := hify (map (fun item => (priority item, item)) items) in (q, length q).\n"
            "  Definition gen_pq_put (item : A) (q : list (K * A)) : list (K * A) := hpush q (priority item, item).\n"
            "  Definition gen_pq_get (q : list (K * A)) : option (A * list (K * A)) := match hpop q with Some (kv, q') => Some (snd kv, q') | None => None end.\nEnd PQ."]


def gen_dispatch(tree):
    f = _fn(tree, "create_queue")
    _expect([a.arg for a in f.args.args] == ["graph", "initial_items", "scheduler"], "create_queue(graph, initial_items, scheduler)", f)
    b = [s for s in f.body if not (isinstance(s, ast.Expr) and isinstance(s.value, ast.Constant))]
    _expect(_src(b[0]) == "scheduler = scheduler or 'default'", "scheduler = scheduler or 'default'", b[0])
    arms = []
    for s in b[1:-1]:
        _expect(isinstance(s, ast.If) and not s.orelse and isinstance(s.test, ast.Compare) and _src(s.test.left) == "scheduler" and isinstance(s.test.ops[0], ast.Eq)
                and isinstance(s.test.comparators[0], ast.Constant), "if scheduler == '<name>':", s)
        name = s.test.comparators[0].value
        ret = s.body[-1]
        _expect(isinstance(ret, ast.Return), "the arm returns a queue", s)
        r = _src(ret.value)
        if r == "create_simple_queue(initial_items)":
            kind = "QFifo"
        elif r == "RandomQueue(initial_items)":
            kind = "QRandom"
        elif r == "PriorityQueue(initial_items, lambda node: priority_mapping.get(node, -1))":
            _expect(_src(s.body[0]) == "priority_mapping = greedy.get_priority_mapping(graph)", "the priorities come from greedy.get_priority_mapping; DONE gets -1", s)
            kind = "QPriority"
        else:
            raise TranslationError("create_queue: queue constructor the compiler does not know: `%s`" % r)
        arms.append((name, kind))
    _expect(isinstance(b[-1], ast.Raise) and _src(b[-1].exc).startswith("ValueError("), "an unknown scheduler name is rejected", b[-1])
    names = {"cheap": "SCheap", "random": "SRandom", "default": "SDefault"}
    _expect(all(n in names for n, _ in arms) and len({n for n, _ in arms}) == len(arms), "scheduler names", f)
    body = "\n".join("  | %s => Some %s" % (names[n], k) for n, k in arms)
    rest = [v for k, v in names.items() if k not in dict(arms)]
    return ["Inductive sched_name := SNone | SCheap | SRandom | SDefault | SOther.\nInductive qkind := QFifo | QRandom | QPriority.\n"
            "(* None = ValueError *)\nDefinition gen_create_queue (scheduler : sched_name) : option qkind :=\n"
            "  match (match scheduler with SNone => SDefault | s => s end) with\n%s\n  | _ => None\n  end." % body]


def translate(path):
    tree = ast.parse(open(path).read())
    defs = gen_random_queue(tree) + gen_simple_and_priority(tree) + gen_dispatch(tree)
    return ("(* GENERATED by harness/translate_scheduler.py from %s - do not edit *)\n"
            "From Coq Require Import List Arith Bool.\nImport ListNotations.\nFrom UJ Require Import Engine.Engine Engine.Queues.\n\n%s\n"
            % (os.path.relpath(path, core.REPO), "\n\n".join(defs)))


NTHEOREMS = 6


def check(ctx):
    src = os.path.join(core.REPO_SRC, "uberjob", "_execution", "scheduler.py")
    ctx.notes["translator_scheduler"] = "harness/translate_scheduler.py: scheduler.py -> coq/gen/QueuesGen.v, link theorems coq/gen/QueuesLink.v"
    try:
        text = translate(src)
    except (TranslationError, SyntaxError, OSError) as e:
        ctx.broke("translator: scheduler.py no longer has a shape the translator reads (fail-closed)", str(e))
        return
    scratch = True           # always compile in a directory private to this process (core.gen_dir): parallel checks must not share one
    gen_dir = core.gen_dir()
    if scratch:
        import shutil
        shutil.copy(os.path.join(GEN, "QueuesLink.v"), gen_dir)
    with open(os.path.join(gen_dir, "QueuesGen.v"), "w") as f:
        f.write(text)
    ctx.compared("translator: scheduler.py -> Gallina, linked to Engine/Queues.v by theorems")
    flags = ["-Q", os.path.join(core.COQ, "theories"), core.LOGICAL, "-Q", gen_dir, "UJGen", "-w", "none"]
    for f in ("QueuesGen.v", "QueuesLink.v"):
        p = subprocess.run(["timeout", "300", "coqc"] + flags + [os.path.join(gen_dir, f)], cwd=core.COQ, stdout=subprocess.PIPE, stderr=subprocess.STDOUT, text=True)
        if p.returncode != 0:
            break
    ok = p.returncode == 0 and (p.stdout or "").count("Closed under the global context") == NTHEOREMS
    ctx.notes["translator_scheduler_link_theorems"] = "UJGen.QueuesLink (6 theorems): %s" % ("proved, closed" if ok else "NOT proved")
    if not ok:
        # queues_corr.py (operation sequences on the real queue classes against Exec_Queues) exhibits the concrete sequence
        ctx.broke("translator link theorems UJGen.QueuesLink no longer check: scheduler.py differs from Engine/Queues.v", (p.stdout or "")[-1500:])
