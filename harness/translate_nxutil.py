"""Translator tie for src/uberjob/_util/networkx_util.py (C01, C04, C07): `predecessor_count`, `is_source_node`,
`topological_sort` (Kahn's algorithm as a generator) and `all_ancestors` are parsed with `ast` on every run and compiled to
Gallina (coq/gen/TopoGen.v); coq/gen/TopoLink.v (hand-written, committed) proves each generated function equal to the model
in Base/Topo.v / Engine.v for every graph.  Fail-closed: a statement or expression the compiler does not know is refused.

Trusted: this file; the reading of the data structures - `graph.pred[n]` / `graph.succ[n]` / `graph.predecessors(n)` are the
distinct neighbours in first-insertion order (`preds_first` / `succs_first`), `graph.nodes` is `nodes g`; a Python list used as
a stack is a Gallina list with its head as the LAST element (`append x` = cons, `pop()` = head); the dict of counters is a total
function with absent = 0 (only non-zero counts are ever stored) and `d[k] -= 1` on an absent / zero entry is the outcome KNeg
(KeyError or a negative counter; proved unreachable for the model, hence - by the link - for the code); a Python set is a
duplicate-free list; `any(d.values())` ranges over the graph's nodes; `yield x` appends x to the output."""
import ast
import os
import subprocess

import core
from translate_stale import GEN, TranslationError, _expect, _fn, _src


def _body(f):
    return [s for s in f.body if not (isinstance(s, ast.Expr) and isinstance(s.value, ast.Constant))]


def adjacency(e, env):
    """expression denoting an adjacency collection of a node -> Gallina list"""
    s = _src(e)
    for pat, fn in (("graph.pred[%s]", "preds_first"), ("pred[%s]", "preds_first"), ("graph.predecessors(%s)", "preds_first"),
                    ("graph.succ[%s]", "succs_first"), ("succ[%s]", "succs_first"), ("graph.successors(%s)", "succs_first")):
        for v in env:
            if s == pat % v:
                if pat.startswith(("pred[", "succ[")):
                    _expect(env.get("@" + pat.split("[")[0]) == "graph." + pat.split("[")[0], "`%s` is bound to graph.%s" % (pat.split("[")[0], pat.split("[")[0]), e)
                return "(%s g %s)" % (fn, env[v])
    raise TranslationError("not an adjacency expression the compiler knows: `%s`" % s)


def natexpr(e, env):
    if isinstance(e, ast.Name) and e.id in env and not e.id.startswith("@"):
        return env[e.id]
    if isinstance(e, ast.Constant) and isinstance(e.value, int) and not isinstance(e.value, bool) and 0 <= e.value < 1000:
        return "%d" % e.value
    if isinstance(e, ast.Call) and _src(e.func) == "len" and len(e.args) == 1 and not e.keywords:
        return "(length %s)" % adjacency(e.args[0], env)
    raise TranslationError("not a count expression the compiler knows: `%s`" % _src(e))


def gen_small(tree):
    f = _fn(tree, "predecessor_count")
    b = _body(f)
    _expect([a.arg for a in f.args.args] == ["graph", "node"] and len(b) == 1 and isinstance(b[0], ast.Return), "predecessor_count(graph, node): return ...", f)
    pc = natexpr(b[0].value, {"node": "node"})
    f = _fn(tree, "is_source_node")
    b = _body(f)
    _expect([a.arg for a in f.args.args] == ["graph", "node"] and len(b) == 1 and isinstance(b[0], ast.Return), "is_source_node(graph, node): return ...", f)
    v = b[0].value
    if isinstance(v, ast.UnaryOp) and isinstance(v.op, ast.Not):
        src = "match %s with [] => true | _ => false end" % adjacency(v.operand, {"node": "node"})
    elif isinstance(v, ast.Compare) and len(v.ops) == 1 and isinstance(v.ops[0], ast.Eq):
        src = "(%s =? %s)" % (natexpr(v.left, {"node": "node"}), natexpr(v.comparators[0], {"node": "node"}))
    else:
        raise TranslationError("is_source_node returns something the compiler does not know: `%s`" % _src(v))
    return ["Definition gen_predecessor_count (g : graph) (node : nat) : nat := %s." % pc,
            "Definition gen_is_source_node (g : graph) (node : nat) : bool := %s." % src]


def gen_toposort(tree):
    f = _fn(tree, "topological_sort")
    _expect([a.arg for a in f.args.args] == ["graph"], "topological_sort(graph)", f)
    b = _body(f)
    env = {}
    while b and isinstance(b[0], ast.Assign) and _src(b[0]) in ("pred = graph.pred", "succ = graph.succ"):
        nm = b[0].targets[0].id
        env["@" + nm] = "graph." + nm
        b = b[1:]
    _expect(len(b) == 5, "topological_sort: two containers, the initialising loop, the main loop, the final test (found %d statements)" % len(b))
    inits = {_src(b[0]), _src(b[1])}
    _expect(inits == {"pred_count_mapping = {}", "q = []"}, "pred_count_mapping = {} and q = []", b[0])
    # -- initialising loop
    lp = b[2]
    _expect(isinstance(lp, ast.For) and isinstance(lp.target, ast.Name) and _src(lp.iter) in ("graph.nodes", "graph.nodes()", "graph") and not lp.orelse, "for node in graph.nodes", lp)
    nv = lp.target.id
    ienv = dict(env, **{nv: "node"})
    body = list(lp.body)
    lets = []
    while body and isinstance(body[0], ast.Assign) and isinstance(body[0].targets[0], ast.Name):
        nm = body[0].targets[0].id
        lets.append("let %s := %s in" % (nm, natexpr(body[0].value, ienv)))
        ienv[nm] = nm
        body = body[1:]
    _expect(len(body) == 1 and isinstance(body[0], ast.If) and len(body[0].body) == 1 and len(body[0].orelse) == 1, "if <count>: store it else: q.append(node)", lp)

    def init_stmt(s):
        src = _src(s)
        if src == "q.append(%s)" % nv:
            return "(fst st, node :: snd st)"
        if isinstance(s, ast.Assign) and _src(s.targets[0]) == "pred_count_mapping[%s]" % nv:
            return "(cset (fst st) node %s, snd st)" % natexpr(s.value, ienv)
        raise TranslationError("initialising loop: statement the compiler does not know: `%s`" % src)
    t = body[0].test
    if isinstance(t, ast.Compare) and len(t.ops) == 1:
        a, c = natexpr(t.left, ienv), natexpr(t.comparators[0], ienv)
        test = {ast.Gt: "(%s <? %s)" % (c, a), ast.Lt: "(%s <? %s)" % (a, c), ast.Eq: "(%s =? %s)" % (a, c), ast.NotEq: "(negb (%s =? %s))" % (a, c),
                ast.GtE: "(%s <=? %s)" % (c, a), ast.LtE: "(%s <=? %s)" % (a, c)}.get(type(t.ops[0]))
        _expect(test is not None, "comparison", t)
    elif isinstance(t, ast.UnaryOp) and isinstance(t.op, ast.Not):
        test = "(%s =? 0)" % natexpr(t.operand, ienv)
    else:
        test = "(negb (%s =? 0))" % natexpr(t, ienv)
    init = ("Definition gen_init (g : graph) : (nat -> nat) * list nat :=\n  fold_left (fun st node => %s if %s then %s else %s) (nodes g) (fun _ => 0, [])."
            % (" ".join(lets), test, init_stmt(body[0].body[0]), init_stmt(body[0].orelse[0])))
    # -- main loop
    wl = b[3]
    _expect(isinstance(wl, ast.While) and _src(wl.test) == "q" and not wl.orelse, "while q", wl)
    wb = list(wl.body)
    _expect(len(wb) == 3 and isinstance(wb[0], ast.Assign) and isinstance(wb[0].targets[0], ast.Name), "node = q.pop(); for ...; yield node", wl)
    mv = wb[0].targets[0].id
    _expect(_src(wb[0].value) == "q.pop()", "the queue is used as a stack: q.pop()", wb[0])
    stmts = wb[1:]
    ys = [s for s in stmts if isinstance(s, ast.Expr) and isinstance(s.value, ast.Yield)]
    fs = [s for s in stmts if isinstance(s, ast.For)]
    _expect(len(ys) == 1 and len(fs) == 1 and _src(ys[0].value.value) == mv, "one `yield node` and one loop over the successors", wl)
    fl = fs[0]
    menv = dict(env, **{mv: "node"})
    _expect(isinstance(fl.target, ast.Name) and not fl.orelse, "for successor in succ[node]", fl)
    ss = adjacency(fl.iter, menv)
    _expect(ss.startswith("(succs_first"), "the inner loop ranges over the successors of the popped node", fl)
    sv = fl.target.id
    fb = list(fl.body)
    _expect(len(fb) == 2 and isinstance(fb[0], ast.AugAssign) and isinstance(fb[0].op, ast.Sub) and _src(fb[0].target) == "pred_count_mapping[%s]" % sv
            and _src(fb[0].value) == "1", "pred_count_mapping[successor] -= 1 comes first", fl)
    it = fb[1]
    _expect(isinstance(it, ast.If) and not it.orelse and len(it.body) == 1 and _src(it.body[0]) == "q.append(%s)" % sv, "if <counter test>: q.append(successor)", it)
    tt = it.test
    cur = "pred_count_mapping[%s]" % sv
    if isinstance(tt, ast.Compare) and len(tt.ops) == 1 and _src(tt.left) == cur:
        c = natexpr(tt.comparators[0], {})
        ztest = {ast.Eq: "(cnt s =? %s)" % c, ast.LtE: "(cnt s <=? %s)" % c, ast.Lt: "(cnt s <? %s)" % c}.get(type(tt.ops[0]))
        _expect(ztest is not None, "counter test", tt)
    elif isinstance(tt, ast.UnaryOp) and isinstance(tt.op, ast.Not) and _src(tt.operand) == cur:
        ztest = "(cnt s =? 0)"
    else:
        raise TranslationError("counter test the compiler does not know: `%s`" % _src(tt))
    inner = ("Fixpoint gen_inner (ss : list nat) (cnt : nat -> nat) (q : list nat) : option ((nat -> nat) * list nat) :=\n  match ss with\n  | [] => Some (cnt, q)\n"
             "  | s :: t =>\n      match cdec cnt s with\n      | None => None\n      | Some cnt => gen_inner t cnt (if %s then s :: q else q)\n      end\n  end." % ztest)
    # -- after the loop
    fin = b[4]
    _expect(isinstance(fin, ast.If) and not fin.orelse and len(fin.body) == 1 and isinstance(fin.body[0], ast.Raise) and _src(fin.body[0].exc).startswith("nx.HasACycle(")
            and _src(fin.test) == "any(pred_count_mapping.values())", "if any(pred_count_mapping.values()): raise nx.HasACycle(...)", fin)
    loop = ("Fixpoint gen_loop (g : graph) (fuel : nat) (cnt : nat -> nat) (q out : list nat) : kres :=\n  match fuel with\n  | 0 => KFuel\n  | S f =>\n      match q with\n"
            "      | [] => if existsb (fun n => negb (cnt n =? 0)) (nodes g) then KCycle else KOk (rev out)\n      | node :: q =>\n"
            "          match gen_inner %s cnt q with\n          | None => KNeg\n          | Some (cnt, q) => gen_loop g f cnt q (node :: out)\n          end\n      end\n  end." % ss)
    top = ("Definition gen_topological_sort (g : graph) : kres :=\n  let st := gen_init g in gen_loop g (S (length (nodes g))) (fst st) (snd st) [].")
    return [init, inner, loop, top]


def gen_ancestors(tree):
    f = _fn(tree, "all_ancestors")
    _expect([a.arg for a in f.args.args] == ["graph", "sources"], "all_ancestors(graph, sources)", f)
    b = _body(f)
    _expect(len(b) == 4 and {_src(b[0]), _src(b[1])} == {"visited = set()", "frontier = list(sources)"} and isinstance(b[2], ast.While) and _src(b[2].test) == "frontier"
            and not b[2].orelse and _src(b[3]) == "return visited", "all_ancestors: visited / frontier / while frontier / return visited", f)
    wb = list(b[2].body)
    _expect(len(wb) == 4 and _src(wb[0]) == "node = frontier.pop()" and _src(wb[1]) == "if node in visited:\n    continue" and _src(wb[2]) == "visited.add(node)"
            and isinstance(wb[3], ast.Expr) and isinstance(wb[3].value, ast.Call) and _src(wb[3].value.func) == "frontier.extend" and len(wb[3].value.args) == 1,
            "loop body: pop / skip visited / add / extend with the predecessors", b[2])
    ps = adjacency(wb[3].value.args[0], {"node": "node"})
    _expect(ps.startswith("(preds_first"), "the frontier is extended with the PREDECESSORS of the node", wb[3])
    return ["Fixpoint gen_anc_loop (g : graph) (fuel : nat) (visited frontier : list nat) : option (list nat) :=\n  match fuel with\n  | 0 => None\n  | S f =>\n"
            "      match frontier with\n      | [] => Some visited\n      | node :: frontier =>\n          if inb node visited then gen_anc_loop g f visited frontier\n"
            "          else gen_anc_loop g f (node :: visited) (rev %s ++ frontier)\n      end\n  end." % ps,
            "Definition gen_all_ancestors (g : graph) (sources : list nat) : option (list nat) :=\n  gen_anc_loop g (anc_fuel g sources) [] (rev sources)."]


PRELUDE = """(** counters: a total function, absent = 0; [cdec] is [d[k] -= 1] (None: absent or zero entry) *)
Definition cset (cnt : nat -> nat) (k v : nat) : nat -> nat := fun y => if y =? k then v else cnt y.
Definition cdec (cnt : nat -> nat) (k : nat) : option (nat -> nat) :=
  match cnt k with 0 => None | S c => Some (fun y => if y =? k then c else cnt y) end.
"""


def translate(path):
    tree = ast.parse(open(path).read())
    defs = gen_small(tree) + gen_toposort(tree) + gen_ancestors(tree)
    return ("(* GENERATED by harness/translate_nxutil.py from %s - do not edit *)\n"
            "From Coq Require Import List Arith Bool.\nImport ListNotations.\nFrom UJ Require Import Engine.Engine Base.Topo.\n\n%s\n%s\n"
            % (os.path.relpath(path, core.REPO), PRELUDE, "\n\n".join(defs)))


THEOREMS = ["generated_predecessor_count_is_model", "generated_is_source_node_is_model", "generated_topological_sort_is_model", "generated_all_ancestors_is_model"]


def check(ctx):
    src = os.path.join(core.REPO_SRC, "uberjob", "_util", "networkx_util.py")
    ctx.notes["translator_nxutil"] = "harness/translate_nxutil.py: networkx_util.py -> coq/gen/TopoGen.v, link theorems coq/gen/TopoLink.v"
    try:
        text = translate(src)
    except (TranslationError, SyntaxError, OSError) as e:
        ctx.broke("translator: networkx_util.py no longer has a shape the translator reads (fail-closed)", str(e))
        return
    scratch = True           # always compile in a directory private to this process (core.gen_dir): parallel checks must not share one
    gen_dir = core.gen_dir()
    if scratch:
        import shutil
        shutil.copy(os.path.join(GEN, "TopoLink.v"), gen_dir)
    with open(os.path.join(gen_dir, "TopoGen.v"), "w") as f:
        f.write(text)
    ctx.compared("translator: networkx_util.py -> Gallina, linked to Base/Topo.v by theorems")
    flags = ["-Q", os.path.join(core.COQ, "theories"), core.LOGICAL, "-Q", gen_dir, "UJGen", "-w", "none"]
    for f in ("TopoGen.v", "TopoLink.v"):
        p = subprocess.run(["timeout", "300", "coqc"] + flags + [os.path.join(gen_dir, f)], cwd=core.COQ, stdout=subprocess.PIPE, stderr=subprocess.STDOUT, text=True)
        if p.returncode != 0:
            break
    ok = p.returncode == 0 and (p.stdout or "").count("Closed under the global context") == len(THEOREMS) + 2
    ctx.notes["translator_nxutil_link_theorems"] = "UJGen.TopoLink.{%s}: %s" % (", ".join(THEOREMS), "proved, closed (and C07_cycle_rejected_on_source, C07_kahn_order_on_source: the C07 theorems stated of the generated function)" if ok else "NOT proved")
    if not ok:
        # topo_corr.py (random graphs incl. parallel edges and cycles against Exec_Topo) exhibits the concrete graph
        ctx.broke("translator link theorems UJGen.TopoLink no longer check: networkx_util.py differs from Base/Topo.v", (p.stdout or "")[-1500:])
