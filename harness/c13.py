"""C13: run, dry_run and render never modify the Plan or Registry they are given."""
import ast
import datetime as dt
import os
import re
import threading

import core

RULE = ("generated plans (2-9 calls in nested scopes, literals, keyword arguments, add_dependency edges) with a registry of "
        "stored nodes (fresh / missing / stale stores), registered literals and sources; every API outcome: run without registry, "
        "run with registry, dry_run, failure inside a call, failure inside the stale check (get_modified_time raises), "
        "transform_physical, output None / node / structure, and uberjob.render (plain, with registry, with level grouping and "
        "predicate); a full structural snapshot of the caller's Plan and Registry is taken before and compared after; every graph "
        "/ scope / registry mutation performed during the call is intercepted and must target an object created during the call; "
        "4 threads run one plan concurrently; API mutation sequences on copies vs snapshots of the originals. A case is distinct "
        "by (plan text, api, outcome); non-trivial = the call performed at least one intercepted mutation")
TRUSTED_BASE = [
    "harness/c13.py: snapshots compare object identities (id() of nodes, graph, mapping, RegistryValue, stores, frames), scopes, "
    "fn/value identities, edge multiset with keys and edge/node attribute dicts, registry order",
    "interception by monkeypatching networkx.MultiDiGraph mutators, Node/Plan/RegistryValue __setattr__ and a dict subclass for "
    "Registry.mapping; mutations that bypass these (direct access to networkx's internal dicts) are not seen - uberjob does none",
    "transform_physical is user code: the model treats it as the identity; the harness uses transforms that only touch the plan they are given",
    "GraphViz dot at /usr/bin/dot renders the copy; its output is not inspected",
]


class Interner:
    def __init__(self):
        self.t = {}

    def __call__(self, x):
        return self.t.setdefault(x, len(self.t) + 1)


def frame_chain(sf, limit=40):
    """the whole symbolic stack frame chain by value and identity (a chain edited in place is a modification of the caller's objects)"""
    out = []
    while sf is not None and len(out) < limit:
        out.append((id(sf), getattr(sf, "name", None), getattr(sf, "path", None), getattr(sf, "line", None)))
        sf = getattr(sf, "outer", None)
    return tuple(out)


def snap_plan(plan):
    g = plan.graph
    return {
        "plan_scope": plan._scope,
        "graph": id(g),
        "nodes": [(id(n), type(n).__name__, getattr(n, "scope", None), id(getattr(n, "fn", None)), id(getattr(n, "value", None)),
                   frame_chain(getattr(n, "stack_frame", None)), tuple(sorted(d.items()))) for n, d in g.nodes(data=True)],
        "edges": sorted((id(u), id(v), repr(k), tuple(sorted(d.items()))) for u, v, k, d in g.edges(keys=True, data=True)),
        "graph_attrs": tuple(sorted(g.graph.items())),
    }


def snap_reg(reg):
    if reg is None:
        return None
    return {"mapping": id(reg.mapping),
            "entries": [(id(n), id(rv), id(rv.value_store), rv.is_source, frame_chain(rv.stack_frame)) for n, rv in reg.mapping.items()]}


def diff(a, b):
    if a == b:
        return None
    if isinstance(a, dict):
        return {k: (str(a[k])[:200], str(b.get(k))[:200]) for k in a if a[k] != b.get(k)}
    return (str(a)[:200], str(b)[:200])


class TrackingDict(dict):
    log = None

    def _w(self, what):
        if TrackingDict.log is not None:
            TrackingDict.log.append(("mapping", self, what))

    def __setitem__(self, k, v):
        self._w("setitem")
        dict.__setitem__(self, k, v)

    def __delitem__(self, k):
        self._w("delitem")
        dict.__delitem__(self, k)

    def pop(self, *a):
        self._w("pop")
        return dict.pop(self, *a)

    def popitem(self):
        self._w("popitem")
        return dict.popitem(self)

    def clear(self):
        self._w("clear")
        dict.clear(self)

    def update(self, *a, **k):
        self._w("update")
        dict.update(self, *a, **k)

    def setdefault(self, *a):
        self._w("setdefault")
        return dict.setdefault(self, *a)


class Instr:
    """intercepts every mutation of graphs, node scopes, Plan attributes, RegistryValue attributes"""
    GRAPH_MUT = ["add_node", "add_nodes_from", "add_edge", "add_edges_from", "remove_node", "remove_nodes_from",
                 "remove_edge", "remove_edges_from", "clear", "clear_edges", "update", "add_weighted_edges_from"]

    def __init__(self):
        import networkx as nx
        from uberjob._plan import Plan
        from uberjob._registry import RegistryValue
        from uberjob.graph import Node
        self.nx, self.Plan, self.RV, self.Node = nx, Plan, RegistryValue, Node
        self.on = False
        self.log = []
        self.lock = threading.Lock()
        self.saved = []

    def emit(self, ev):
        if self.on:
            with self.lock:
                self.log.append(ev)

    def install(self):
        G = self.nx.MultiDiGraph
        me = self

        def wrap(name):
            orig = getattr(G, name)

            def w(self, *a, **k):
                me.emit(("graph", name, self, a))
                return orig(self, *a, **k)
            w.__name__ = name
            return orig, w
        for name in self.GRAPH_MUT:
            if hasattr(G, name):
                orig, w = wrap(name)
                self.saved.append((G, name, G.__dict__.get(name)))
                setattr(G, name, w)
        orig_init = G.__init__

        def g_init(self, *a, **k):
            me.emit(("new", "graph", self, None))
            return orig_init(self, *a, **k)
        self.saved.append((G, "__init__", G.__dict__.get("__init__")))
        G.__init__ = g_init

        def mk_setattr(tag, cls):
            def sa(self, name, value):
                first = not hasattr(self, name)
                me.emit((tag, name, self, (value, first)))
                object.__setattr__(self, name, value)
            self.saved.append((cls, "__setattr__", cls.__dict__.get("__setattr__")))
            cls.__setattr__ = sa
        mk_setattr("node", self.Node)
        mk_setattr("plan", self.Plan)
        mk_setattr("rv", self.RV)
        TrackingDict.log = None

    def uninstall(self):
        for cls, name, old in reversed(self.saved):
            if old is None:
                delattr(cls, name)
            else:
                setattr(cls, name, old)
        self.saved = []
        TrackingDict.log = None

    def start(self):
        self.log = []
        TrackingDict.log = self.log
        self.on = True

    def stop(self):
        self.on = False
        TrackingDict.log = None
        return self.log


def check_writes(ctx, log, plan, reg, key, replay):
    """every intercepted write targets an object created during the call (model-free write-set monitor)"""
    created = set()
    n_mut = 0
    for ev in log:
        tag, name, obj, arg = ev[0], ev[1], ev[2], ev[3] if len(ev) > 3 else None
        if tag == "new":
            created.add(id(obj))
        elif tag == "graph":
            n_mut += 1
            if id(obj) not in created or obj is plan.graph:
                ctx.fail("write-set:%s:graph" % key, "%s mutated a graph that existed before the call (%s)" % (key, name), replay)
                return n_mut
        elif tag in ("node", "plan", "rv"):
            value, first = arg
            if first:
                if name in ("scope", "_scope", "value_store"):
                    created.add(id(obj))
                continue
            n_mut += 1
            if id(obj) not in created:
                ctx.fail("write-set:%s:%s.%s" % (key, tag, name),
                         "%s assigned %s.%s on an object that existed before the call" % (key, type(obj).__name__, name), replay)
                return n_mut
        elif tag == "mapping":
            n_mut += 1
            if reg is not None and name is reg.mapping:
                ctx.fail("write-set:%s:mapping" % key, "%s wrote to the caller's registry mapping (%s)" % (key, obj), replay)
                return n_mut
    return n_mut


def run(ctx):
    uberjob = core.use_repo()
    import uberjob._transformations.caching as caching
    from uberjob.graph import Call, Dependency, KeywordArg, Literal, Node, PositionalArg
    from uberjob._util import fully_qualified_name

    rng = ctx.rng
    import random as _random
    _random.seed(ctx.seed)
    ins = Instr()
    clock = {"t": 0}

    def now():
        clock["t"] += 1
        return dt.datetime(2021, 1, 1) + dt.timedelta(seconds=clock["t"])

    class MemStore(uberjob.ValueStore):
        def __init__(self, name, fail=None):
            self.name, self.v, self.t, self.fail = name, None, None, fail
            self.lock = threading.Lock()

        def read(self):
            return self.v

        def write(self, v):
            with self.lock:
                self.v, self.t = v, now()

        def get_modified_time(self):
            if self.fail == "mtime":
                raise RuntimeError("mtime of %s" % self.name)
            return self.t

        def __repr__(self):
            return "MemStore(%s)" % self.name

    avs_cases = []      # (coq term, expected flat list, description)
    orig_avs = caching._add_value_store
    avs_state = {"on": False}

    def w_avs(plan, node, registry_value, *, is_stale):
        if not avs_state["on"]:
            return orig_avs(plan, node, registry_value, is_stale=is_stale)
        g = plan.graph
        preds = list(g.predecessors(node))
        outs = list(g.out_edges(node, keys=True))
        start = len(ins.log)
        r = orig_avs(plan, node, registry_value, is_stale=is_stale)
        evs = ins.log[start:]
        intern, addr = Interner(), {}

        def A(o):
            if id(o) not in addr:
                addr[id(o)] = len([v for v in addr.values() if v < 500])
            return addr[id(o)]

        def sc(s):
            return [intern(x) for x in s]

        def key(k):
            if type(k) is PositionalArg:
                return (0, k.index, 0)
            if type(k) is KeywordArg:
                return (1, k.index, intern(("kw", k.name)))
            return (2, 0, 0)
        n_addr = A(node)
        p_addrs = [A(p) for p in preds]
        o_enc = [(A(v), key(k)) for _, v, k in outs]
        is_call = type(node) is Call
        nscope = sc(node.scope)
        nkind = intern(fully_qualified_name(node.fn)) if is_call else 0
        store = registry_value.value_store
        fresh = [600]
        flat = []
        for ev in evs:
            tag, name, obj, arg = ev
            if tag == "graph":
                gid = 500 if obj is g else 777
                if name == "add_node":
                    n = arg[0]
                    if id(n) not in addr:
                        addr[id(n)] = fresh[0]
                        fresh[0] += 1
                        if type(n) is Literal:
                            kind = 100 if n.value is store else (102 if n.value is caching.Barrier else 998)
                        else:
                            kind = 101 if n.fn == store.__class__.read else (103 if n.fn == store.__class__.write else 999)
                        s0 = first_scope.get(id(n), n.scope)
                        flat += [1, kind, len(s0)] + sc(s0)
                    flat += [4, gid, addr[id(n)]]
                elif name == "add_edge":
                    flat += [5, gid, A(arg[0]), A(arg[1])] + list(key(arg[2]))
                elif name == "remove_edge":
                    flat += [6, gid, A(arg[0]), A(arg[1])] + list(key(arg[2]))
                elif name in ("remove_node",):
                    flat += [7, gid, A(arg[0])]
                else:
                    flat += [99]
            elif tag == "node" and name == "scope":
                value, first = arg
                if first:
                    first_scope[id(obj)] = value
                else:
                    flat += [2, A(obj), len(value)] + sc(value)
            elif tag == "plan" and name == "_scope":
                value, first = arg
                flat += [3, 501 if obj is plan else 778, len(value)] + sc(value)
        term = "exec_avs 500 501 600 %d %s %s %d %s %s %s %s" % (
            n_addr, core.coq_bool(is_call), core.coq_list(nscope), nkind, core.coq_bool(registry_value.is_source),
            core.coq_bool(is_stale), core.coq_list(p_addrs),
            core.coq_list(o_enc, lambda o: "(%d, (%d, %d, %d))" % (o[0], o[1][0], o[1][1], o[1][2])))
        avs_cases.append((term, flat, "%s source=%s stale=%s call=%s preds=%d outs=%d" % (
            type(node).__name__, registry_value.is_source, is_stale, is_call, len(preds), len(outs))))
        ctx.count("add_value_store", "source=%s stale=%s call=%s" % (registry_value.is_source, is_stale, is_call))
        return r
    first_scope = {}

    ins.install()
    caching._add_value_store = w_avs
    try:
        _cases(ctx, uberjob, rng, ins, MemStore, avs_state, first_scope, Node)
    finally:
        caching._add_value_store = orig_avs
        ins.uninstall()
    sentinel(ctx)
    # ---- model vs implementation: the command sequence of every _add_value_store call
    header = ("From Coq Require Import List Arith Bool.\nImport ListNotations.\n"
              "From UJ Require Import Obs.Alias Run.Exec_Alias.\n")
    if avs_cases:
        outs = core.coq_eval(header, [c[0] for c in avs_cases], ty="list nat", shard=max(20, len(avs_cases) // 12 + 1), tag="c13")
        for (term, flat, desc), o in zip(avs_cases, outs):
            got = [int(x) for x in re.findall(r"\d+", o)]
            ctx.compared("Alias.v avs_cmds vs intercepted mutations of caching._add_value_store")
            if got != flat:
                ctx.broke("correspondence Obs/Alias.v avs_cmds vs /repo _add_value_store", {"case": desc, "model": got, "impl": flat, "term": term})


def gen_plan(uberjob, rng, MemStore):
    """-> (plan, registry, nodes, text, special) ; special: dict of failure injection handles"""
    plan, reg = uberjob.Plan(), uberjob.Registry()
    text, nodes = [], []
    n = rng.randint(2, 9)
    boom = {"on": False}
    scopes = [(), ("a",), ("a", 1), ("b",), ("b", "c", 2)]

    def mk(i):
        def f(*args, **kw):
            if boom["on"] and i == boom.get("i"):
                raise ValueError("boom %d" % i)
            return i + sum(a for a in list(args) + list(kw.values()) if isinstance(a, int))
        f.__name__ = "f%d" % i
        return f
    for i in range(n):
        sc = rng.choice(scopes)
        k = rng.choice([0, 1, 1, 2, 3]) if nodes else 0
        args = [rng.choice(nodes) if rng.random() < 0.75 else rng.randint(0, 5) for _ in range(k)]
        if not nodes:
            args = [rng.randint(0, 5)]
        cut = rng.randint(0, len(args))
        pos, kw = args[:cut], {"k%d" % j: a for j, a in enumerate(args[cut:])}
        with plan.scope(*sc):
            if rng.random() < 0.12:
                nd = plan.lit(rng.randint(10, 20))
                text.append("n%d = lit in %r" % (i, sc))
            elif nodes and rng.random() < 0.15:
                # a node made by hand through the public low-level uberjob.graph API: its stack_frame keeps the documented default, None
                from uberjob.graph import Call as _Call, PositionalArg as _Pos
                nd = _Call(mk(i), scope=tuple(sc))
                plan.graph.add_node(nd)
                plan.graph.add_edge(rng.choice(nodes), nd, _Pos(0))
                text.append("n%d = hand-made Call (stack_frame None) in %r" % (i, sc))
            else:
                nd = plan.call(mk(i), *pos, **kw)
                text.append("n%d = call(%d pos, %d kw) in %r" % (i, len(pos), len(kw), sc))
        nodes.append(nd)
        if len(nodes) > 2 and rng.random() < 0.2:
            a, b = sorted(rng.sample(range(len(nodes)), 2))
            plan.add_dependency(nodes[a], nodes[b])
            text.append("dep n%d -> n%d" % (a, b))
    stores = []
    for i, nd in enumerate(nodes):
        if rng.random() < 0.4:
            st = MemStore("s%d" % i)
            x = rng.random()
            if x < 0.4:
                st.write(100 + i)        # present (fresh or stale depending on the ancestors' times)
            reg.add(nd, st)
            stores.append(st)
            text.append("registry.add(n%d, %s)" % (i, "written" if st.t else "missing"))
    if rng.random() < 0.5:
        st = MemStore("src")
        if rng.random() < 0.85:
            st.write(7)
        with plan.scope(*rng.choice(scopes)):
            s = reg.source(plan, st)
        stores.append(st)
        consumer = plan.call(mk(n), s, *(rng.sample(nodes, 1) if rng.random() < 0.5 else []))
        if rng.random() < 0.3 and nodes:
            plan.add_dependency(rng.choice(nodes), s)    # a dependent source
            text.append("dep -> source")
        nodes.append(consumer)
        text.append("source(%s) consumed" % ("present" if st.t else "missing"))
    return plan, reg, nodes, text, {"boom": boom, "stores": stores, "n": len(nodes)}


def empty_plan(ctx, uberjob):
    """a plan without any node is a plan like any other: run / dry_run with a plain-value output neither add nodes to it nor
    hand it out as the physical plan"""
    for api, kw in (("run", {}), ("dry_run", {"dry_run": True}), ("run+failing transform", {"transform_physical": lambda p, o: 1 / 0})):
        for out in (7, [1, {"k": (2, 3)}], None):
            plan = uberjob.Plan()
            with plan.scope("s"):
                before = snap_plan(plan)
                try:
                    res = uberjob.run(plan, output=out, progress=None, **kw)
                    oc = "ok"
                except BaseException as e:      # noqa
                    res, oc = None, type(e).__name__
                after = snap_plan(plan)
            ctx.case(("empty-plan", api, repr(out)))
            d = diff(before, after)
            if d:
                ctx.fail("snapshot:empty-plan", "%s on an empty plan with output %r (%s) changed the caller's Plan: %s" % (api, out, oc, d), {"api": api, "output": repr(out)})
            if api == "dry_run" and oc == "ok" and res[0] is plan:
                ctx.fail("snapshot:empty-plan-returned", "dry_run on an empty plan returned the caller's own Plan object as the physical plan", {"output": repr(out)})


def independent_locks_and_subclasses(ctx, uberjob, MemStore):
    """(a) while one thread is inside `with plan.scope(...)`, another thread can use a copy of the plan, and run the plan or any
    other plan with a registry; (b) run / dry_run / copy of a Plan SUBCLASS that keeps book-keeping of its own (an overridden
    lit / call filling a list) do not touch the caller's object."""
    import threading
    plan, reg = uberjob.Plan(), uberjob.Registry()
    with plan.scope("a"):
        x = plan.call(lambda: 1)
    reg.add(x, MemStore("x"))
    held, release = threading.Event(), threading.Event()

    def holder():
        with plan.scope("held"):
            held.set()
            release.wait(20)
    th = threading.Thread(target=holder, daemon=True)
    th.start()
    held.wait(5)
    done = {}

    def other():
        cp = plan.copy()
        with cp.scope("on-the-copy"):
            done["copy-scope"] = True
        done["run-same-plan"] = uberjob.run(plan, registry=reg, output=x, progress=None, max_workers=2)
        p2, r2 = uberjob.Plan(), uberjob.Registry()
        with p2.scope("b"):
            y = p2.call(lambda: 2)
        r2.add(y, MemStore("y"))
        done["run-other-plan"] = uberjob.run(p2, registry=r2, output=y, progress=None, max_workers=2)
    t2 = threading.Thread(target=other, daemon=True)
    t2.start()
    t2.join(10)
    blocked = t2.is_alive()
    release.set()
    th.join(5)
    t2.join(5)
    ctx.case(("c13-scope-lock-independent",))
    if blocked or done.get("run-same-plan") != 1 or done.get("run-other-plan") != 2:
        ctx.fail("scope-lock-shared", "while one thread is inside `with plan.scope(...)`, a copy's scope / a run of the plan / a run of another plan in a second "
                 "thread %s (completed: %r)" % ("blocked for 10 s" if blocked else "misbehaved", sorted(done)), {"completed": sorted(done)})

    class BookPlan(uberjob.Plan):
        def __init__(self):
            super().__init__()
            self.literals = []

        def lit(self, value):
            node = super().lit(value)
            self.literals.append(node)
            return node
    bp = BookPlan()
    a = bp.call(lambda v, w: v + w, 1, 2)
    n0 = len(bp.literals)
    snap0 = snap_plan(bp)
    for api, fn in (("run", lambda: uberjob.run(bp, output=[a, 5], progress=None)), ("dry_run", lambda: uberjob.run(bp, output=[a, 5], dry_run=True, progress=None)),
                    ("run with registry", lambda: uberjob.run(bp, output=a, registry=uberjob.Registry(), progress=None)),
                    ("Plan.copy + lit on the copy", lambda: bp.copy().lit(9))):
        try:
            fn()
        except Exception:
            pass
        ctx.case(("c13-plan-subclass", api))
        d = diff(snap0, snap_plan(bp))
        if len(bp.literals) != n0 or d:
            ctx.fail("plan-subclass", "%s on a Plan subclass changed the caller's object: its own list of literals grew from %d to %d; graph diff %s"
                     % (api, n0, len(bp.literals), d or "none"), {"api": api})
            break


def _cases(ctx, uberjob, rng, ins, MemStore, avs_state, first_scope, Node):
    empty_plan(ctx, uberjob)
    independent_locks_and_subclasses(ctx, uberjob, MemStore)
    from uberjob._registry import RegistryValue
    nplans = ctx.n(60, 900)
    for pi in range(nplans):
        plan, reg, nodes, text, sp = gen_plan(uberjob, rng, MemStore)
        reg.mapping = TrackingDict(reg.mapping)
        outs = [None, rng.choice(nodes), [rng.choice(nodes), {"k": rng.choice(nodes), "l": (rng.choice(nodes), 3)}],
                (nodes[-1], 5)]
        replay0 = {"plan": text, "seed": ctx.seed, "index": pi}

        def attempt(api, outcome, fn, use_reg, single=True):
            """snapshot, instrumented call, snapshot, write-set check"""
            before = (snap_plan(plan), snap_reg(reg))
            first_scope.clear()
            ins.start()
            avs_state["on"] = single
            err = None
            try:
                res = fn()
            except uberjob.CallError as e:
                res, err = None, e
            except Exception as e:          # rendering problems etc. are reported, not swallowed
                res, err = None, e
            finally:
                avs_state["on"] = False
                log = ins.stop()
            after = (snap_plan(plan), snap_reg(reg))
            key = "%s:%s" % (api, outcome)
            replay = dict(replay0, api=api, outcome=outcome)
            d1, d2 = diff(before[0], after[0]), diff(before[1], after[1])
            if d1:
                ctx.fail("snapshot:%s:plan" % key, "%s (%s) changed the caller's Plan: %s" % (api, outcome, d1), dict(replay, diff=d1))
            if d2:
                ctx.fail("snapshot:%s:registry" % key, "%s (%s) changed the caller's Registry: %s" % (api, outcome, d2), dict(replay, diff=d2))
            nm = check_writes(ctx, log, plan, reg if use_reg else None, key, replay)
            ctx.case(("\n".join(text), api, outcome), nontrivial=nm > 0,
                     sample=dict(replay, mutations_intercepted=nm) if pi == 5 and outcome in ("registry", "dry") else None)
            ctx.count("outcome", key)
            return res, err

        out = rng.choice(outs)
        ctx.count("output", "none" if out is None else type(out).__name__ if not isinstance(out, Node) else "node")
        # 1. plain run, twice: same result (rerun_same_meaning)
        r1, e1 = attempt("run", "plain", lambda: uberjob.run(plan, output=out, progress=None, max_workers=rng.choice([1, 3])), False)
        r2, e2 = attempt("run", "plain-again", lambda: uberjob.run(plan, output=out, progress=None), False)
        if (e1 is None) != (e2 is None) or (e1 is None and r1 != r2):
            ctx.fail("rerun:plain", "a second run of the same plan gave a different result", dict(replay0, first=repr(r1), second=repr(r2)))
        # 2. dry run without and with registry
        attempt("run", "dry-noreg", lambda: uberjob.run(plan, output=out, dry_run=True, progress=None), False)
        attempt("run", "dry", lambda: uberjob.run(plan, output=out, registry=reg, dry_run=True, progress=None), True)
        # 3. with registry (writes the stores), then again (now mostly fresh), with fresh_time
        r3, e3 = attempt("run", "registry", lambda: uberjob.run(plan, output=out, registry=reg, progress=None,
                                                                scheduler=rng.choice(["default", "random"])), True)
        r4, e4 = attempt("run", "registry-again", lambda: uberjob.run(plan, output=out, registry=reg, progress=None), True)
        if e3 is None and e4 is None and r3 != r4 and not any("source" in t for t in text):
            ctx.fail("rerun:registry", "a second run with the same registry gave a different result", dict(replay0, first=repr(r3), second=repr(r4)))
        attempt("run", "fresh_time", lambda: uberjob.run(plan, output=out, registry=reg, progress=None,
                                                          fresh_time=dt.datetime(2030, 1, 1)), True)
        # 3b. a registry shared with another plan (it has an entry for a node this plan does not contain): whatever run and
        # dry_run do with it - on the pinned code they reject it - the caller's registry and plan stay as they were
        if pi % 3 == 0:
            other = uberjob.Plan()
            foreign = other.call(lambda: 1)
            shared = reg.copy()
            shared.add(foreign, MemStore("foreign"))
            for api, kw in (("run", {}), ("dry_run", {"dry_run": True})):
                before = (snap_plan(plan), snap_reg(shared), snap_plan(other))
                try:
                    uberjob.run(plan, output=out, registry=shared, progress=None, **kw)
                    oc = "returned"
                except BaseException as e:      # noqa
                    oc = type(e).__name__
                after = (snap_plan(plan), snap_reg(shared), snap_plan(other))
                ctx.case(("\n".join(text), api, "shared-registry"))
                ctx.count("outcome", "%s:shared-registry:%s" % (api, oc))
                for nm, b, a in zip(("Plan", "Registry", "other Plan"), before, after):
                    d = diff(b, a)
                    if d:
                        ctx.fail("snapshot:%s:shared-registry" % api, "%s with a registry that also has an entry for another plan's node (%s) changed the caller's %s: %s"
                                 % (api, oc, nm, d), dict(replay0, api=api, diff=d))
        # 4. transform_physical (adds a node to the physical plan it is given / returns it unchanged)
        def tp(p, o):
            if rng.random() < 0.5:
                p.call(lambda: 0)
            return p, o
        attempt("run", "transform", lambda: uberjob.run(plan, output=out, registry=reg if rng.random() < 0.5 else None,
                                                         progress=None, transform_physical=tp), True)
        # 5. failure inside a call
        sp["boom"]["on"], sp["boom"]["i"] = True, rng.randrange(sp["n"])
        attempt("run", "call-fails", lambda: uberjob.run(plan, output=nodes[-1], progress=None, max_errors=rng.choice([0, None])), False)
        attempt("run", "call-fails-registry", lambda: uberjob.run(plan, output=nodes[-1], registry=reg, progress=None,
                                                                   fresh_time=dt.datetime(2031, 1, 1)), True)
        sp["boom"]["on"] = False
        # 6. failure inside the stale check
        if sp["stores"]:
            st = rng.choice(sp["stores"])
            st.fail = "mtime"
            _, e = attempt("run", "stale-check-fails-or-skipped", lambda: uberjob.run(plan, output=out, registry=reg, progress=None), True)
            st.fail = None
            if e is None:
                # the store is never asked when an ancestor is already stale: the run then succeeds
                ctx.count("stale_check_failure_surface", "store-not-queried")
            elif not isinstance(e, uberjob.CallError):
                # observed on the current tree, not a C13 matter: a store registered for a Literal whose get_modified_time raises
                # makes run() raise AttributeError('Literal' object has no attribute 'fn') from CallError(e.node) - reported to the integrator
                ctx.count("stale_check_failure_surface", type(e).__name__)
                ctx.notes.setdefault("observed_outside_C13", "run() raises %s instead of CallError when get_modified_time of a store "
                                     "registered for a Literal raises (CallError(literal) needs .fn)" % type(e).__name__)
            else:
                ctx.count("stale_check_failure_surface", "CallError")
        # 7. render
        for variant, kw in (("plain", {}), ("registry", {"registry": reg}),
                            ("level", {"level": rng.choice([0, 1, 2]), "registry": reg}),
                            ("predicate", {"predicate": lambda u, d: type(u).__name__ == "Call", "level": 1})):
            if ctx.quick and pi % 3 and variant in ("registry", "predicate"):
                continue
            _, e = attempt("render", variant, lambda: uberjob.render(plan, format="svg", **kw), "registry" in kw)
            if e is not None:
                ctx.broke("uberjob.render(%s) could not run" % variant, {"error": repr(e)[:400]})
        # 7b. the (plan, output_node) form of render's argument - what a dry run returns, or the caller's own pair - is not
        # modified either, whatever level= / predicate= remove or group
        if pi % 2 == 0:
            try:
                pair = uberjob.run(plan, output=out, registry=reg, dry_run=True, progress=None)
            except Exception:
                pair = None
            for label, arg, target in (("dry-run pair", pair, pair[0] if pair else None), ("own pair", (plan, None), plan)):
                if arg is None:
                    continue
                for variant, kw in (("level", {"level": rng.choice([0, 1])}), ("predicate", {"predicate": lambda u, d: type(u).__name__ == "Call"})):
                    before = snap_plan(target)
                    try:
                        uberjob.render(arg, format="svg", **kw)
                        oc = "ok"
                    except Exception as e:
                        oc = type(e).__name__
                    d_ = diff(before, snap_plan(target))
                    ctx.case(("\n".join(text), "render-pair", label, variant))
                    ctx.count("outcome", "render-pair:%s:%s" % (variant, oc))
                    if d_:
                        ctx.fail("snapshot:render-pair:%s" % variant, "render(%s, %s=...) changed the plan it was given: %s" % (label, variant, d_),
                                 dict(replay0, api="render", argument=label, diff=d_))
        # 8. four threads run the same plan concurrently
        if pi % 4 == 0:
            results = [None] * 4
            has_source = any("source" in t for t in text)

            def worker(k):
                try:
                    results[k] = ("ok", uberjob.run(plan, output=out, progress=None, max_workers=2,
                                                    registry=reg if (k % 2 or has_source) else None))
                except Exception as e:
                    results[k] = ("err", repr(e))

            def conc():
                ts = [threading.Thread(target=worker, args=(k,)) for k in range(4)]
                [t.start() for t in ts]
                [t.join() for t in ts]
                return results
            attempt("run", "4-threads", conc, True, single=False)
            vals = {repr(r) for r in results}
            same_cfg = len({repr(results[0]), repr(results[2])}) == 1 and len({repr(results[1]), repr(results[3])}) == 1
            if any(r[0] != "ok" for r in results) or not same_cfg:
                ctx.fail("concurrent", "4 concurrent runs of one plan disagree or failed: %s" % sorted(vals), dict(replay0, results=sorted(vals)))
        # 9. copies are independent
        copies(ctx, uberjob, rng, plan, reg, nodes, replay0, MemStore, RegistryValue)


def copies(ctx, uberjob, rng, plan, reg, nodes, replay0, MemStore, RegistryValue):
    def mutate_plan(p, pool):
        pool = [n for n in pool if p.graph.has_node(n)]
        if not pool:
            pool.append(p.lit(0))
        for _ in range(rng.randint(1, 6)):
            x = rng.random()
            with p.scope("m"):
                if x < 0.4:
                    pool.append(p.call(lambda *a: 0, *rng.sample(pool, min(len(pool), rng.randint(0, 2)))))
                elif x < 0.55:
                    pool.append(p.lit(rng.randint(0, 9)))
                elif x < 0.7 and len(pool) > 1:
                    a, b = rng.sample(pool, 2)
                    p.add_dependency(a, b)
                elif x < 0.85:
                    pool.append(p.gather([rng.choice(pool), {"k": rng.choice(pool)}]))
                else:
                    pool.extend(p.unpack(rng.choice(pool), rng.randint(0, 2)))
    # Plan.copy - called directly or through the standard copy protocol (Plan.__copy__ and Registry.__copy__ ARE the copy methods)
    import copy as _copy
    via_protocol = replay0["index"] % 3 == 2
    mkcopy = _copy.copy if via_protocol else (lambda x: x.copy())
    replay0 = dict(replay0, copied_with="copy.copy(x)" if via_protocol else "x.copy()")
    ctx.count("copies_made_with", replay0["copied_with"])
    cp = mkcopy(plan)
    ctx.compared("Alias.v copy_plan_cmds: new graph object, shared node objects")
    if cp.graph is plan.graph or [id(n) for n in cp.graph.nodes()] != [id(n) for n in plan.graph.nodes()] or cp._scope != ():
        ctx.broke("correspondence Obs/Alias.v copy_plan_cmds vs Plan.copy", {"same_graph": cp.graph is plan.graph})
    b_orig, b_copy = snap_plan(plan), snap_plan(cp)
    mutate_plan(cp, list(nodes))
    d = diff(b_orig, snap_plan(plan))
    if d:
        ctx.fail("copy:plan:copy-mutated", "building on Plan.copy() changed the original: %s" % d, dict(replay0, diff=d))
    b_copy = snap_plan(cp)
    scratch = plan.copy()            # keep the caller's plan intact for later cases: mutate a second copy as 'original'
    b_scratch_copy = mkcopy(scratch)
    snap_c = snap_plan(b_scratch_copy)
    mutate_plan(scratch, list(nodes))
    d = diff(snap_c, snap_plan(b_scratch_copy))
    if d:
        ctx.fail("copy:plan:original-mutated", "building on the original changed its earlier copy: %s" % d, dict(replay0, diff=d))
    ctx.case(("copy-plan", replay0["index"]), nontrivial=True)
    # Registry.copy
    rc = mkcopy(reg)
    ctx.compared("Alias.v copy_registry_cmds: new mapping, one new RegistryValue per entry, shared stores")
    for n, rv in reg.mapping.items():
        c = rc.mapping.get(n)
        if c is None or c is rv or c.value_store is not rv.value_store or c.is_source != rv.is_source or c.stack_frame is not rv.stack_frame:
            ctx.broke("correspondence Obs/Alias.v copy_registry_cmds vs Registry.copy",
                      {"shared_registry_value": c is rv, "entry": repr(n)})
            if c is rv:
                ctx.fail("copy:registry:shared-value", "Registry.copy() shares RegistryValue objects with the original", replay0)
            break
    if rc.mapping is reg.mapping or list(rc.mapping) != list(reg.mapping):
        ctx.broke("correspondence Obs/Alias.v copy_registry_cmds vs Registry.copy (mapping)", {})
    b = snap_reg(reg)
    flags = {n: rv.is_source for n, rv in reg.mapping.items()}
    p2 = plan.copy()
    for _ in range(rng.randint(1, 4)):
        x = rng.random()
        free = [n for n in nodes if n not in rc]
        if x < 0.4 and free:
            rc.add(rng.choice(free), MemStore("c"))
        elif x < 0.7:
            rc.source(p2, MemStore("cs"))
        elif len(rc):
            n = rng.choice(list(rc.mapping))
            rc.mapping[n].is_source = not rc.mapping[n].is_source     # direct attribute write through the copy
    d = diff(b, snap_reg(reg))
    if d or flags != {n: rv.is_source for n, rv in reg.mapping.items()}:
        ctx.fail("copy:registry:copy-mutated", "mutating Registry.copy() changed the original: %s" % (d,), dict(replay0, diff=d))
    ctx.case(("copy-registry", replay0["index"]), nontrivial=len(reg) > 0)


def sentinel(ctx):
    """run() copies the plan before anything else can mutate it; render() works on a copy"""
    base = os.path.join(core.REPO_SRC, "uberjob")
    tree = ast.parse(open(os.path.join(base, "_run.py")).read())
    fn = next(n for n in ast.walk(tree) if isinstance(n, ast.FunctionDef) and n.name == "run")
    first_mut = None
    for st in fn.body:
        if isinstance(st, ast.Expr) and isinstance(st.value, ast.Constant):
            continue
        src = ast.unparse(st)
        if isinstance(st, ast.Assign) and src == "plan = get_mutable_plan(plan, inplace=False)":
            first_mut = "copy"
            break
        if any(s in src for s in ("_gather", "plan_with_value_stores", "prune_plan", "run_physical", "add_node", "add_edge", ".scope")):
            first_mut = src
            break
    if first_mut != "copy":
        ctx.broke("sentinel: uberjob.run no longer starts with plan = get_mutable_plan(plan, inplace=False)", {"first": first_mut})
    src = ast.unparse(fn)
    for frag in ("plan_with_value_stores(plan, registry,", "inplace=True"):
        if frag not in src:
            ctx.broke("sentinel: run() changed shape (%r missing)" % frag, {})
    rt = ast.parse(open(os.path.join(base, "_rendering.py")).read())
    rfn = next(n for n in ast.walk(rt) if isinstance(n, ast.FunctionDef) and n.name == "render")
    if "graph = (plan.graph if isinstance(plan, Plan) else plan).copy()" not in ast.unparse(rfn):
        ctx.broke("sentinel: render() no longer copies the graph first", {})
    ct = ast.parse(open(os.path.join(base, "_registry.py")).read())
    cfn = next(n for n in ast.walk(ct) if isinstance(n, ast.FunctionDef) and n.name == "copy")
    if "copy.copy(registry_value)" not in ast.unparse(cfn):
        ctx.broke("sentinel: Registry.copy no longer copies each RegistryValue", {})
    at = ast.parse(open(os.path.join(base, "_transformations", "caching.py")).read())
    afn = next(n for n in ast.walk(at) if isinstance(n, ast.FunctionDef) and n.name == "_add_value_store")
    scope_assigns = [ast.unparse(n) for n in ast.walk(afn) if isinstance(n, ast.Assign) and ".scope" in ast.unparse(n.targets[0])]
    if scope_assigns != ["call.scope = get_full_call_scope(node)"]:
        ctx.broke("sentinel: _add_value_store assigns scopes differently", {"assignments": scope_assigns})
