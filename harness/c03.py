import core, cache_corr
RULE = "see C05"
TRUSTED_BASE = []
def run(ctx):
    camp = cache_corr.Campaign(ctx)
    cache_corr.history_campaign(ctx, camp, ctx.n(60, 1200), ctx.n(6, 8))
    import cache_files
    cache_files.run_file_histories(ctx, camp.found)     # real file stores, real modified times
    import depviews
    depviews.run(ctx, camp.add)
    import tz_histories
    tz_histories.run(ctx, camp.add, "C03")       # the same decisions in processes running in other time zones
    camp.eval_model()
    camp.file({"C03"})
