import core, cache_corr
RULE = "see C05"
TRUSTED_BASE = []
def run(ctx):
    camp = cache_corr.Campaign(ctx)
    cache_corr.history_campaign(ctx, camp, ctx.n(60, 1200), ctx.n(6, 8))
    import cache_files
    cache_files.run_file_histories(ctx, camp.found)     # real file stores, real modified times
    cache_files.directory_sources(ctx, lambda key, what, replay: camp.add("C03", key, what, replay))
    import c08_files
    c08_files.overlapping_writes(ctx)     # file stores with the same stem written at overlapping times, then the repairing run
    interrupted_write(ctx, camp.add)
    import planlevel
    planlevel.equal_constants(ctx, core.use_repo(), True, lambda key, what, replay: camp.add("C03", key, what, replay))
    import depviews
    depviews.run(ctx, camp.add)
    import tz_histories
    tz_histories.run(ctx, camp.add, "C03")       # the same decisions in processes running in other time zones
    camp.eval_model()
    camp.file({"C03"})


def interrupted_write(ctx, add):
    """Ctrl-C while a store write is in flight: when run raises, no write is still going on, so a source update made right
    afterwards is newer than everything the interrupted run wrote, and the next run gives the from-scratch values."""
    import datetime as dt
    import itertools
    import signal
    import threading
    import time
    uj = core.use_repo()
    clock = itertools.count(1)
    now = lambda: dt.datetime(2020, 1, 1) + dt.timedelta(seconds=next(clock))
    # (a shutdown that gives up on its workers after some grace period shows only with writes longer than that period)
    for workers, duration in ((1, 0.6), (3, 0.6), (2, 1.7)) + (() if ctx.quick else ((2, 3.5), (1, 6.0))):
        writing = threading.Event()

        class Mem(uj.ValueStore):
            def __init__(self, v=None, slow=False):
                self.v, self.t, self.slow, self.in_flight = v, (now() if v is not None else None), slow, False

            def read(self):
                return self.v

            def write(self, v):
                self.in_flight = True
                if self.slow and not writing.is_set():
                    writing.set()
                    time.sleep(duration)
                self.v, self.t = v, now()
                self.in_flight = False

            def get_modified_time(self):
                return self.t
        src, a_st, b_st = Mem(10), Mem(slow=True), Mem()
        plan, reg = uj.Plan(), uj.Registry()
        s_ = reg.source(plan, src)
        a = plan.call(lambda v: v * 2, s_)
        reg.add(a, a_st)
        b = plan.call(lambda v: v + 1, a)
        reg.add(b, b_st)

        def killer():
            writing.wait(10)
            time.sleep(0.1)
            signal.pthread_kill(threading.main_thread().ident, signal.SIGINT)
        th = threading.Thread(target=killer, daemon=True)
        th.start()
        try:
            try:
                uj.run(plan, registry=reg, output=b, max_workers=workers, progress=None)
                first = "returned"
            except KeyboardInterrupt:
                first = "interrupted"
        except KeyboardInterrupt:
            first = "interrupted-late"
        still = a_st.in_flight or b_st.in_flight
        src.v, src.t = 50, now()              # the source is updated right after the interrupted run
        time.sleep(duration + 0.4)
        th.join(5)
        got = uj.run(plan, registry=reg, output=b, max_workers=1, progress=None)
        ctx.case(("c03-interrupted-write", workers, duration))
        ctx.count("interrupted_write_first_run", first)
        if still or got != 101 or a_st.v != 100 or b_st.v != 101:
            add("C03", "interrupted-write", "Ctrl-C during a store write (%s): a write was still in flight when run raised: %s; after a source update the next run "
                "returned %r and left %r / %r, from scratch: 101, 100 / 101" % (first, still, got, a_st.v, b_st.v), {"max_workers": workers, "first_run": first, "write_lasts_seconds": duration})
