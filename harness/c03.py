import core, cache_corr
RULE = "see C05"
TRUSTED_BASE = []
def run(ctx):
    import translate_stale
    translate_stale.check(ctx)      # caching.py's stale decision and _util.safe_max, translated to Gallina and linked to the model by theorems
    camp = cache_corr.Campaign(ctx)
    cache_corr.history_campaign(ctx, camp, ctx.n(60, 1200), ctx.n(6, 8))
    import cache_files
    cache_files.run_file_histories(ctx, camp.found)     # real file stores, real modified times
    cache_files.directory_sources(ctx, lambda key, what, replay: camp.add("C03", key, what, replay))
    import c08_files
    c08_files.overlapping_writes(ctx)     # file stores with the same stem written at overlapping times, then the repairing run
    interrupted_write(ctx, camp.add)
    shared_function_with_retry(ctx, camp.add)
    import planlevel
    planlevel.equal_constants(ctx, core.use_repo(), True, lambda key, what, replay: camp.add("C03", key, what, replay))
    import depviews
    depviews.run(ctx, camp.add)
    import tz_histories
    tz_histories.run(ctx, camp.add, "C03")       # the same decisions in processes running in other time zones
    camp.eval_model()
    camp.file({"C03"})
    # a stored value is the from-scratch value only if the engine starts every call once and after all of its dependencies, under every
    # schedule: a call released twice computes / writes a value while a dependency is still being produced
    import engine_corr
    ec = engine_corr.campaign(ctx, set())
    for prop, key, what, replay in ec.found:
        if (prop, key) in (("C04", "started-twice"), ("C01", "start-before-deps")):
            ctx.fail("engine:" + key, what + " (a value computed and stored from there need not be the from-scratch value)", replay)


def interrupted_write(ctx, add):
    """Ctrl-C while a store write is in flight: when run raises, no write is still going on, so a source update made right
    afterwards is newer than everything the interrupted run wrote, and the next run gives the from-scratch values."""
    import datetime as dt
    import itertools
    import signal
    import threading
    import time
    uj = core.use_repo()
    clock = itertools.count(1)
    now = lambda: dt.datetime(2020, 1, 1) + dt.timedelta(seconds=next(clock))
    # (a shutdown that gives up on its workers after some grace period shows only with writes longer than that period)
    for workers, duration in ((1, 0.6), (3, 0.6), (2, 1.7)) + (() if ctx.quick else ((2, 3.5), (1, 6.0))):
        writing = threading.Event()

        class Mem(uj.ValueStore):
            def __init__(self, v=None, slow=False):
                self.v, self.t, self.slow, self.in_flight = v, (now() if v is not None else None), slow, False

            def read(self):
                return self.v

            def write(self, v):
                self.in_flight = True
                if self.slow and not writing.is_set():
                    writing.set()
                    time.sleep(duration)
                self.v, self.t = v, now()
                self.in_flight = False

            def get_modified_time(self):
                return self.t
        src, a_st, b_st = Mem(10), Mem(slow=True), Mem()
        plan, reg = uj.Plan(), uj.Registry()
        s_ = reg.source(plan, src)
        a = plan.call(lambda v: v * 2, s_)
        reg.add(a, a_st)
        b = plan.call(lambda v: v + 1, a)
        reg.add(b, b_st)

        def killer():
            writing.wait(10)
            time.sleep(0.1)
            signal.pthread_kill(threading.main_thread().ident, signal.SIGINT)
        th = threading.Thread(target=killer, daemon=True)
        th.start()
        try:
            try:
                uj.run(plan, registry=reg, output=b, max_workers=workers, progress=None)
                first = "returned"
            except KeyboardInterrupt:
                first = "interrupted"
        except KeyboardInterrupt:
            first = "interrupted-late"
        still = a_st.in_flight or b_st.in_flight
        src.v, src.t = 50, now()              # the source is updated right after the interrupted run
        time.sleep(duration + 0.4)
        th.join(5)
        got = uj.run(plan, registry=reg, output=b, max_workers=1, progress=None)
        ctx.case(("c03-interrupted-write", workers, duration))
        ctx.count("interrupted_write_first_run", first)
        if still or got != 101 or a_st.v != 100 or b_st.v != 101:
            add("C03", "interrupted-write", "Ctrl-C during a store write (%s): a write was still in flight when run raised: %s; after a source update the next run "
                "returned %r and left %r / %r, from scratch: 101, 100 / 101" % (first, still, got, a_st.v, b_st.v), {"max_workers": workers, "first_run": first, "write_lasts_seconds": duration})


def shared_function_with_retry(ctx, add):
    """retry=n, max_errors allowing the run to go on, ONE function object used by several stored calls, one of which keeps failing in the
    first run: whatever the first run stored is the from-scratch value, and after the fault is gone the next run yields from-scratch
    outputs and stored values for every call."""
    import datetime as dt
    import itertools
    uj = core.use_repo()
    for retry in (2, 3):
        for workers in (1, 3):
            for bad_pos in (0, 3, 7):
                clock = itertools.count(1)

                class Mem(uj.ValueStore):
                    def __init__(self):
                        self.v, self.t = None, None

                    def read(self):
                        return self.v

                    def write(self, v):
                        self.v, self.t = v, dt.datetime(2020, 1, 1) + dt.timedelta(seconds=next(clock))

                    def get_modified_time(self):
                        return self.t
                broken = [True]

                def square_plus_one(x):
                    if broken[0] and x == bad_pos:
                        raise OSError("cannot compute %d yet" % x)
                    return x * x + 1
                plan, reg = uj.Plan(), uj.Registry()
                calls, stores = [], []
                for i in range(8):           # independent calls: whatever order the scheduler picks, some of them run after the failing one
                    c = plan.call(square_plus_one, i)
                    st = Mem()
                    reg.add(c, st)
                    calls.append(c)
                    stores.append(st)
                want = [i * i + 1 for i in range(8)]
                try:
                    r1 = uj.run(plan, registry=reg, output=calls, retry=retry, max_errors=None, max_workers=workers, progress=None)
                    first = "returned %r" % (r1,)
                except uj.CallError:
                    first = "callerror"
                after1 = [st.v for st in stores]
                broken[0] = False
                try:
                    r2 = uj.run(plan, registry=reg, output=calls, retry=retry, max_workers=workers, progress=None)
                except BaseException as e:      # noqa
                    r2 = "raised %s" % type(e).__name__
                after2 = [st.v for st in stores]
                ctx.case(("c03-shared-function-retry", retry, workers, bad_pos))
                wrong1 = [i for i, v in enumerate(after1) if st_wrong(v, want[i])]
                if first != "callerror" or wrong1 or r2 != want or after2 != want:
                    add("C03", "shared-function-retry", "retry=%d, one function used by eight stored calls, call %d failing in the first run (max_errors=None, max_workers=%d): first run %s and left %r; "
                        "the run after the fault was gone returned %r and left %r; from scratch: %r" % (retry, bad_pos, workers, first, after1, r2, after2, want),
                        {"retry": retry, "max_workers": workers, "failing_call": bad_pos})


def st_wrong(v, want):
    return v is not None and v != want
