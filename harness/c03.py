import core, cache_corr
RULE = "see C05"
TRUSTED_BASE = []
def run(ctx):
    camp = cache_corr.Campaign(ctx)
    cache_corr.history_campaign(ctx, camp, ctx.n(60, 1200), ctx.n(6, 8))
    import cache_files
    cache_files.run_file_histories(ctx, camp.found)     # real file stores, real modified times
    import depviews
    depviews.run(ctx, camp.add)
    camp.eval_model()
    camp.file({"C03"})
