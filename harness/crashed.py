"""Called by ./check when harness/main.py died with an exit status other than 0/1 (e.g. the interpreter crashed while
driving the code under test): report it as a broken correspondence."""
import json
import os
import sys

import core


def main():
    rc, args = sys.argv[1], sys.argv[2:]
    pid = next((a for a in args if a.startswith("C") and a[1:].isdigit()), "C00")
    os.makedirs(core.REPLAYS, exist_ok=True)
    rp = os.path.join(core.REPLAYS, "%s-broken.json" % pid)
    with open(rp, "w") as f:
        json.dump({"property": pid, "kind": "no-failing-input-found",
                   "no_longer_checks": [{"what": "the checker process died with exit status %s while exercising %s" % (rc, core.REPO_SRC),
                                         "detail": "arguments: %r" % (args,)}]}, f, indent=1)
    print("VIOLATION property=%s replay=%s no-failing-input-found" % (pid, rp))


main()
