"""Called by ./check when harness/main.py died with an exit status other than 0/1 (e.g. the interpreter crashed while
driving the code under test): report it as a broken correspondence - and report, with their concrete replays, the failures the check had
already observed (and written through, core.Ctx.fail) before the crash, unless known_findings.json lists them."""
import glob
import json
import os
import sys

import core


def main():
    rc, args = sys.argv[1], sys.argv[2:]
    pid = next((a for a in args if a.startswith("C") and a[1:].isdigit()), "C00")
    os.makedirs(core.REPLAYS, exist_ok=True)
    known = {k["key"]: k for k in core.load_known() if k["property"] == pid and k.get("status") == "known"}
    n, seen = 0, set()
    for pf in sorted(glob.glob(os.path.join(core.REPLAYS, "%s-partial-*.jsonl" % pid)), key=os.path.getmtime)[-1:]:
        for line in open(pf):
            try:
                f = json.loads(line)
            except ValueError:
                continue
            if f["key"] in seen:
                continue
            seen.add(f["key"])
            if f["key"] in known:
                print("KNOWN-FINDING: property=%s %s" % (pid, known[f["key"]]["what"]))
                continue
            n += 1
            rp = os.path.join(core.REPLAYS, "%s-%d.json" % (pid, n))
            with open(rp, "w") as out:
                json.dump({"property": pid, "kind": "failing-input", "key": f["key"], "what": f["what"], "seed": f.get("seed"), "tier": f.get("tier"),
                           "replay": f["replay"], "note": "observed before the checker process died with exit status %s" % rc}, out, indent=1)
            print("VIOLATION property=%s replay=%s" % (pid, rp))
    for pf in glob.glob(os.path.join(core.REPLAYS, "%s-partial-*.jsonl" % pid)):
        try:
            os.remove(pf)
        except OSError:
            pass
    rp = os.path.join(core.REPLAYS, "%s-broken.json" % pid)
    with open(rp, "w") as f:
        json.dump({"property": pid, "kind": "no-failing-input-found",
                   "no_longer_checks": [{"what": "the checker process died with exit status %s while exercising %s" % (rc, core.REPO_SRC),
                                         "detail": "arguments: %r" % (args,)}]}, f, indent=1)
    if n == 0:
        print("VIOLATION property=%s replay=%s no-failing-input-found" % (pid, rp))


main()
