"""C02: run returns exactly what direct evaluation of the call graph would return."""
import itertools
import re
import threading

import core

RULE = ("random expression programs over the public Plan API (call / lit / gather / unpack, <= 15 statements, nesting <= 4, "
        "list/tuple/set/dict incl. nodes as dict keys and colliding keys, list/dict/tuple/set SUBCLASSES and plain objects "
        "hiding nodes, kwargs in random order, unpack lengths 0-4 incl. wrong lengths, failing calls), each executed by real "
        "uberjob.run under schedulers default/random x max_workers 1/4; a case is distinct by its generated program text; "
        "non-trivial = at least one container with a node was rebuilt or an untouched object was passed")
TRUSTED_BASE = [
    "harness/c02.py: program generator, encoding of Python objects to model terms (small ids for supplied objects, payloads for ints/strs), "
    "the independent reference interpreter (direct recursive evaluation in Python)",
    "H-user: call functions are deterministic functions of their arguments (the harness's functions are; results that are fresh objects get the model id 2000+f)",
    "Python ==/hash of the generated values coincides with the model's payload equality (ints, strs, tuples; opaque classes compare by identity)",
    "node numbering: real nodes are numbered in completion order by wrapping Plan._call / Plan.lit",
]

M = 1000003
KCODE = {"L": 1, "T": 2, "S": 3, "D": 4, "O": 5}
KNAME = {1: "L", 2: "T", 3: "S", 4: "D", 5: "O"}
CK = {"L": "CList", "T": "CTuple", "S": "CSet", "D": "CDict", "O": "COpaque"}
STRS = ["a", "b", "c", "d", "e"]
NAMES = ["k0", "k1", "k2", "k3", "k4", "k5"]


# ---- opaque classes: container subclasses / plain objects that Plan._gather must not look into -----------
class _Ident:
    def __hash__(self):
        return id(self) >> 4

    def __eq__(self, other):
        return self is other

    def __ne__(self, other):
        return self is not other


class MyList(_Ident, list):
    pass


class MyTuple(_Ident, tuple):
    pass


class MySet(_Ident, set):
    pass


class MyDict(_Ident, dict):
    pass


class Box(_Ident):
    def __init__(self, items):
        self.items = list(items)

    def __iter__(self):
        return iter(self.items)


OPAQUE = (MyList, MyTuple, MySet, MyDict, Box)


def contents(o):
    return list(o.items) if type(o) is Box else list(o)


class Universe:
    """identity table of the objects supplied by one program + node numbering"""

    def __init__(self, Node):
        self.Node = Node
        self.keep, self.ids, self.next = [], {}, 1
        self.num = {}            # Node -> model number
        self.lock = threading.Lock()

    def reg(self, o, k=None):
        if type(o) is tuple and not o:
            return o              # the empty tuple is an interned singleton: identity unknown (id 0)
        with self.lock:
            if id(o) in self.ids and k is None:
                return o
            if k is None:
                k, self.next = self.next, self.next + 1
            self.keep.append(o)
            self.ids[id(o)] = k
        return o

    def oid(self, o):
        return self.ids.get(id(o), 0)

    def payload(self, o):
        return o if type(o) is int else -101 - STRS.index(o)

    def enc(self, o):
        """Python object -> tree ('A', id, payload) | (K, id, [children])"""
        t = type(o)
        if isinstance(o, self.Node):
            return ("O", 1000 + self.num[o], [])
        if t is int or t is str:
            return ("A", 0, self.payload(o))
        if t is list:
            return ("L", self.oid(o), [self.enc(x) for x in o])
        if t is tuple:
            return ("T", self.oid(o), [self.enc(x) for x in o])
        if t is set:
            return ("S", self.oid(o), [self.enc(x) for x in o])
        if t is dict:
            return ("D", self.oid(o), [("T", 0, [self.enc(k), self.enc(v)]) for k, v in o.items()])
        if t in OPAQUE:
            return ("O", self.oid(o), [self.enc(x) for x in contents(o)])
        # a value no generated program can produce (e.g. None where a result should be): encoded as a foreign atom so that the comparison
        # with direct evaluation reports it, instead of the harness crashing
        return ("A", 0, -9000 - (hash(repr(o)) % 1000))

    def sval(self, o):
        """Python object -> Coq term of type sval"""
        t = type(o)
        if isinstance(o, self.Node):
            return "SNode %d" % self.num[o]
        if t is int or t is str:
            return "SAtom 0 (%d)%%Z" % self.payload(o)
        if t is dict:
            items = ["SCont CTuple 0 [%s; %s]" % (self.sval(k), self.sval(v)) for k, v in o.items()]
            return "SCont CDict %d [%s]" % (self.oid(o), "; ".join(items))
        k = {list: "CList", tuple: "CTuple", set: "CSet"}.get(t, "COpaque")
        xs = contents(o) if t in OPAQUE else list(o)
        return "SCont %s %d [%s]" % (k, self.oid(o), "; ".join(self.sval(x) for x in xs))


def canon(t):
    if t[0] == "A":
        return t
    ch = [canon(c) for c in t[2]]
    if t[0] == "S":
        ch = sorted(ch, key=repr)
    return (t[0], t[1], ch)


def dg(t):
    if t[0] == "A":
        return t[2] % M
    k = KCODE[t[0]]
    ds = [dg(c) for c in t[2]]
    if t[0] == "S":
        return (k + sum(ds)) % M
    acc = k
    for d in ds:
        acc = (acc * 31 + d) % M
    return acc


def dgs(f, a_t, k_t):
    acc = f
    for t in a_t:
        acc = (acc * 37 + dg(t)) % M
    for name, t in k_t:
        acc = (acc * 41 + name * 13 + dg(t)) % M
    return acc


class Raised(Exception):
    pass


def fn_body(U, f, args, kwargs):
    """the concrete user function number f (mirrors Run/Exec_Plan.v: interp)"""
    kind = f % 8
    allv = list(args) + list(kwargs.values())
    if kind == 1:
        return U.reg(list(allv), 2000 + f)
    if kind == 2:
        return args[0] if args else f
    if kind == 3:
        return U.reg(tuple(allv), 2000 + f)
    if kind == 4:
        raise Raised("kind 4")
    if kind == 5:
        return args[1] if len(args) > 1 else (args[0] if args else f)
    d = dgs(f, [U.enc(a) for a in args], [(NAMES.index(n), U.enc(v)) for n, v in kwargs.items()])
    if kind == 6 and d % 7 == 0:
        raise Raised("kind 6")
    return d


# ---- the independent reference interpreter: direct recursive evaluation of the expression ----------------
class RefFail(Exception):
    pass


class Ref:
    def __init__(self, U, src, flags=None):
        self.U, self.src, self.memo = U, src, {}
        self.flags = flags if flags is not None else set()

    def has_node(self, o):
        if isinstance(o, self.U.Node):
            return True
        t = type(o)
        if t in (list, tuple, set):
            return any(self.has_node(x) for x in o)
        if t is dict:
            return any(self.has_node(k) or self.has_node(v) for k, v in o.items())
        return False

    def subst(self, o):
        if isinstance(o, self.U.Node):
            return self.value(o)
        if not self.has_node(o):
            return o
        t = type(o)
        try:
            if t is dict:
                r = dict([(self.subst(k), self.subst(v)) for k, v in o.items()])
                self.flags.add("dict-key-collision" if len(r) < len(o) else "dict-rebuilt")
                return r
            r = t([self.subst(x) for x in o])
            if t is set:
                self.flags.add("set-collision" if len(r) < len(o) else "set-rebuilt")
            return r
        except TypeError as e:
            raise RefFail("unhashable: %s" % e)

    def value(self, node):
        if node in self.memo:
            r = self.memo[node]
            if isinstance(r, RefFail):
                raise r
            return r
        try:
            r = self._value(node)
        except RefFail as e:
            self.memo[node] = e
            raise
        self.memo[node] = r
        return r

    def expected_args(self, node):
        s = self.src[node]
        return [self.subst(a) for a in s[2]], [(n, self.subst(v)) for n, v in s[3]]

    def _value(self, node):
        s = self.src[node]
        if s[0] == "call":
            args, kw = self.expected_args(node)
            try:
                return fn_body(self.U, s[1], args, dict(kw))
            except Raised as e:
                raise RefFail(str(e))
        if s[0] == "lit":
            return s[1]
        if s[0] == "gather":
            return self.subst(s[1])
        if s[0] == "item":
            _, expr, n, i = s
            it = self.subst(expr)
            try:
                t = tuple(itertools.islice(it, n + 1))
            except TypeError as e:
                raise RefFail(str(e))
            if len(t) != n:
                raise RefFail("unpack length")
            return t[i]
        raise AssertionError(s)


def same(U, r, e):
    """received object r vs expected object e: identical for supplied objects, structurally equal otherwise"""
    if isinstance(e, U.Node) or type(e) in OPAQUE:
        return r is e
    if 0 < U.oid(e) < 1000:
        return r is e
    if type(r) is not type(e):
        return False
    t = type(e)
    if t in (int, str):
        return r == e
    if t in (list, tuple):
        return len(r) == len(e) and all(same(U, a, b) for a, b in zip(r, e))
    if t is set:
        return canon(U.enc(r)) == canon(U.enc(e))
    if t is dict:
        return len(r) == len(e) and all(same(U, a, b) and same(U, x, y)
                                        for (a, x), (b, y) in zip(r.items(), e.items()))
    return False


# ---- generator ---------------------------------------------------------------------------------------------
class Gen:
    def __init__(self, rng, U):
        self.rng, self.U = rng, U
        self.nodes = []           # user-visible nodes
        self.tag = {}             # static type tag of a node's value
        self.size = {}
        self.text = []
        self.flags = set()
        self.const = {}           # node -> atom it is known to evaluate to (identity call on an atom)
        self.length = {}          # node -> known length of its list/tuple value

    def collider(self):
        """a dict / set / tuple-keyed dict in which a node and a literal key are equal at run time"""
        r, U = self.rng, self.U
        n = r.choice(list(self.const))
        a = self.const[n]
        v1, v2 = self.expr(1)[0], self.expr(1)[0]
        shape = r.choice(["dict", "dict", "set", "tuplekey"])
        first = r.random() < 0.5
        if shape == "dict":
            pairs = [(a, v1), (n, v2)] if first else [(n, v2), (a, v1)]
            if r.random() < 0.5:
                pairs.insert(r.randint(0, 2), (self.atom(small=True), 7))
            return U.reg(dict(pairs)), 6, "dict"
        if shape == "set":
            return U.reg({a, n, self.atom(small=True)}), 4, "set"
        k1, k2 = U.reg((a, 1)), U.reg((n, 1))
        pairs = [(k1, v1), (k2, v2)] if first else [(k2, v2), (k1, v1)]
        return U.reg(dict(pairs)), 8, "dict"

    def atom(self, small=False):
        r = self.rng
        if r.random() < 0.35:
            return r.choice(STRS[:3] if small else STRS)
        return r.randint(0, 3) if small else r.randint(-2, 12)

    def pick_node(self, hashable):
        r = self.rng
        cand = self.nodes
        if hashable:
            c2 = [n for n in cand if self.tag[n] in ("int", "str", "tuple", "opaque")]
            cand = c2 or cand
        return r.choice(cand)

    def expr(self, depth, hashable=False, node_p=0.35):
        """returns (object, size, tag)"""
        r, U = self.rng, self.U
        x = r.random()
        if self.const and not hashable and depth > 0 and r.random() < 0.08:
            return self.collider()
        if self.nodes and x < node_p:
            n = self.pick_node(hashable)
            return n, self.size[n], self.tag[n]
        if depth <= 0 or x < node_p + 0.25:
            a = self.atom(small=hashable)
            return a, 1, ("int" if type(a) is int else "str")
        k = r.random()
        cnt = r.choice([0, 1, 1, 2, 2, 3])
        if k < 0.12:
            cls = r.choice([Box] if hashable else [MyList, MyDict, MyTuple, MySet, Box])
            if cls is MyDict:
                items = [(self.expr(depth - 1, True)[0], self.expr(depth - 1)[0]) for _ in range(cnt)]
                o = MyDict(items)
            elif cls is MySet:
                o = MySet([self.expr(depth - 1, True)[0] for _ in range(cnt)])
            else:
                o = cls([self.expr(depth - 1)[0] for _ in range(cnt)])
            self.flags.add("opaque")
            return U.reg(o), 2, "opaque"
        kinds = ["tuple"] if hashable else ["list", "tuple", "set", "dict", "dict"]
        kd = r.choice(kinds)
        if kd == "dict":
            pairs, sz = [], 1
            for _ in range(cnt):
                ko, ks, _ = self.expr(min(depth - 1, 1), True, node_p=0.45)
                vo, vs, _ = self.expr(depth - 1)
                pairs.append((ko, vo))
                sz += ks + vs
            o = dict(pairs)
            return U.reg(o), sz, "dict"
        parts = [self.expr(depth - 1, hashable or kd == "set", node_p=0.45) for _ in range(cnt)]
        objs = [p[0] for p in parts]
        sz = 1 + sum(p[1] for p in parts)
        o = {"list": list, "tuple": tuple, "set": set}[kd](objs)
        return U.reg(o), sz, kd


def short(U, o):
    t = type(o)
    if isinstance(o, U.Node):
        return "n%d" % U.num[o]
    if t in (int, str):
        return repr(o)
    if t is dict:
        return "{%s}" % ", ".join("%s: %s" % (short(U, k), short(U, v)) for k, v in o.items())
    if t in OPAQUE:
        return "%s(%s)" % (t.__name__, ", ".join(short(U, x) for x in contents(o)))
    br = {list: "[%s]", tuple: "(%s,)", set: "{%s}"}[t]
    return br % ", ".join(short(U, x) for x in o)


# ---- decoding the model's flat output ------------------------------------------------------------------------
class Reader:
    def __init__(self, zs):
        self.z, self.i = zs, 0

    def get(self):
        v = self.z[self.i]
        self.i += 1
        return v

    def val(self):
        tag = self.get()
        if tag == 0:
            i, p = self.get(), self.get()
            return ("A", i, p)
        i, n = self.get(), self.get()
        return (KNAME[tag], i, [self.val() for _ in range(n)])

    def opt(self):
        return None if self.get() == -1 else self.val()

    def graph(self):
        n = self.get()
        nodes = []
        for _ in range(n):
            t = self.get()
            if t == 0:
                nodes.append(("lit", self.val()))
            else:
                nodes.append(("call", t, self.get()))
        e = self.get()
        edges = [tuple(self.get() for _ in range(5)) for _ in range(e)]
        return nodes, sorted(edges)

    def received(self):
        n = self.get()
        if n == -1:
            return None
        vs = [self.val() for _ in range(n)]
        k = self.get()
        kvs = [(self.get(), self.val()) for _ in range(k)]
        return vs, kvs


def run(ctx):
    uberjob = core.use_repo()
    import operator
    from uberjob import _builtins
    from uberjob._plan import Plan
    from uberjob.graph import Call, Literal, Node, PositionalArg, KeywordArg
    import uberjob._execution.run_physical as rp

    rng = ctx.rng
    state = {"U": None, "log": None}

    # numbering: completion order of Plan._call / Plan.lit (class-level wrappers, restored at the end)
    orig_call, orig_lit, orig_rfg = Plan._call, Plan.lit, rp.run_function_on_graph

    def w_call(self, *a, **k):
        r = orig_call(self, *a, **k)
        U = state["U"]
        if U is not None and r not in U.num:
            U.num[r] = len(U.num)
        return r

    def w_lit(self, value):
        r = orig_lit(self, value)
        U = state["U"]
        if U is not None and r not in U.num:
            U.num[r] = len(U.num)
        return r

    def w_rfg(graph, fn, **kw):
        log, lock = state["log"], threading.Lock()

        def fn2(node):
            if log is not None:
                with lock:
                    log.append(node)
            return fn(node)
        return orig_rfg(graph, fn2, **kw)

    # the model-free scenarios first: they do not depend on the instrumentation below
    shared_plan(ctx, uberjob)
    internal_names(ctx, uberjob)
    one_shot(ctx, uberjob)
    opaque_arguments(ctx, uberjob)
    equal_callables(ctx, uberjob)
    containers_of_nodes(ctx, uberjob)
    decorated_callables(ctx, uberjob)
    rejected_calls(ctx, uberjob)
    import planlevel
    planlevel.equal_constants(ctx, uberjob, False, lambda key, what, replay: ctx.fail(key, what, replay))
    timing(ctx, uberjob)
    Plan._call, Plan.lit, rp.run_function_on_graph = w_call, w_lit, w_rfg
    try:
        _run(ctx, uberjob, Plan, Node, Call, Literal, PositionalArg, KeywordArg, _builtins, operator, state)
    finally:
        Plan._call, Plan.lit, rp.run_function_on_graph = orig_call, orig_lit, orig_rfg
    sentinel(ctx)


def shared_plan(ctx, uberjob):
    """One Plan object used by several runs AT ONCE (two user threads; a call function that itself runs the same plan): every
    run returns the directly evaluated value - nothing about a run lives in the plan or its nodes."""
    for mode in ("two-threads", "re-entrant"):
        for workers in (1, 3):
            gate = threading.Barrier(2, timeout=10)
            state = {"inner": None, "depth": 0}
            plan = uberjob.Plan()

            def slow(v):
                if mode == "two-threads":
                    try:
                        gate.wait()             # both runs are inside this call at the same time
                    except threading.BrokenBarrierError:
                        pass
                return v + 1

            def maybe_reenter(v):
                if mode == "re-entrant" and state["depth"] == 0:
                    state["depth"] = 1
                    try:
                        state["inner"] = uberjob.run(plan, output=out, max_workers=workers, progress=None)
                    finally:
                        state["depth"] = 0
                return v * 10
            a = plan.call(slow, 1)
            b = plan.call(maybe_reenter, a)
            c = plan.call(lambda x, y: (x, y), a, b)
            out = [c, a]
            want = [(2, 20), 2]
            results = {}

            def runner(k):
                try:
                    results[k] = uberjob.run(plan, output=out, max_workers=workers, progress=None)
                except BaseException as e:      # noqa
                    results[k] = "raised %s: %r" % (type(e).__name__, getattr(e, "__cause__", None))
            ths = [threading.Thread(target=runner, args=(k,), daemon=True) for k in range(2 if mode == "two-threads" else 1)]
            for t in ths:
                t.start()
            for t in ths:
                t.join(30)
            ctx.case(("shared-plan", mode, workers))
            got = [results.get(k, "no result (hang)") for k in range(len(ths))] + ([state["inner"]] if mode == "re-entrant" else [])
            if any(g != want for g in got):
                ctx.fail("shared-plan:" + mode, "one plan run %s: results %r, direct evaluation gives %r each" % (
                    "by two threads at once" if mode == "two-threads" else "re-entrantly from one of its own calls", got, want),
                    {"mode": mode, "max_workers": workers})
    # the same container OBJECT occurring twice in one structure is rebuilt at both places
    for kind in ("list", "dict", "set-of-tuples"):
        for workers in (1, 3):
            plan = uberjob.Plan()
            x, y = plan.call(lambda: 1), plan.call(lambda: 2)
            pair = [x, y] if kind == "list" else {"k": x, "l": y} if kind == "dict" else (x, y)
            wantp = [1, 2] if kind == "list" else {"k": 1, "l": 2} if kind == "dict" else (1, 2)
            ctx.case(("shared-container", kind, workers))
            try:
                got = uberjob.run(plan, output=[pair, {"again": pair}, (pair, 0)], max_workers=workers, progress=None)
                viaarg = uberjob.run(plan, output=plan.call(lambda p, q: (p, q), [pair, pair], q=pair), max_workers=workers, progress=None)
            except BaseException as e:      # noqa
                got, viaarg = "raised %r" % (e,), None
            want = [wantp, {"again": wantp}, (wantp, 0)]
            if got != want or viaarg != ([wantp, wantp], wantp):
                ctx.fail("shared-container", "a %s object holding nodes used twice in one structure: got %r / %r, expected %r / %r"
                         % (kind, got, viaarg, want, ([wantp, wantp], wantp)), {"container": kind, "max_workers": workers})
    # plan.gather of short-lived structures (ids are reused by the interpreter)
    for workers in (1, 3):
        plan = uberjob.Plan()
        calls = {n: plan.call(lambda n=n: n) for n in "abcd"}
        g1 = plan.gather([calls["a"], calls["b"]])
        g2 = plan.gather([calls["c"], calls["d"]])
        g3 = plan.gather({"k": calls["d"]})
        ctx.case(("gather-temporaries", workers))
        got = uberjob.run(plan, output=(g1, g2, g3), max_workers=workers, progress=None)
        if got != (["a", "b"], ["c", "d"], {"k": "d"}):
            ctx.fail("gather-temporaries", "plan.gather of three short-lived structures: run returned %r" % (got,), {"max_workers": workers})


def internal_names(ctx, uberjob):
    """a call receives its keyword arguments under their names - also names that the library's own helpers use (attempts,
    exc_type, fn, f, args, kwargs, retry, node, self, value ...) - with and without retry"""
    names = ["attempts", "exc_type", "fn", "f", "args", "kwargs", "retry", "node", "value", "plan", "scope", "stack_frame", "index", "name", "self", "call"]
    for retry in (None, 2, 3):
        for workers in (1, 3):
            got = {}

            def target(first, **kw):
                got["kw"] = kw
                got["first"] = first
                return (first, tuple(kw.items()))
            plan = uberjob.Plan()
            x = plan.call(lambda: "sym")
            kw = {}
            for i, nm in enumerate(names):
                kw[nm] = x if i % 3 == 0 else i
            ctx.case(("internal-names", retry, workers))
            try:
                node = plan.call(target, x, **kw)
                res = uberjob.run(plan, output=node, retry=retry, max_workers=workers, progress=None)
            except BaseException as e:      # noqa
                res = "raised %s: %s / %r" % (type(e).__name__, e, getattr(e, "__cause__", None))
            want = ("sym", tuple((nm, "sym" if i % 3 == 0 else i) for i, nm in enumerate(names)))
            if res != want:
                ctx.fail("internal-names", "keyword arguments named like the library's internals, retry=%r: the call received/returned %r, direct evaluation gives %r"
                         % (retry, res, want), {"retry": retry, "max_workers": workers})


def one_shot(ctx, uberjob):
    """unpack yields exactly the n items of ONE iteration: values that can be iterated only once (a generator returned by a
    call, map / zip / iterator objects, also given directly) and values whose iterations are observable"""
    class Counting:
        def __init__(self):
            self.iterations = 0

        def __iter__(self):
            self.iterations += 1
            return iter((self.iterations * 10 + 1, self.iterations * 10 + 2, self.iterations * 10 + 3))

    def gen():
        yield from ("a", "b", "c")
    makers = {"generator": gen, "map": lambda: map(str.upper, "xyz"), "zip": lambda: zip("pq", "rs", "tu") and zip("abc", "def"),
              "iter": lambda: iter([7, 8, 9]), "counting": Counting}
    expect = {"generator": ("a", "b", "c"), "map": ("X", "Y", "Z"), "zip": (("a", "d"), ("b", "e"), ("c", "f")), "iter": (7, 8, 9), "counting": (11, 12, 13)}
    for name, mk in makers.items():
        for how in ("from-call", "direct"):
            for workers in (1, 3):
                plan = uberjob.Plan()
                src = plan.call(mk) if how == "from-call" else mk()
                items = plan.unpack(src, 3)
                ctx.case(("one-shot", name, how, workers))
                try:
                    got = uberjob.run(plan, output=tuple(items), max_workers=workers, progress=None)
                except BaseException as e:      # noqa
                    got = "raised %s: %r" % (type(e).__name__, getattr(e, "__cause__", None))
                if got != expect[name]:
                    ctx.fail("unpack:one-shot", "unpack(<%s %s>, 3) gave %r, one iteration yields %r" % (name, how, got, expect[name]),
                             {"iterable": name, "how": how, "max_workers": workers})


def opaque_arguments(ctx, uberjob):
    """A value that gather does not traverse is passed to the function as the very object supplied and UNTOUCHED: one-shot iterables
    (generator expressions, iter / map / zip objects, an open text stream) given to plan.call - directly, by keyword, nested in a list - are
    not consumed while the plan is built; the call receives every item."""
    import io

    def mk(kind):
        if kind == "genexp":
            return (i * i for i in range(5)), [0, 1, 4, 9, 16]
        if kind == "iter":
            return iter([7, 8, 9]), [7, 8, 9]
        if kind == "map":
            return map(str.upper, "xyz"), ["X", "Y", "Z"]
        if kind == "zip":
            return zip("ab", "cd"), [("a", "c"), ("b", "d")]
        return io.StringIO("l1\nl2\n"), ["l1\n", "l2\n"]
    for kind in ("genexp", "iter", "map", "zip", "stream"):
        for how in ("positional", "keyword", "in-list", "in-dict", "next"):
            for workers in (1, 3):
                plan = uberjob.Plan()
                it, want = mk(kind)
                if how == "positional":
                    node = plan.call(list, it)
                elif how == "keyword":
                    node = plan.call(lambda items: list(items), items=it)
                elif how == "in-list":
                    node = plan.call(lambda box: list(box[0]), [it, 1])
                elif how == "in-dict":
                    node = plan.call(lambda box: list(box["k"]), {"k": it})
                else:
                    node, want = plan.call(next, it), want[0]
                ctx.case(("opaque-argument", kind, how, workers))
                try:
                    got = uberjob.run(plan, output=node, max_workers=workers, progress=None)
                except BaseException as e:      # noqa
                    got = "raised %s: %r" % (type(e).__name__, getattr(e, "__cause__", None))
                if got != want:
                    ctx.fail("opaque-argument:consumed", "a %s passed to plan.call (%s): the call produced %r, direct evaluation gives %r (the one-shot iterable was "
                             "touched before the call ran)" % (kind, how, got, want), {"iterable": kind, "how": how, "max_workers": workers})


def equal_callables(ctx, uberjob):
    """Distinct callables that compare equal and hash alike (callable objects with value equality, a dataclass with a field excluded
    from comparison) are different functions: each call runs ITS function - under every retry setting."""
    import dataclasses

    class Scale:
        def __init__(self, k):
            self.k = k

        def __call__(self, x):
            return x * self.k

        def __eq__(self, other):
            return isinstance(other, Scale) and self.k == other.k

        def __hash__(self):
            return hash(self.k)

    @dataclasses.dataclass(frozen=True)
    class Tag:
        prefix: str
        label: str = dataclasses.field(compare=False, default="")

        def __call__(self, x):
            return "%s:%s:%s" % (self.prefix, self.label, x)
    for retry in (None, 2, lambda f: f):
        for workers in (1, 4):
            for scheduler in (None, "random"):
                plan = uberjob.Plan()
                six = plan.call(Scale(2), 3)
                sixf = plan.call(Scale(2.0), 3)
                three = plan.call(Scale(True), 3)
                a = plan.call(Tag("k", "first"), "x")
                b = plan.call(Tag("k", "second"), "x")
                ctx.case(("equal-callables", str(retry)[:12], workers, scheduler))
                try:
                    got = uberjob.run(plan, output=[six, sixf, three, a, b], retry=retry, max_workers=workers, scheduler=scheduler, progress=None)
                except BaseException as e:      # noqa
                    got = "raised %s: %r" % (type(e).__name__, getattr(e, "__cause__", None))
                want = [6, 6.0, 3, "k:first:x", "k:second:x"]
                if got != want or [type(v) for v in got] != [type(v) for v in want]:
                    ctx.fail("equal-callables", "calls to distinct functions that compare equal (retry=%r): run returned %r, direct evaluation gives %r"
                             % (retry if not callable(retry) else "identity decorator", got, want), {"retry": repr(retry)[:40], "max_workers": workers, "scheduler": scheduler})


def timing(ctx, uberjob):
    """'The result is the same for every ... timing': join-heavy plans executed by the real uberjob.run while the deterministic
    scheduler (harness/detsched.py: a baton passed between the real worker threads at every bytecode of
    run_function_on_graph.py) drives aggressive interleavings; the value returned must be the directly evaluated one and
    every call must run once with the directly evaluated arguments."""
    import plansched
    rng = ctx.rng
    shapes = plansched.SHAPES
    ctl = plansched.Controlled()
    with ctl:
        for name, shape in shapes.items():
            for si in range(ctx.n(40, 400)):
                calls = []
                lock = threading.Lock()

                def mk(nm):
                    def f(*args):
                        with lock:
                            calls.append((nm, args))
                        return (nm,) + args
                    f.__name__ = nm
                    return f
                plan, nodes, direct = uberjob.Plan(), {}, {}
                for nm, args in shape:
                    nodes[nm] = plan.call(mk(nm), *[nodes[a] for a in args])
                    direct[nm] = (nm,) + tuple(direct[a] for a in args)
                last = shape[-1][0]
                ctl.set(plansched.stress_chooser(rng, si))
                workers = rng.choice([2, 3, 4, 5])
                scheduler = rng.choice([None, "random", "default"])
                try:
                    res = ("ok", uberjob.run(plan, output=nodes[last], max_workers=workers, scheduler=scheduler, progress=None))
                except BaseException as e:        # noqa: a controlled run must simply return the value
                    res = ("raised", "%s: %s / cause %r" % (type(e).__name__, e, e.__cause__))
                r = ctl.last
                rep = {"shape": name, "program": ["%s = call(%s%s)" % (nm, nm, "".join(", " + a for a in args)) for nm, args in shape],
                       "max_workers": workers, "scheduler": scheduler, "decisions": r.sched.decisions[:4000] if r else None,
                       "events": [repr(e) for e in (r.events[:300] if r else [])], "seed": ctx.seed}
                ctx.case(("timing", name, tuple(r.sched.decisions[:300]) if r else si), nontrivial=True)
                ctx.count("timing_shape", name)
                if res != ("ok", direct[last]):
                    ctx.fail("timing:result", "under a forced interleaving run gave %r, direct evaluation gives %r" % (res, direct[last]), rep)
                names = [c[0] for c in calls]
                if sorted(names) != sorted(direct) and res[0] == "ok":
                    ctx.fail("timing:call-twice", "under a forced interleaving the calls executed were %r" % (sorted(names),), rep)
                for nm, args in calls:
                    if args != direct[nm][1:]:
                        ctx.fail("timing:args", "under a forced interleaving call %s received %r, direct evaluation passes %r" % (nm, args, direct[nm][1:]), rep)
                        break


def describe_graph(U, graph, Call, Literal, PositionalArg, KeywordArg, _builtins, operator, fcode):
    """real networkx graph -> (nodes by model number, sorted edges) in the model's encoding"""
    nodes = [None] * len(U.num)
    for n in graph.nodes():
        if type(n) is Literal:
            nodes[U.num[n]] = ("lit", canon(U.enc(n.value)))
        else:
            fn = n.fn
            if fn in fcode:
                d = ("call", 1, fcode[fn])
            elif fn is _builtins.gather_list:
                d = ("call", 2, 1)
            elif fn is _builtins.gather_tuple:
                d = ("call", 2, 2)
            elif fn is _builtins.gather_set:
                d = ("call", 2, 3)
            elif fn is _builtins.gather_dict:
                d = ("call", 2, 4)
            elif fn is _builtins.unpack:
                d = ("call", 3, 0)
            elif fn is operator.getitem:
                d = ("call", 4, 0)
            else:
                d = ("call", 9, 9)
            nodes[U.num[n]] = d
    edges = []
    for u, v, k in graph.edges(keys=True):
        if type(k) is PositionalArg:
            edges.append((U.num[u], U.num[v], 0, k.index, 0))
        elif type(k) is KeywordArg:
            edges.append((U.num[u], U.num[v], 1, k.index, NAMES.index(k.name)))
        else:
            edges.append((U.num[u], U.num[v], 2, 0, 0))
    return nodes, sorted(edges)


CONFIGS = [("default", 1), ("random", 1), ("default", 4), ("random", 4)]


def _run(ctx, uberjob, Plan, Node, Call, Literal, PositionalArg, KeywordArg, _builtins, operator, state):
    rng = ctx.rng
    import random as _random
    _random.seed(ctx.seed)      # uberjob's 'random' scheduler draws from the global PRNG
    nprog = ctx.n(600, 8000)
    cases = []          # per program: dict with everything needed to compare with the model
    terms = []
    for pi in range(nprog):
        U = Universe(Node)
        state["U"] = U
        G = Gen(rng, U)
        plan = Plan()
        src = {}            # node -> statement description for the reference interpreter
        fcode, fns = {}, {}
        rec = []            # (run id, node number f, args objects, kwargs items)
        rec_lock = threading.Lock()
        cur = {"run": None}
        stmts = []          # Coq terms

        def make_fn(f):
            def fn(*args, **kwargs):
                with rec_lock:
                    rec.append((cur["run"], f, args, list(kwargs.items()),
                                [U.enc(a) for a in args], [(NAMES.index(n), U.enc(v)) for n, v in kwargs.items()]))
                return fn_body(U, f, args, kwargs)
            fn.__name__ = "f%d" % f
            fcode[fn] = f
            return fn

        nst = rng.randint(1, 15)
        serial = 0
        # a few identity calls on small atoms early make key collisions {"a": 1, x: 2} likely
        for si in range(nst):
            r = rng.random()
            depth = rng.choice([1, 2, 2, 3, 3, 4])
            if r < 0.72 or not G.nodes:
                big = sum(G.size.get(n, 0) for n in G.nodes[-3:]) > 60
                if si < 3 and rng.random() < 0.5:
                    kind, args, kw = 2, [G.atom(small=True)], []
                    parts = [(args[0], 1, "int" if type(args[0]) is int else "str")]
                else:
                    kind = rng.choice([0, 7, 6] if big else [0, 1, 1, 2, 3, 3, 5, 6, 7, 7, 4 if rng.random() < 0.12 else 0])
                    na = rng.choice([1, 1, 2, 2, 3] if kind == 3 else [0, 1, 1, 2, 2, 3])
                    parts = [G.expr(depth) for _ in range(na)]
                    args = [p[0] for p in parts]
                    names = rng.sample(NAMES, rng.choice([0, 0, 1, 2, 3]))
                    kparts = [G.expr(max(depth - 1, 0)) for _ in names]
                    kw = list(zip(names, [p[0] for p in kparts]))
                    parts = parts + kparts
                f = 8 * serial + kind
                serial += 1
                fn = make_fn(f)
                fns[f] = fn
                stmts.append("StCall %d [%s] [%s]" % (f, "; ".join(U.sval(a) for a in args),
                                                      "; ".join("(%d, %s)" % (NAMES.index(n), U.sval(v)) for n, v in kw)))
                G.text.append("n? = call(f%d, %s%s)" % (f, ", ".join(short(U, a) for a in args),
                                                        "".join(", %s=%s" % (n, short(U, v)) for n, v in kw)))
                node = plan.call(fn, *args, **dict(kw))
                src[node] = ("call", f, list(args), list(kw))
                if kind in (0, 6, 7):
                    tg, sz = "int", 1
                elif kind == 1:
                    tg, sz = "list", 1 + sum(p[1] for p in parts)
                elif kind == 3:
                    tg, sz = "tuple", 1 + sum(p[1] for p in parts)
                elif kind == 4:
                    tg, sz = "int", 1
                else:
                    idx = 1 if (kind == 5 and len(args) > 1) else 0
                    tg, sz = (parts[idx][2], parts[idx][1]) if args else ("int", 1)
                G.nodes.append(node)
                G.tag[node], G.size[node] = tg, sz
                if kind == 2 and args and type(args[0]) in (int, str):
                    G.const[node] = args[0]
                if kind in (1, 3):
                    G.length[node] = len(args) + len(kw)
                G.text[-1] = G.text[-1].replace("n?", "n%d" % U.num[node])
            elif r < 0.78:
                o, sz, tg = G.expr(depth, node_p=0.0 if rng.random() < 0.5 else 0.3)
                if isinstance(o, Node):
                    continue
                stmts.append("StLit (%s)" % U.sval(o))
                node = plan.lit(o)
                src[node] = ("lit", o)
                G.nodes.append(node)
                G.tag[node], G.size[node] = ("unknown" if Ref(U, src).has_node(o) else tg), sz
                if type(o) in (int, str):
                    G.const[node] = o        # {"a": 1, lit("a"): 2} collides as well
                G.text.append("n%d = lit(%s)" % (U.num[node], short(U, o)))
            elif r < 0.86:
                o, sz, tg = G.expr(depth)
                stmts.append("StGather (%s)" % U.sval(o))
                node = plan.gather(o)
                if node not in src:
                    src[node] = ("gather", o)
                    G.nodes.append(node)
                    G.tag[node], G.size[node] = tg, sz
                G.text.append("n%d = gather(%s)" % (U.num[node], short(U, o)))
            else:
                # unpack: sources whose static type iterates the same way in the model (no sets, opaques, strs)
                cand = [n for n in G.nodes if G.tag[n] in ("list", "tuple", "dict", "int")]
                if cand and rng.random() < 0.7:
                    o = rng.choice(cand)
                    tg = G.tag[o]
                else:
                    o, _, tg = G.expr(rng.choice([1, 2]), node_p=0.5)
                    if tg not in ("list", "tuple", "dict", "int"):
                        continue
                n = rng.randint(0, 4)
                if tg in ("list", "tuple", "dict") and not isinstance(o, Node) and rng.random() < 0.7:
                    n = len(o)
                elif isinstance(o, Node) and o in G.length and rng.random() < 0.75:
                    n = G.length[o]
                stmts.append("StUnpack (%s) %d" % (U.sval(o), n))
                items = plan.unpack(o, n)
                for i, node in enumerate(items):
                    src[node] = ("item", o, n, i)
                    G.nodes.append(node)
                    G.tag[node], G.size[node] = "unknown", G.size.get(o, 3) if isinstance(o, Node) else 3
                G.flags.add("unpack%d" % n)
                G.text.append("%s = unpack(%s, %d)" % (", ".join("n%d" % U.num[x] for x in items), short(U, o), n))
        base_count = len(U.num)
        base_graph = describe_graph(U, plan.graph, Call, Literal, PositionalArg, KeywordArg, _builtins, operator, fcode)
        # output specification
        x = rng.random()
        if x < 0.05:
            out = None
        elif x < 0.35 and G.nodes:
            out = rng.choice(G.nodes[-4:])
        elif x < 0.85 and G.nodes:
            # a structure over several late nodes, so that most of the program is needed
            picks = [rng.choice(G.nodes[-6:]) for _ in range(rng.randint(1, 4))]
            extra, _, _ = G.expr(rng.choice([1, 2, 3]), node_p=0.5)
            shape = rng.choice(["list", "tuple", "dict", "nested"])
            if shape == "list":
                out = U.reg(picks + [extra])
            elif shape == "tuple":
                out = U.reg(tuple(picks + [extra]))
            elif shape == "dict":
                out = U.reg(dict([(G.atom(small=True), picks[0])] + [(i, p) for i, p in enumerate(picks[1:])] + [("e", extra)]))
            else:
                out = U.reg([U.reg({"a": U.reg(tuple(picks))}), extra])
        else:
            out, _, _ = G.expr(rng.choice([1, 2, 3]), node_p=0.55)
        G.text.append("run(output=%s)" % (short(U, out) if out is not None else "None"))
        ref = Ref(U, src, G.flags)
        sample = {"program": G.text}
        ctx.programs += 1
        ctx.count("statements", nst)
        ctx.count("output", "none" if out is None else ("node" if isinstance(out, Node) else type(out).__name__))

        # the graph run builds for the output: Plan.copy() + _gather(output), exactly what run() does first
        out_graph = None
        out_sval = None
        if out is not None:
            out_sval = U.sval(out)
            cp = plan.copy()
            onode = cp._gather(None, out)
            out_graph = describe_graph(U, cp.graph, Call, Literal, PositionalArg, KeywordArg, _builtins, operator, fcode)
            out_num = U.num[onode]
            for n in list(U.num):
                if U.num[n] >= base_count:
                    del U.num[n]

        # reference value
        try:
            exp = ref.subst(out) if out is not None else None
            exp_fail = None
        except RefFail as e:
            exp, exp_fail = None, str(e)
        replay_base = {"program": G.text, "seed": ctx.seed, "index": pi}

        runs = []
        for ri, (sched, workers) in enumerate(CONFIGS):
            cur["run"] = ri
            log = []
            state["log"] = log
            try:
                res = uberjob.run(plan, output=out, progress=None, scheduler=sched, max_workers=workers)
                err = None
            except uberjob.CallError as e:
                res, err = None, e
            state["log"] = None
            ext_num = {n: k for n, k in U.num.items() if k >= base_count}
            order = [U.num[n] for n in log if type(n) is Call]
            my = [r for r in rec if r[0] == ri]
            runs.append({"sched": sched, "workers": workers, "res": res, "err": err, "order": order,
                         "rec": my, "res_t": (canon(U.enc(res)) if err is None and out is not None else None)})
            # ---- monitors (model-free): the reference interpreter decides
            rp_ = dict(replay_base, scheduler=sched, max_workers=workers)
            if out is None:
                if err is None and res is not None:
                    ctx.fail("output-none", "run(output=None) returned %r" % (res,), rp_)
            elif (err is None) != (exp_fail is None):
                ctx.fail("raise-mismatch", "run %s but direct evaluation %s" % (
                    "raised %r" % (err.__cause__,) if err else "returned", "fails: %s" % exp_fail if exp_fail else "succeeds"), rp_)
            elif err is None and not same(U, res, exp):
                ctx.fail("result", "run returned %s, direct evaluation gives %s" % (short_val(U, res), short_val(U, exp)), rp_)
            seen = set()
            for (_, f, args, kwitems, _, _) in my:
                node = next(n for n, s in src.items() if s[0] == "call" and s[1] == f)
                if f in seen:
                    ctx.fail("call-twice", "call f%d ran twice in one run" % f, rp_)
                seen.add(f)
                try:
                    eargs, ekw = ref.expected_args(node)
                except RefFail:
                    ctx.fail("ran-with-failed-arg", "call f%d ran although an argument fails under direct evaluation" % f, rp_)
                    continue
                if len(args) != len(eargs) or not all(same(U, a, b) for a, b in zip(args, eargs)):
                    ctx.fail("positional", "call f%d received positional %s, expected %s" % (
                        f, [short_val(U, a) for a in args], [short_val(U, a) for a in eargs]), rp_)
                if [n for n, _ in kwitems] != [n for n, _ in ekw]:
                    ctx.fail("kwargs-order", "call f%d received keywords %s, given %s" % (
                        f, [n for n, _ in kwitems], [n for n, _ in ekw]), rp_)
                elif not all(same(U, a[1], b[1]) for a, b in zip(kwitems, ekw)):
                    ctx.fail("kwargs-value", "call f%d received keyword values %s, expected %s" % (
                        f, [short_val(U, a[1]) for a in kwitems], [short_val(U, a[1]) for a in ekw]), rp_)
                # identity of node-free supplied arguments (however nested) and opaque objects
                s = src[node]
                for given, got in list(zip(s[2], args)) + [(v, dict(kwitems).get(n)) for n, v in s[3]]:
                    if not isinstance(given, Node) and not ref.has_node(given) and type(given) not in (int, str):
                        ctx.count("identity_checks", "untouched" if type(given) not in OPAQUE else "opaque")
                        G.flags.add("identity")
                        if got is not given:
                            ctx.fail("identity", "call f%d: argument %s was supplied as one object but a different object was received" % (
                                f, short(U, given)), rp_)
                    elif ref.has_node(given) and not isinstance(given, Node):
                        G.flags.add("rebuilt")
            for n in ext_num:
                del U.num[n]
        state["U"] = None
        rec.clear()
        # all configurations agree (schedule independence, monitor)
        ok_runs = [r for r in runs if r["err"] is None]
        if out is not None and len({repr(r["res_t"]) for r in ok_runs}) > 1:
            ctx.fail("schedule-dependent", "results differ between scheduler/worker configurations",
                     dict(replay_base, results=[repr(r["res_t"])[:300] for r in runs]))
        key = "\n".join(G.text)
        ctx.case(key, nontrivial=bool(G.flags & {"identity", "rebuilt"}), sample=sample if pi in (3, 11) else None)
        for fl in sorted(G.flags):
            ctx.count("features", fl)
        ctx.count("outcome", "raises" if exp_fail else "returns")
        orders = [r["order"] for r in ok_runs] if out is not None else []
        terms.append("exec_case [%s] %s %s" % ("; ".join(stmts), "None" if out is None else "(Some (%s))" % out_sval,
                                               core.coq_list(orders, lambda o: core.coq_list(o) + "%nat")))
        cases.append({"text": G.text, "base": base_graph, "outg": out_graph, "out": out is not None,
                      "out_num": out_num if out is not None else None, "runs": [
                          {"sched": r["sched"], "workers": r["workers"], "ok": r["err"] is None, "res_t": r["res_t"],
                           "rec": [(x[1], [canon(t) for t in x[4]], [(n, canon(t)) for n, t in x[5]]) for x in r["rec"]]}
                          for r in runs], "n_orders": len(orders), "index": pi,
                      "fnode": {s[1]: None for s in src.values() if s[0] == "call"}})

    # ---- model vs implementation
    header = ("From Coq Require Import List Arith ZArith Bool.\nImport ListNotations.\n"
              "From UJ Require Import Plan.Values Plan.Gather Plan.Eval Run.Exec_Plan.\n")
    outs = core.coq_eval(header, terms, ty="list Z", shard=max(8, len(terms) // 14 + 1), tag="c02")
    for case, o in zip(cases, outs):
        zs = [int(x) for x in re.findall(r"-?\d+", o)]
        compare(ctx, case, Reader(zs))


def short_val(U, o):
    try:
        return repr(canon(U.enc(o)))[:200]
    except Exception:
        return repr(o)[:200]


def compare(ctx, case, rd):
    where = {"program": case["text"], "index": case["index"]}

    def broke(what, detail):
        ctx.broke("correspondence Plan model vs /repo: " + what, dict(where, **detail))

    def canon_nodes(ns):
        return [("lit", canon(n[1])) if n[0] == "lit" else n for n in ns]

    nodes, edges = rd.graph()
    ctx.compared("Gather.v graph vs Plan.graph after the program")
    if canon_nodes(nodes) != case["base"][0] or edges != case["base"][1]:
        broke("graph built by the program", {"model": (canon_nodes(nodes), edges), "impl": case["base"]})
    if not case["out"]:
        if rd.get() != -1:
            broke("output marker", {})
        recs = [rd.received() if nodes[c][0] == "call" else rd.received() for c in range(len(nodes))]
        return
    out_num, wf, closed = rd.get(), rd.get(), rd.get()
    if (wf, closed) != (1, 1):
        broke("theorem hypotheses wf/closed do not hold for a generated program", {"wf": wf, "closed": closed})
    nodes2, edges2 = rd.graph()
    ctx.compared("Gather.v graph vs Plan.copy()+_gather(output)")
    if canon_nodes(nodes2) != case["outg"][0] or edges2 != case["outg"][1] or out_num != case["out_num"]:
        broke("graph built for the output", {"model": (canon_nodes(nodes2), edges2, out_num), "impl": (case["outg"], case["out_num"])})
    v = rd.opt()
    sv = rd.opt()
    v = None if v is None else canon(v)
    sv = None if sv is None else canon(sv)
    if v != sv:
        broke("val_of differs from subst inside the model (theorem C02_run_is_subst instance)", {"val_of": v, "subst": sv})
    ok_runs = [r for r in case["runs"] if r["ok"]]
    for r in case["runs"]:
        ctx.compared("Eval.v val_of vs uberjob.run result (%s, %d workers)" % (r["sched"], r["workers"]))
        if r["ok"] != (v is not None):
            broke("raise / return", {"model": v, "impl_ok": r["ok"], "config": (r["sched"], r["workers"])})
        elif r["ok"] and r["res_t"] != v:
            broke("returned value", {"model": v, "impl": r["res_t"], "config": (r["sched"], r["workers"])})
    for r in ok_runs[:case["n_orders"]]:
        f1, f2, f3 = rd.get(), rd.get(), rd.get()
        rv = rd.opt()
        ctx.compared("Eval.v run_order on the observed execution order")
        if (f1, f2, f3) != (1, 1, 1):
            broke("observed execution order is not a valid order of the model", {"after_args": f1, "only_needed": f2, "out_present": f3,
                                                                                 "config": (r["sched"], r["workers"])})
        if (None if rv is None else canon(rv)) != r["res_t"]:
            broke("run_order result", {"model": rv, "impl": r["res_t"]})
    recs = [rd.received() for _ in range(len(nodes2))]
    by_f = {n[2]: i for i, n in enumerate(nodes2) if n[0] == "call" and n[1] == 1}
    for r in case["runs"]:
        for f, a_t, k_t in r["rec"]:
            m = recs[by_f[f]]
            ctx.compared("Eval.v received vs arguments recorded inside the call function")
            if m is None:
                broke("a call ran that the model says cannot run", {"f": f})
                continue
            mv = [canon(t) for t in m[0]]
            mk = [(n, canon(t)) for n, t in m[1]]
            if mv != a_t or mk != k_t:
                broke("received arguments", {"f": f, "model": (mv, mk), "impl": (a_t, k_t), "config": (r["sched"], r["workers"])})
    if rd.i != len(rd.z):
        broke("trailing model output", {"left": len(rd.z) - rd.i})


def sentinel(ctx):
    """fail closed if the code the model was written against changes shape"""
    import ast
    import os
    src = open(os.path.join(core.REPO_SRC, "uberjob", "_plan.py")).read()
    tree = ast.parse(src)
    want = {"list": "gather_list", "tuple": "gather_tuple", "set": "gather_set", "dict": "gather_dict"}
    got = {}
    for node in ast.walk(tree):
        if isinstance(node, ast.Assign) and getattr(node.targets[0], "id", None) == "GATHER_LOOKUP":
            for k, v in zip(node.value.keys, node.value.values):
                got[k.id] = v.attr
    if got != want:
        ctx.broke("sentinel: GATHER_LOOKUP changed", {"got": got})
    g = next(n for n in ast.walk(tree) if isinstance(n, ast.FunctionDef) and n.name == "_gather")
    text = ast.unparse(g)
    for frag in ("root_type = type(root)", "GATHER_LOOKUP.get(root_type)", "root.items() if root_type is dict else root",
                 "any((isinstance(child, Node) for child in children))", "return root"):
        if frag not in text:
            ctx.broke("sentinel: Plan._gather no longer contains %r" % frag, {"source": text[:600]})


def containers_of_nodes(ctx, uberjob):
    """Containers of symbolic nodes behave as the containers of their VALUES: (a) unpack of a set / dict whose distinct nodes evaluate to equal
    values sees the collapsed container (and fails when the length no longer matches), exactly as direct evaluation does; (b) the same
    container expression mentioned twice gives each consumer its OWN container - a call that mutates its argument does not disturb
    another call or the output."""
    for workers in (1, 3):
        # (a)
        for kind in ("set", "dict-keys"):
            plan = uberjob.Plan()
            a, b = plan.call(lambda: 7), plan.call(lambda: 7)
            box = {a, b} if kind == "set" else {a: 1, b: 2}
            try:
                items = plan.unpack(box, 2)
                out = plan.call(lambda *xs: list(xs), *items)
                res = uberjob.run(plan, output=out, max_workers=workers, progress=None)
                oc = "returned %r" % (res,)
            except uberjob.CallError as e:
                oc = "callerror" if isinstance(e.__cause__, ValueError) else "callerror caused by %r" % (e.__cause__,)
            except BaseException as e:      # noqa
                oc = "raised %s: %s" % (type(e).__name__, e)
            ctx.case(("containers-of-nodes", "unpack-collapsing", kind, workers))
            if oc != "callerror":
                ctx.fail("containers:unpack-collapsing", "unpack(<%s of two nodes that both evaluate to 7>, 2): run %s; direct evaluation unpacks a container of ONE element and "
                         "raises ValueError" % (kind, oc), {"container": kind, "max_workers": workers})
        # order: a set of nodes is iterated in the order of the set of VALUES
        plan = uberjob.Plan()
        nodes = [plan.call(lambda i=i: i) for i in (8, 6, 3, 7, 2, 5, 4, 1)]
        out = plan.call(lambda *xs: list(xs), *plan.unpack(set(nodes), 8))
        ctx.case(("containers-of-nodes", "unpack-set-order", workers))
        try:
            res = uberjob.run(plan, output=out, max_workers=workers, progress=None)
        except BaseException as e:      # noqa
            res = "raised %s" % type(e).__name__
        if res != list({8, 6, 3, 7, 2, 5, 4, 1}):
            ctx.fail("containers:unpack-set-order", "unpack(set of 8 nodes, 8) gave %r; the set of their values iterates as %r" % (res, list({8, 6, 3, 7, 2, 5, 4, 1})), {"max_workers": workers})
        # (b)
        for kind in ("list", "set", "dict"):
            plan = uberjob.Plan()
            a, b = plan.call(lambda: "x"), plan.call(lambda: "y")
            mk = (lambda: [a, b]) if kind == "list" else (lambda: {a, b}) if kind == "set" else (lambda: {"p": a, "q": b})

            def drain(c):
                n = len(c)
                c.clear()
                return n
            first = plan.call(drain, mk())
            second = plan.call(lambda c: sorted(c.values()) if isinstance(c, dict) else sorted(c), mk())
            plan.add_dependency(first, second)
            ctx.case(("containers-of-nodes", "mentioned-twice", kind, workers))
            try:
                res = uberjob.run(plan, output=[first, second, mk()], max_workers=workers, progress=None)
                res = [res[0], res[1], sorted(res[2].values()) if isinstance(res[2], dict) else sorted(res[2])]
            except BaseException as e:      # noqa
                res = "raised %s: %r" % (type(e).__name__, getattr(e, "__cause__", None))
            if res != [2, ["x", "y"], ["x", "y"]]:
                ctx.fail("containers:mentioned-twice", "the %s of the same two nodes is given to a call that empties it, to a second call and to the output: run gave %r; direct evaluation "
                         "gives [2, ['x', 'y'], ['x', 'y']] (each mention is its own container)" % (kind, res), {"container": kind, "max_workers": workers})


def decorated_callables(ctx, uberjob):
    """The call function is the very callable given to plan.call - also when it is a decorated function (functools.wraps / lru_cache /
    partial / an object carrying __wrapped__, __func__ or func attributes that point at ANOTHER function), under every retry setting."""
    import functools

    def in_percent(fn):
        @functools.wraps(fn)
        def wrapper(percent, *a, **k):
            return fn(percent / 100, *a, **k)
        return wrapper

    @in_percent
    def scale(fraction, amount, *, bonus=0):
        return fraction * amount + bonus

    @functools.lru_cache(maxsize=None)
    def square(x):
        return x * x

    def raw(x):
        return ("raw", x)

    class Facade:
        """a callable object that advertises other functions under the attribute names wrappers use"""
        __wrapped__ = staticmethod(raw)
        __func__ = staticmethod(raw)
        func = staticmethod(raw)
        fn = staticmethod(raw)

        def __call__(self, x):
            return ("facade", x)

    def plain(x):
        return ("plain", x)
    plain.__wrapped__ = raw      # e.g. set by a tracing tool

    facade = Facade()
    expected = [scale(50, 8, bonus=1), square(scale(25, 16)), facade(3), plain(4), functools.partial(scale, 10)(30)]
    for retry in (None, 1, 2, 3):
        for workers in (1, 4):
            for scheduler in ("default", "random"):
                plan = uberjob.Plan()
                out = [plan.call(scale, 50, 8, bonus=1), plan.call(square, plan.call(scale, 25, 16)), plan.call(facade, 3), plan.call(plain, 4),
                       plan.call(functools.partial(scale, 10), 30)]
                ctx.case(("decorated-callables", retry, workers, scheduler))
                try:
                    got = uberjob.run(plan, output=out, retry=retry, max_workers=workers, scheduler=scheduler, progress=None)
                except BaseException as e:      # noqa
                    got = "raised %s: %r" % (type(e).__name__, getattr(e, "__cause__", None))
                if got != expected:
                    ctx.fail("decorated-callables", "retry=%r, max_workers=%d, scheduler=%s: [scale(50, 8, bonus=1) with scale wrapped by functools.wraps, lru_cached square of it, "
                             "a callable object with a __wrapped__ attribute, a function with __wrapped__ set, a partial] gave %r; calling them directly gives %r"
                             % (retry, workers, scheduler, got, expected), {"retry": retry, "max_workers": workers, "scheduler": scheduler})


def rejected_calls(ctx, uberjob):
    """A plan-building call that RAISES (arguments that do not bind, a self-referential container, a node of another plan, an unpack
    length that is not a number ...) is caught by the user, who keeps building on the nodes made before: the nodes already in the plan -
    consumed or not yet consumed by anything - still evaluate to what straightforward evaluation yields."""
    def inc(x):
        return x + 1

    def pair(a, b=10):
        return (a, b)

    def consume(values, extra):
        return len(values) + len(extra)
    loop = []
    loop.append(loop)
    dloop = {}
    dloop["self"] = dloop
    other = uberjob.Plan()
    foreign = other.call(inc, 1)

    attempts = {
        "self-referential list argument": lambda plan, parts, p: plan.call(consume, parts, loop),
        "self-referential dict nested in an argument": lambda plan, parts, p: plan.call(consume, [parts, {"k": (p, dloop)}], 1),
        "arguments that do not bind": lambda plan, parts, p: plan.call(consume, parts, p, 3),
        "unknown keyword": lambda plan, parts, p: plan.call(consume, parts, nope=p),
        "gather of a self-referential list": lambda plan, parts, p: plan.gather([parts, p, loop]),
        "node of another plan": lambda plan, parts, p: plan.call(consume, parts, [p, foreign]),
        "unpack with a length that is no number": lambda plan, parts, p: plan.unpack(parts, "three"),
        "a function that is not callable": lambda plan, parts, p: plan.call(None, parts, p),
    }
    for name, attempt in attempts.items():
        for when in ("before the consumers exist", "after a consumer exists"):
            for workers in (1, 4):
                for scheduler in ("default", "random"):
                    plan = uberjob.Plan()
                    a = plan.call(inc, 1)
                    b = plan.call(inc, 2)
                    parts = plan.gather([a, b, 7])
                    p = plan.call(pair, a, b=b)
                    early = plan.call(len, parts) if when.startswith("after") else None
                    try:
                        attempt(plan, parts, p)
                        raised = None
                    except BaseException as e:      # noqa
                        raised = type(e).__name__
                    ctx.case(("rejected-call", name, when, workers, scheduler))
                    ctx.count("rejected_call_outcome", "%s: %s" % (name, raised or "accepted"))
                    if raised is None:
                        continue        # the library accepted it: nothing to check here
                    total = plan.call(sum, parts)
                    q = plan.call(list, p)
                    out = {"total": total, "q": q, "parts": parts, "p": p}
                    expected = {"total": 12, "q": [2, 3], "parts": [2, 3, 7], "p": (2, 3)}
                    if early is not None:
                        out["early"], expected["early"] = early, 3
                    try:
                        got = core.call_watched(lambda: uberjob.run(plan, output=out, max_workers=workers, scheduler=scheduler, progress=None), timeout=30)
                    except core.Hang:
                        got = "did not return within 30 s"
                    except BaseException as e:      # noqa
                        got = "raised %s: %r" % (type(e).__name__, getattr(e, "__cause__", None))
                    if got != expected:
                        ctx.fail("rejected-call", "a = inc(1); b = inc(2); parts = gather([a, b, 7]); p = pair(a, b=b); then a plan-building call with %s raised %s and was caught (%s); "
                                 "sum(parts), list(p), parts, p then evaluate to %r under max_workers=%d, scheduler=%s; straightforward evaluation gives %r"
                                 % (name, raised, when, got, workers, scheduler, expected), {"attempt": name, "when": when, "max_workers": workers, "scheduler": scheduler})
