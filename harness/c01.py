"""C01: a call never starts before everything it depends on has finished successfully."""
import core
import engine_corr

RULE = ("random DAGs from 7 families (0-11 nodes, parallel edges of different key kinds, shuffled ids) x worker counts "
        "{1,2,3,5,n+2} x max_errors {0,1,2,None} x all schedulers x failing sets, each under several controlled thread "
        "schedules (random preemption at bytecode granularity, PCT, mostly-sequential); distinct = distinct "
        "(graph, config, decision sequence); non-trivial = at least 2 nodes")
TRUSTED_BASE = ["harness/detsched.py: baton scheduler, cooperative replacements of queue.Queue.get/join, Thread.join and Lock (stdlib behaviour)",
                "sys.settrace opcode events as yield points; one bytecode is atomic (GIL)",
                "event-to-choice mapping in harness/engine_corr.py:to_choices"]


def run(ctx):
    # model-free scenarios through the public API first (they do not depend on the engine instrumentation)
    import planlevel
    import prune_corr
    concurrent_runs(ctx)
    gated_literal_arguments(ctx)
    dependencies_survive_rejected_calls(ctx)
    add_and_source_on_one_store(ctx)
    forgotten_registry(ctx)
    registry_order(ctx)
    planlevel.plan_campaign(ctx, {"C01"}, n_quick=100, n_thorough=2000)
    engine_corr.campaign(ctx, {"C01"})
    import translate_prune
    translate_prune.check(ctx)       # pruning.py's literal elision translated to Gallina and linked to Cache/Prune.v by a theorem
    import translate_nxutil
    translate_nxutil.check(ctx)      # networkx_util.py (Kahn, all_ancestors, predecessor_count, is_source_node) compiled from the source and linked to Base/Topo.v
    prune_corr.run_prune(ctx)       # plan -> run graph: dependencies between surviving nodes (Cache/Prune.v)


def registry_order(ctx):
    """With a registry: whatever is up to date, a call that executes in a run starts only after every call it directly
    depends on (argument or add_dependency) has run in THAT run if that call has no value store, and after the store of a
    rebuilt stored dependency was written.  Worlds with redundant dependencies (an explicit dependency parallel to a path
    through a stored node) are included on purpose."""
    import cache_corr
    uj = core.use_repo()
    rng = ctx.rng
    shapes = {
        # A -> B(stored) -> C and an explicit (transitively implied) dependency A -> C: when B is up to date, A still precedes C
        "redundant-dep": [("source", [], [], False), ("call", [0], [], False), ("call", [1], [], True), ("call", [2], [1], False)],
        "redundant-dep-2": [("call", [], [], False), ("call", [0], [], True), ("call", [1], [], True), ("call", [2], [0, 1], False),
                            ("call", [3], [0], True)],
    }
    worlds = [(n, sp) for n, sp in shapes.items()] * ctx.n(3, 12) + [(None, None)] * ctx.n(30, 500)
    for wi, (name, spec) in enumerate(worlds):
        w = cache_corr.World(uj, rng, maxn=ctx.n(7, 9), spec=spec)
        for step in range(ctx.n(4, 6)):
            output = rng.choice([None, w.n - 1, rng.randrange(w.n)])
            sigma = w.sigma()
            nw = rng.choice([1, 3])
            w.slow_writes = 0.002 if nw > 1 else 0
            res = w.run(output, None, workers=nw, scheduler=rng.choice([None, "random"]))
            w.slow_writes = 0
            log = [(k, i) for k, i, _ in w.log]
            pos = {}
            for k, e in enumerate(log):
                pos.setdefault(e, k)
            ctx.case(("registry-order", name or wi, step, tuple(str(x) for x in sigma), output), nontrivial=len(log) > 0)
            for i, m in enumerate(w.meta):
                if m["kind"] != "call" or ("call", i) not in pos:
                    continue
                for j in set(m["args"]) | set(m["deps"]):
                    mj = w.meta[j]
                    if mj["kind"] == "call" and mj["store"] is None:
                        if ("call", j) not in pos or pos[("call", j)] > pos[("call", i)]:
                            ctx.fail("registry:start-before-dependency", "call %d ran in this run but call %d, which it directly depends on and which has no value "
                                     "store, %s" % (i, j, "never ran" if ("call", j) not in pos else "started later"),
                                     {"meta": w.meta, "sigma_before": sigma, "output": output, "log": log[:120], "world": name})
                    elif mj["store"] is not None and not mj["is_src"] and ("write", mj["store"]) in pos and pos[("write", mj["store"])] > pos[("call", i)]:
                        ctx.fail("registry:start-before-write", "call %d started before the store of rebuilt node %d, which it depends on, was written" % (i, j),
                                 {"meta": w.meta, "sigma_before": sigma, "output": output, "log": log[:120], "world": name})
            op = rng.choice(["none", "update", "delete"])
            srcs = [m["store"] for m in w.meta if m["is_src"]]
            st = [m["store"] for m in w.meta if m["store"] is not None and not m["is_src"]]
            if op == "update" and srcs:
                w.set_store(rng.choice(srcs), rng.randrange(1, 1000))
            elif op == "delete" and st:
                s_ = rng.choice(st)
                w.stores[s_].v = w.stores[s_].t = None


def concurrent_runs(ctx):
    """Two user threads run ONE plan at the same time (their executions overlap inside the first calls): within each run a
    call starts only after that run's own executions of its dependencies have finished - the engine's bookkeeping belongs to
    the run, not to the plan or the process."""
    import threading
    import time
    uj = core.use_repo()
    shapes = {
        "join": [("a", []), ("b", []), ("c", ["a", "b"])],
        "join-chain": [("a", []), ("b", []), ("c", ["a", "b"]), ("d", ["c", "a"])],
        "diamond": [("a", []), ("b", ["a"]), ("c", ["a"]), ("d", ["b", "c"])],
    }
    for name, shape in shapes.items():
        for workers in (1, 2, 4):
            for scheduler in (None, "random"):
                gate = threading.Barrier(2, timeout=5)
                lock = threading.Lock()
                events = []
                first = shape[0][0]

                def mk(nm):
                    def f(*args):
                        if nm == first:
                            try:
                                gate.wait()          # both runs are executing their first call now
                            except threading.BrokenBarrierError:
                                pass
                        time.sleep(0.01 if nm == "b" else 0.002)
                        return nm
                    f.__name__ = nm
                    return f
                plan, nodes = uj.Plan(), {}
                for nm, args in shape:
                    nodes[nm] = plan.call(mk(nm), *[nodes[a] for a in args])

                def tagging_retry(run_id):
                    def retry(fn):
                        def wrapper(*a, **k):
                            nm = getattr(fn, "__name__", "?")
                            with lock:
                                events.append((run_id, "start", nm))
                            try:
                                return fn(*a, **k)
                            finally:
                                with lock:
                                    events.append((run_id, "end", nm))
                        return wrapper
                    return retry
                results = {}

                def runner(k):
                    try:
                        results[k] = ("ok", uj.run(plan, output=nodes[shape[-1][0]], max_workers=workers, scheduler=scheduler, progress=None, retry=tagging_retry(k)))
                    except BaseException as e:      # noqa
                        results[k] = ("raised", "%s: %r" % (type(e).__name__, getattr(e, "__cause__", None)))
                ths = [threading.Thread(target=runner, args=(k,), daemon=True) for k in (0, 1)]
                for t in ths:
                    t.start()
                for t in ths:
                    t.join(30)
                ctx.case(("concurrent-runs", name, workers, scheduler))
                rep = {"shape": name, "max_workers": workers, "scheduler": scheduler, "events": [list(e) for e in events[:80]], "results": {k: repr(v) for k, v in results.items()}}
                deps = dict(shape)
                for k in (0, 1):
                    if results.get(k) != ("ok", shape[-1][0]):
                        ctx.fail("concurrent-runs:result", "two threads running one plan at once: run %d %r" % (k, results.get(k, "did not return")), rep)
                        break
                    ended = set()
                    for run_id, kind, nm in events:
                        if run_id != k or nm not in deps:
                            continue
                        if kind == "end":
                            ended.add(nm)
                        elif [d for d in deps[nm] if d not in ended]:
                            ctx.fail("concurrent-runs:start-before-dependency", "two threads running one plan at once: in run %d call %s started before its "
                                     "dependencies %r had finished in that run" % (k, nm, [d for d in deps[nm] if d not in ended]), rep)
                            break


def gated_literal_arguments(ctx):
    """a call takes k literals that are all gated on ONE producer x (add_dependency(x, literal)) and also depends on a slow call y:
    it starts only after both x and y have finished - however many paths lead from x to it, whether the literals are passed directly or
    inside a list / dict / tuple argument, and whether the gate is wired before or AFTER the literal was used"""
    import threading
    import time
    uj = core.use_repo()
    combos = [(k, workers, scheduler, y_form, container, wired)
              for k in (1, 2, 3) for workers in (1, 2, 4) for scheduler in (None, "random") for y_form in ("argument", "dependency", "gated-literal")
              for container in (None, "list", "dict", "tuple") for wired in ("before", "after", "between-two-uses")]
    if ctx.quick:
        combos = [c for c in combos if c[4] is None and c[5] == "before"] + ctx.rng.sample([c for c in combos if not (c[4] is None and c[5] == "before")], 60) \
            + [(1, 1, None, "argument", "list", "after"), (2, 2, "random", "dependency", "dict", "after"), (1, 2, None, "argument", None, "between-two-uses"),
               (2, 4, "random", "dependency", None, "between-two-uses"), (1, 1, None, "gated-literal", "list", "between-two-uses")]
    for k, workers, scheduler, y_form, container, wired in combos:
        lock, ev = threading.Lock(), []

        def mk(nm, dur):
            def f(*a, **kw):
                with lock:
                    ev.append(("start", nm))
                time.sleep(dur)
                with lock:
                    ev.append(("end", nm))
                return nm
            f.__name__ = nm
            return f
        plan = uj.Plan()
        x = plan.call(mk("x", 0.02 if wired == "after" else 0.0))
        y = plan.call(mk("y", 0.08))
        lits = [plan.lit("gate-%d" % i) for i in range(k)]
        if wired == "before":
            for li in lits:
                plan.add_dependency(x, li)

        def wrap(li):
            return li if container is None else [li, 0] if container == "list" else {"k": li} if container == "dict" else (0, li)
        extra = [y] if y_form == "argument" else []
        if wired == "between-two-uses":
            # the literal is used once, THEN gated, then used again by the call under observation
            plan.call(mk("early", 0.0), *[wrap(li) for li in lits])
            for li in lits:
                plan.add_dependency(x, li)
        t = plan.call(mk("t", 0.0), *[wrap(li) for li in lits[:1]], *extra, **{"g%d" % i: wrap(li) for i, li in enumerate(lits[1:])})
        if wired == "after":
            for li in lits:
                plan.add_dependency(x, li)
        if y_form == "dependency":
            plan.add_dependency(y, t)
        elif y_form == "gated-literal":
            ly = plan.lit("gate-y")
            plan.add_dependency(y, ly)
            plan.add_dependency(ly, t)
        ctx.case(("gated-literal-arguments", k, workers, scheduler, y_form, container, wired))
        try:
            res = core.call_watched(lambda: uj.run(plan, output=t, max_workers=workers, scheduler=scheduler, progress=None), timeout=30)
        except BaseException as e:      # noqa
            res = "raised %s: %s" % (type(e).__name__, e)
        done = set()
        bad = None
        for kind, nm in ev:
            if kind == "end":
                done.add(nm)
            elif nm == "t" and not {"x", "y"} <= done:
                bad = sorted({"x", "y"} - done)
        if res != "t" or bad:
            ctx.fail("gated-literals:start-before-dependency", "a call taking %d literal(s) gated on x (%s; the gate wired %s the literal was used) and depending on the slow call y (%s): "
                     "run gave %r; the call started before %r had finished" % (k, "passed directly" if container is None else "inside a %s argument" % container, wired, y_form, res, bad),
                     {"gated_literals": k, "max_workers": workers, "scheduler": scheduler, "y_is": y_form, "container": container, "gate_wired": wired, "events": ev})


def forgotten_registry(ctx):
    """a plan with registry.source nodes run WITHOUT the registry: the source call fails, so nothing that depends on it (argument or
    add_dependency, directly or not) starts, whatever retry= says"""
    import datetime as dt
    uj = core.use_repo()

    class Mem(uj.ValueStore):
        def read(self):
            return 1

        def write(self, v):
            pass

        def get_modified_time(self):
            return dt.datetime(2020, 1, 1)
    for retry in (None, 1, 2, 3):
        for workers in (1, 3):
            for max_errors in (0, None):
                started = []
                plan, reg = uj.Plan(), uj.Registry()
                s_ = reg.source(plan, Mem())
                mid = plan.call(lambda v: started.append("mid"), s_)
                end = plan.call(lambda v: started.append("end"), mid)
                side = plan.call(lambda: started.append("side"))
                plan.add_dependency(s_, side)
                free = plan.call(lambda: started.append("free"))
                ctx.case(("forgotten-registry", retry, workers, max_errors))
                try:
                    res = uj.run(plan, output=[end, side, free], retry=retry, max_workers=workers, max_errors=max_errors, progress=None)
                    oc = "returned %r" % (res,)
                except uj.CallError as e:
                    oc = "callerror"
                bad = sorted(set(started) - {"free"})
                if oc != "callerror" or bad:
                    ctx.fail("forgotten-registry", "a registry.source node run without its registry (retry=%r): run %s; calls that depend on the source started: %r"
                             % (retry, oc, bad), {"retry": retry, "max_workers": workers, "max_errors": max_errors})


def add_and_source_on_one_store(ctx):
    """ONE ValueStore object is registered for a computed node x (registry.add) and, again, as a dependent source y
    (registry.source + add_dependency(p, y), where p uses x): the consumer of y starts only after p has finished - under every
    store state (empty / filled), worker count and scheduler."""
    import datetime as dt
    import threading
    import time
    uj = core.use_repo()
    for filled in (False, True):
        for workers in (2, 4, 1):
            for scheduler in (None, "random"):
                lock, ev = threading.Lock(), []

                class Mem(uj.ValueStore):
                    def __init__(self):
                        self.v, self.t = (7, dt.datetime(2020, 1, 1)) if filled else (None, None)

                    def read(self):
                        return self.v

                    def write(self, v):
                        self.v, self.t = v, dt.datetime(2021, 1, 1)

                    def get_modified_time(self):
                        return self.t

                def mk(nm, dur):
                    def f(*a):
                        with lock:
                            ev.append(("start", nm))
                        time.sleep(dur)
                        with lock:
                            ev.append(("end", nm))
                        return a[0] if a else 1
                    f.__name__ = nm
                    return f
                s = Mem()
                plan, reg = uj.Plan(), uj.Registry()
                x = plan.call(mk("x", 0.0))
                reg.add(x, s)
                p = plan.call(mk("update", 0.15), x)
                y = reg.source(plan, s)
                plan.add_dependency(p, y)
                c = plan.call(mk("consume", 0.0), y)
                ctx.case(("add-and-source-one-store", filled, workers, scheduler))
                try:
                    res = core.call_watched(lambda: uj.run(plan, registry=reg, output=c, max_workers=workers, scheduler=scheduler, progress=None), timeout=30)
                    oc = "returned %r" % (res,)
                except BaseException as e:      # noqa
                    oc = "raised %s: %r" % (type(e).__name__, getattr(e, "__cause__", None))
                done = set()
                bad = None
                for kind, nm in ev:
                    if kind == "end":
                        done.add(nm)
                    elif nm == "consume" and "update" not in done and ("start", "update") in ev:
                        # (an up-to-date dependent source does not pull its predecessors: then `update` does not run at all)
                        bad = "consume started before update had finished"
                if not oc.startswith("returned") or bad:
                    ctx.fail("add-and-source-one-store", "one store object registered for a computed node and as a dependent source (store %s, max_workers=%d, scheduler=%r): run %s; %s"
                             % ("filled" if filled else "empty", workers, scheduler, oc, bad or "order fine"), {"filled": filled, "max_workers": workers, "scheduler": scheduler, "events": ev})


def dependencies_survive_rejected_calls(ctx):
    """A plan-building call that raises (a self-referential container among its arguments, arguments that do not bind, a node of another
    plan) and is caught must leave the dependencies already in the plan alone: an argument of the rejected call that carries an
    add_dependency edge - a literal, a gather, a call nobody consumes yet - still waits for what it depends on when it is used afterwards."""
    import threading
    import time
    uberjob = core.use_repo()
    loop = []
    loop.append(loop)
    foreign = uberjob.Plan().call(int, 1)
    rejections = {
        "self-referential list as a later argument": lambda plan, x: plan.call(lambda a, b: a, x, loop),
        "self-referential list nested next to it": lambda plan, x: plan.call(lambda a: a, [x, {"k": loop}]),
        "arguments that do not bind": lambda plan, x: plan.call(lambda a: a, x, x),
        "node of another plan": lambda plan, x: plan.call(lambda a, b: a, x, [foreign]),
        "gather of a self-referential list": lambda plan, x: plan.gather([x, loop]),
    }
    carriers = {
        "literal": lambda plan: plan.lit(41),
        "gather of constants": lambda plan: plan.gather([40, 1]),
        "gather of a node": lambda plan: plan.gather([plan.call(lambda: 41)]),
        "unconsumed call": lambda plan: plan.call(lambda: 41),
    }
    for rname, reject in rejections.items():
        for cname, carrier in carriers.items():
            for workers in (2, 4):
                w_done = threading.Event()
                early = []

                def slow_w():
                    time.sleep(0.12)
                    w_done.set()
                    return "w"

                def g(x):
                    if not w_done.is_set():
                        early.append("g")
                    return x
                plan = uberjob.Plan()
                w = plan.call(slow_w)
                x = carrier(plan)
                plan.add_dependency(w, x)
                try:
                    reject(plan, x)
                    raised = None
                except BaseException as e:      # noqa
                    raised = type(e).__name__
                ctx.case(("rejected-call-dependency", rname, cname, workers))
                if raised is None:
                    continue
                c = plan.call(g, x)
                try:
                    core.call_watched(lambda: uberjob.run(plan, output=c, max_workers=workers, progress=None), timeout=30)
                    oc = None
                except core.Hang:
                    oc = "run did not return within 30 s"
                except BaseException as e:      # noqa
                    oc = "run raised %s: %r" % (type(e).__name__, getattr(e, "__cause__", None))
                if early or oc:
                    ctx.fail("rejected-call-dependency", "w = call(slow); x = %s; add_dependency(w, x); a plan-building call with x and %s raised %s and was caught; then g(x) is added and "
                             "the plan run with max_workers=%d: %s" % (cname, rname, raised, workers, "g started before w had finished" if early else oc),
                             {"rejected": rname, "carrier": cname, "max_workers": workers})
