"""C01: a call never starts before everything it depends on has finished successfully."""
import core
import engine_corr

RULE = ("random DAGs from 7 families (0-11 nodes, parallel edges of different key kinds, shuffled ids) x worker counts "
        "{1,2,3,5,n+2} x max_errors {0,1,2,None} x all schedulers x failing sets, each under several controlled thread "
        "schedules (random preemption at bytecode granularity, PCT, mostly-sequential); distinct = distinct "
        "(graph, config, decision sequence); non-trivial = at least 2 nodes")
TRUSTED_BASE = ["harness/detsched.py: baton scheduler, cooperative replacements of queue.Queue.get/join, Thread.join and Lock (stdlib behaviour)",
                "sys.settrace opcode events as yield points; one bytecode is atomic (GIL)",
                "event-to-choice mapping in harness/engine_corr.py:to_choices"]


def run(ctx):
    engine_corr.campaign(ctx, {"C01"})
    import planlevel
    import prune_corr
    planlevel.plan_campaign(ctx, {"C01"}, n_quick=100, n_thorough=2000)
    import translate_prune
    translate_prune.check(ctx)       # pruning.py's literal elision translated to Gallina and linked to Cache/Prune.v by a theorem
    prune_corr.run_prune(ctx)       # plan -> run graph: dependencies between surviving nodes (Cache/Prune.v)
