"""C10: run limits are honoured: max_workers, max_errors and retry."""
import core
import engine_corr
import planlevel

RULE = ("engine level: in-flight counter, failure-count bounds (k + workers; exact with one worker; max_errors=None runs everything "
        "not downstream of a failure) on controlled schedules, traces accepted by Engine.v; plan level: same monitors through "
        "uberjob.run; rendezvous barriers showing max_workers calls really overlap; create_retry vs Engine/Retry.v on (n, j, kind) grids")
TRUSTED_BASE = ["harness/detsched.py, harness/engine_corr.py, harness/planlevel.py, harness/retry_corr.py"]


def run(ctx):
    engine_corr.campaign(ctx, {"C10"})
    planlevel.plan_campaign(ctx, {"C10"})
    overlap(ctx)
    import retry_corr
    retry_corr.run_retry(ctx)       # real create_retry / run(retry=...) vs Engine/Retry.v


def overlap(ctx):
    """Whenever >= max_workers independent calls are ready that many do run in parallel: a width-w layer whose calls
    rendezvous on a barrier completes only if w calls overlap; and a store-operation layer likewise."""
    import threading
    uberjob = core.use_repo()
    for w in (2, 3, 5):
        for scheduler in (None, "random"):
            bar = threading.Barrier(w, timeout=20)
            infl, lock, mx = [0], threading.Lock(), [0]

            def f(i):
                with lock:
                    infl[0] += 1
                    mx[0] = max(mx[0], infl[0])
                try:
                    bar.wait()
                finally:
                    with lock:
                        infl[0] -= 1
                return i
            p = uberjob.Plan()
            xs = [p.call(f, i) for i in range(w)]
            ctx.case(("overlap", w, scheduler))
            try:
                uberjob.run(p, output=xs, max_workers=w, scheduler=scheduler, progress=None)
            except BaseException as e:  # BrokenBarrierError -> the calls did not overlap
                ctx.fail("overlap", "max_workers=%d ready calls did not run in parallel (%r)" % (w, e),
                         {"width": w, "scheduler": scheduler})
            if mx[0] > w:
                ctx.fail("plan:too-many-in-flight", "%d in flight with max_workers=%d" % (mx[0], w), {"width": w})
