"""C10: run limits are honoured: max_workers, max_errors and retry."""
import core
import engine_corr
import planlevel

RULE = ("engine level: in-flight counter, failure-count bounds (k + workers; exact with one worker; max_errors=None runs everything "
        "not downstream of a failure) on controlled schedules, traces accepted by Engine.v; plan level: same monitors through "
        "uberjob.run; rendezvous barriers showing max_workers calls really overlap; create_retry vs Engine/Retry.v on (n, j, kind) grids")
TRUSTED_BASE = ["harness/detsched.py, harness/engine_corr.py, harness/planlevel.py, harness/retry_corr.py"]


def run(ctx):
    engine_corr.campaign(ctx, {"C10"})
    planlevel.plan_campaign(ctx, {"C10"})
    overlap(ctx)
    uneven_durations(ctx)
    stale_check_limit(ctx)
    import retry_corr
    retry_corr.run_retry(ctx)       # real create_retry / run(retry=...) vs Engine/Retry.v


def stale_check_limit(ctx):
    """stale_check_max_workers bounds the concurrent modified-time queries (and that many do overlap) independently of max_workers."""
    import datetime as dt
    import threading
    import time
    uberjob = core.use_repo()
    for max_workers, stale_workers in ((6, 2), (1, 4), (3, 3), (2, None), (None, 3)):
        lock, infl, peak = threading.Lock(), [0], [0]

        class Slow(uberjob.ValueStore):
            def __init__(self):
                self.v = 1

            def read(self):
                return self.v

            def write(self, v):
                self.v = v

            def get_modified_time(self):
                with lock:
                    infl[0] += 1
                    peak[0] = max(peak[0], infl[0])
                time.sleep(0.03)
                with lock:
                    infl[0] -= 1
                return dt.datetime(2020, 1, 1)
        p, r = uberjob.Plan(), uberjob.Registry()
        xs = []
        for i in range(8):
            x = p.call(lambda i=i: i)
            r.add(x, Slow())
            xs.append(x)
        uberjob.run(p, registry=r, output=xs, max_workers=max_workers, stale_check_max_workers=stale_workers, progress=None)
        limit = stale_workers if stale_workers is not None else max_workers
        ctx.case(("stale-check-limit", max_workers, stale_workers))
        rep = {"max_workers": max_workers, "stale_check_max_workers": stale_workers, "peak_concurrent_get_modified_time": peak[0]}
        if limit is not None and peak[0] > limit:
            ctx.fail("stale-check:too-many", "%d modified-time queries ran concurrently with stale_check_max_workers=%r, max_workers=%r" % (peak[0], stale_workers, max_workers), rep)
        if limit is not None and limit > 1 and peak[0] < min(limit, 8):
            # rule out a slow machine: the queries sleep 30 ms each, 8 of them
            ctx.fail("stale-check:not-parallel", "only %d modified-time queries overlapped with stale_check_max_workers=%r, max_workers=%r" % (peak[0], stale_workers, max_workers), rep)


def overlap(ctx):
    """Whenever >= max_workers independent calls are ready that many do run in parallel: a width-w layer whose calls
    rendezvous on a barrier completes only if w calls overlap.  Shapes: w independent calls; one root feeding w children
    (the pool must not be sized by the number of source nodes); w store writes of rebuilt values behind one source."""
    import threading
    uberjob = core.use_repo()
    import datetime as dt

    class Mem(uberjob.ValueStore):
        def __init__(self, bar=None):
            self.v, self.t, self.bar = None, None, bar

        def read(self):
            return self.v

        def write(self, v):
            if self.bar is not None:
                self.bar.wait()
            self.v, self.t = v, dt.datetime(2020, 1, 1)

        def get_modified_time(self):
            return self.t

    def attempt(shape, w, scheduler, timeout):
        bar = threading.Barrier(w, timeout=timeout)
        infl, lock, mx = [0], threading.Lock(), [0]

        def f(i, *a):
            with lock:
                infl[0] += 1
                mx[0] = max(mx[0], infl[0])
            try:
                bar.wait()
            finally:
                with lock:
                    infl[0] -= 1
            return i
        p = uberjob.Plan()
        reg = None
        if shape == "independent":
            xs = [p.call(f, i) for i in range(w)]
        elif shape == "fan-out":
            # the root takes long enough for the other workers to be idle (blocked in queue.get) when the fan-out happens
            root = p.call(lambda: __import__("time").sleep(0.15) or 0)
            xs = [p.call(f, i, root) for i in range(w)]
        else:
            reg = uberjob.Registry()
            root = p.call(lambda: __import__("time").sleep(0.15) or 0)
            xs = [p.call(lambda r, i=i: i, root) for i in range(w)]
            for x in xs:
                reg.add(x, Mem(bar))
        err = None
        try:
            uberjob.run(p, output=xs, registry=reg, max_workers=w, scheduler=scheduler, progress=None)
        except BaseException as e:  # BrokenBarrierError -> the calls did not overlap
            err = e
        return err, mx[0]

    for shape in ("independent", "fan-out", "store-writes"):
        for w in (2, 3, 5, 33, 40) if shape == "independent" else (2, 3, 5):
            for scheduler in (None, "random"):
                ctx.case(("overlap", shape, w, scheduler))
                ctx.count("overlap_shape", shape)
                err, mx = attempt(shape, w, scheduler, 3)
                if err is not None:
                    # rule out a slow machine before reporting: once more with a long rendezvous timeout
                    err, mx = attempt(shape, w, scheduler, 30)
                if err is not None:
                    ctx.fail("overlap:" + shape, "max_workers=%d ready %s did not run in parallel (%s)" % (
                        w, "store writes" if shape == "store-writes" else "calls", type(getattr(err, "__cause__", None) or err).__name__),
                        {"shape": shape, "width": w, "scheduler": scheduler})
                if mx > w:
                    ctx.fail("plan:too-many-in-flight", "%d in flight with max_workers=%d" % (mx, w), {"width": w})


_run_before_api = run


def run(ctx):
    _run_before_api(ctx)
    import api_corr
    api_corr.run_api_corr(ctx)


_run_before_large_limits = run


def run(ctx):
    large_error_limits(ctx)
    scoped_error_limits(ctx)
    _run_before_large_limits(ctx)


def large_error_limits(ctx):
    """max_errors is an ordinary integer: with one worker and N independent failing calls exactly min(k + 1, N) fail, also for
    k around and above 128; with several workers at most k + max_workers"""
    uj = core.use_repo()
    for k, n in ((126, 140), (127, 140), (128, 150), (129, 150), (200, 260)):
        for workers in (1, 3):
            count = [0]
            lock = __import__("threading").Lock()

            def bad(i):
                with lock:
                    count[0] += 1
                raise ValueError(i)
            plan = uj.Plan()
            calls = [plan.call(bad, i) for i in range(n)]
            try:
                uj.run(plan, output=calls, max_errors=k, max_workers=workers, progress=None)
                oc = "returned"
            except uj.CallError:
                oc = "callerror"
            ctx.case(("c10-large-limit", k, n, workers))
            ok = oc == "callerror" and (count[0] == min(k + 1, n) if workers == 1 else k + 1 <= count[0] <= k + workers)
            if not ok:
                ctx.fail("large-limit", "max_errors=%d, max_workers=%d, %d independent failing calls: %d failed (run %s); %s"
                         % (k, workers, n, count[0], oc, "exactly %d expected" % min(k + 1, n) if workers == 1 else "between %d and %d expected" % (k + 1, k + workers)),
                         {"max_errors": k, "max_workers": workers, "failing_calls": n, "failed": count[0]})


def scoped_error_limits(ctx):
    """max_errors limits the failures of the RUN, wherever in the plan they occur: failing calls spread over plan scopes (one scope each,
    a few scopes, nested scopes, scopes of mixed types), with a registry (stores failing on write) and without."""
    uj = core.use_repo()
    import threading
    layouts = {"one scope each": lambda i: [("s%d" % i,)], "three scopes": lambda i: [("abc"[i % 3],)], "nested": lambda i: [("outer",), (i % 4,)],
               "mixed types": lambda i: [((2020 + i, "q")[i % 2],)], "root and one scope": lambda i: [("x",)] if i % 2 else []}
    for lname, layout in layouts.items():
        for k in (1, 2, 5):
            for workers in (1, 2, 3):
                for where in ("call", "store write"):
                    n = 12
                    count, lock = [0], threading.Lock()

                    def bad(i):
                        if where == "call":
                            with lock:
                                count[0] += 1
                            raise ValueError(i)
                        return i

                    class FailingStore(uj.ValueStore):
                        def read(self):
                            return 0

                        def write(self, v):
                            with lock:
                                count[0] += 1
                            raise IOError(v)

                        def get_modified_time(self):
                            return None
                    plan, reg = uj.Plan(), uj.Registry()
                    calls = []
                    for i in range(n):
                        import contextlib
                        with contextlib.ExitStack() as es:
                            for sc in layout(i):
                                es.enter_context(plan.scope(*sc))
                            calls.append(plan.call(bad, i))
                            if where == "store write":
                                reg.add(calls[-1], FailingStore())
                    try:
                        uj.run(plan, output=calls, registry=reg if where == "store write" else None, max_errors=k, max_workers=workers, progress=None)
                        oc = "returned"
                    except uj.CallError:
                        oc = "callerror"
                    except BaseException as e:      # noqa
                        oc = "raised %s" % type(e).__name__
                    ctx.case(("c10-scoped-limit", lname, k, workers, where))
                    ok = oc == "callerror" and (count[0] == min(k + 1, n) if workers == 1 else k + 1 <= count[0] <= k + workers)
                    if not ok:
                        ctx.fail("scoped-limit", "max_errors=%d, max_workers=%d, %d independent failing %ss in plan scopes (%s): %d failed (run %s); %s"
                                 % (k, workers, n, where, lname, count[0], oc, "exactly %d expected" % min(k + 1, n) if workers == 1 else "between %d and %d expected" % (k + 1, k + workers)),
                                 {"max_errors": k, "max_workers": workers, "failing": n, "where": where, "scopes": lname, "failed": count[0]})


def uneven_durations(ctx):
    """n independent calls, max_workers = w >= 2: the call that happens to start first does not finish until all the others have finished.
    The other w-1 workers must get every remaining ready call (a ready call must never sit behind a running one while a worker is idle)."""
    import threading
    import time
    uberjob = core.use_repo()
    for n in (5, 9, 17):
        for w in (2, 3):
            for scheduler in (None, "random", "cheap") if hasattr(uberjob, "run") else ():
                lock = threading.Lock()
                state = {"first": None, "done": 0, "timed_out": False}
                others_done = threading.Event()

                def f(i):
                    with lock:
                        first = state["first"] is None
                        if first:
                            state["first"] = i
                    if first:
                        if not others_done.wait(4):
                            state["timed_out"] = True
                    else:
                        time.sleep(0.002)
                        with lock:
                            state["done"] += 1
                            if state["done"] == n - 1:
                                others_done.set()
                    return i
                plan = uberjob.Plan()
                calls = [plan.call(f, i) for i in range(n)]
                ctx.case(("c10-uneven-durations", n, w, scheduler))
                try:
                    kw = {} if scheduler == "cheap" else {"scheduler": scheduler}
                    res = core.call_watched(lambda: uberjob.run(plan, output=calls, max_workers=w, progress=None, **kw), timeout=30)
                except BaseException as e:      # noqa
                    res = "raised %s" % type(e).__name__
                if state["timed_out"] or res != list(range(n)):
                    ctx.fail("parallelism:ready-call-waits-behind-a-running-one", "%d independent calls, max_workers=%d, scheduler=%r: the first call waited for the others to finish; after 4 s "
                             "only %d of the other %d had run although %d worker(s) were idle; run gave %r" % (n, w, scheduler, state["done"], n - 1, w - 1, res),
                             {"calls": n, "max_workers": w, "scheduler": scheduler})
