"""Translator tie for the plumbing of `uberjob.run` (src/uberjob/_run.py, with the two engine calls it reaches in caching.py and run_physical.py;
C10, C14, C15): the argument checks, the defaulting of stale_check_max_workers, `_coerce_retry`, the `with progress_observer:` block (registry
branch / prune branch, transform_physical, run totals, dry-run return, run_physical) and the keyword arguments that reach `run_function_on_graph`
in the stale check and in the run are parsed with `ast` on every run and compiled to a Gallina function `gen_run_api : args -> outcome`
(coq/gen/RunGen.v); coq/gen/RunLink.v (hand-written, committed) proves `generated_run_is_model : gen_run_api a = Api.run_api a` for every argument
combination, and restates the C10 / C14 / C15 theorems of Run/Api.v of the generated function.  Fail-closed.

Trusted: this file; a keyword argument `x=y` of a call passes the caller's current value of y as the callee's x (the chain run -> plan_with_value_stores
-> _get_stale_nodes -> run_function_on_graph and run -> run_physical -> run_function_on_graph is followed by parameter name, each link checked
textually); `with progress_observer:` enters first and exits last; `create_retry(n)` grants n attempts and rejects n < 1 (linked separately by
translate_retry.py); a registry is truthy iff it has an entry (`Registry.__len__`), a Node is truthy."""
import ast
import os
import re
import subprocess

import core
from translate_stale import GEN, TranslationError, _expect, _fn, _src


def norm(n):
    return re.sub(r"\s+", " ", _src(n))


ZVAR = {"max_workers": "a_max_workers a", "stale_check_max_workers": "a_stale_workers a", "max_errors": "a_max_errors a"}


def guard(s):
    """`if X is not None and X < k: raise ValueError(...)` -> (variable, Gallina test on the value v that REJECTS)"""
    _expect(isinstance(s, ast.If) and not s.orelse and len(s.body) == 1 and isinstance(s.body[0], ast.Raise) and norm(s.body[0].exc).startswith("ValueError("), "guard raising ValueError", s)
    t = s.test
    _expect(isinstance(t, ast.BoolOp) and isinstance(t.op, ast.And) and len(t.values) == 2, "`X is not None and <comparison>`", s)
    m = re.fullmatch(r"(\w+) is not None", norm(t.values[0]))
    _expect(m is not None, "`X is not None`", s)
    var = m.group(1)
    c = t.values[1]
    if var == "scheduler":
        _expect(norm(c) == "scheduler not in ('default', 'random')", "scheduler not in ('default', 'random')", s)
        return var, None
    _expect(var in ZVAR and isinstance(c, ast.Compare) and len(c.ops) == 1 and norm(c.left) == var and isinstance(c.comparators[0], ast.Constant)
            and isinstance(c.comparators[0].value, int), "comparison of %s with an int" % var, s)
    k = c.comparators[0].value
    op = {ast.Lt: "(v <? %d)%%Z", ast.LtE: "(v <=? %d)%%Z", ast.Gt: "(%d <? v)%%Z", ast.GtE: "(%d <=? v)%%Z"}.get(type(c.ops[0]))
    _expect(op is not None, "comparison operator", s)
    return var, op % k


def kwargs_of(call):
    _expect(isinstance(call, ast.Call), "a call", call)
    return {k.arg: norm(k.value) for k in call.keywords}


def translate(run_path, caching_path, physical_path):
    tree = ast.parse(open(run_path).read())
    f = _fn(tree, "run")
    body = [s for s in f.body if not (isinstance(s, ast.Expr) and isinstance(s.value, ast.Constant))]
    # ---- _coerce_retry
    cr = _fn(tree, "_coerce_retry")
    _expect([norm(s) for s in cr.body] == ["if callable(retry): return retry", "return create_retry(1 if retry is None else retry)"], "_coerce_retry: a callable as it is, else create_retry(1 if None else n)", cr)
    # ---- argument checks up to the defaulting of stale_check_max_workers
    rejects = {}
    i = 0
    while i < len(body):
        s = body[i]
        src = norm(s)
        if src.startswith("assert_is_instance(") or src.startswith("assert_is_callable("):
            i += 1
            continue
        if isinstance(s, ast.If) and isinstance(s.body[0], ast.Raise):
            var, test = guard(s)
            if test is not None:
                _expect(var not in rejects, "one range check per argument", s)
                rejects[var] = test
            i += 1
            continue
        break
    _expect(set(rejects) == {"max_workers", "stale_check_max_workers", "max_errors"}, "range checks for max_workers, stale_check_max_workers, max_errors (found %r)" % sorted(rejects))
    _expect(norm(body[i]) == "if stale_check_max_workers is None: stale_check_max_workers = max_workers", "stale_check_max_workers defaults to max_workers", body[i])
    rest = [norm(s) for s in body[i + 1:-1]]
    _expect(rest == ["plan = get_mutable_plan(plan, inplace=False)", "output_node = plan._gather(get_stack_frame(), output) if output is not None else None",
                     "redirected_output_node = output_node", "progress = _coerce_progress(progress)", "progress_observer = progress.observer()", "retry = _coerce_retry(retry)"],
            "the statements between the checks and the try block", body[i + 1])
    tr = body[-1]
    _expect(isinstance(tr, ast.Try) and len(tr.body) == 1 and isinstance(tr.body[0], ast.With) and norm(tr.body[0].items[0].context_expr) == "progress_observer"
            and len(tr.handlers) == 1 and norm(tr.handlers[0].type) == "NodeError" and [norm(x) for x in tr.handlers[0].body] == ["raise CallError(e.node) from e.__cause__"],
            "try: with progress_observer: ... except NodeError as e: raise CallError(e.node) from e.__cause__", tr)
    w = tr.body[0].body
    steps = []
    # env: which run() variable each name denotes at this point
    for s in w:
        src = norm(s)
        if isinstance(s, ast.If) and norm(s.test) == "registry":
            _expect(len(s.body) == 1 and len(s.orelse) == 1, "if registry: plan_with_value_stores(...) else: prune_plan(...)", s)
            call = s.body[0].value
            _expect(norm(s.body[0].targets[0]) == "(plan, redirected_output_node)" and norm(call.func) == "plan_with_value_stores", "plan, redirected_output_node = plan_with_value_stores(...)", s)
            kw = kwargs_of(call)
            _expect(kw.get("output_node") == "output_node" and kw.get("progress_observer") == "progress_observer" and kw.get("fresh_time") == "fresh_time" and kw.get("inplace") == "True"
                    and kw.get("retry") == "retry", "keywords of plan_with_value_stores", call)
            stale_workers_src = kw.get("max_workers")
            _expect(norm(s.orelse[0]) == "prune_plan(plan, required_nodes=[], output_node=output_node, inplace=True)", "prune_plan(plan, required_nodes=[], output_node=output_node, inplace=True)", s.orelse[0])
            steps.append(("branch", stale_workers_src))
        elif isinstance(s, ast.If) and norm(s.test) == "transform_physical":
            _expect([norm(x).replace("(plan, redirected_output_node) =", "plan, redirected_output_node =") for x in s.body] == ["plan, redirected_output_node = transform_physical(plan, redirected_output_node)"]
                    and not s.orelse, "the caller's transform_physical", s)
            steps.append(("transform",))
        elif src == "_update_run_totals(plan, progress_observer)":
            steps.append(("totals",))
        elif isinstance(s, ast.If) and norm(s.test) == "dry_run":
            _expect([norm(x) for x in s.body] in (["return (plan, redirected_output_node)"], ["return plan, redirected_output_node"]) and not s.orelse, "if dry_run: return plan, redirected_output_node", s)
            steps.append(("dry",))
        elif isinstance(s, ast.Return) and isinstance(s.value, ast.Call) and norm(s.value.func) == "run_physical":
            kw = kwargs_of(s.value)
            _expect(kw.get("output_node") == "redirected_output_node" and kw.get("progress_observer") == "progress_observer" and kw.get("retry") == "retry" and kw.get("inplace") == "True",
                    "keywords of run_physical", s)
            steps.append(("run", kw.get("max_workers"), kw.get("max_errors"), kw.get("scheduler")))
        else:
            raise TranslationError("run(): statement in the `with progress_observer:` block the translator does not know: `%s`" % src[:120])
    _expect([x[0] for x in steps] == ["branch", "transform", "totals", "dry", "run"], "order of the steps inside `with progress_observer:` (found %r)" % [x[0] for x in steps])
    # ---- the engine calls behind the two passes
    ctree = ast.parse(open(caching_path).read())
    pw = _fn(ctree, "plan_with_value_stores")
    gs_call = [n for n in ast.walk(pw) if isinstance(n, ast.Call) and norm(n.func) == "_get_stale_nodes"]
    _expect(len(gs_call) == 1, "plan_with_value_stores calls _get_stale_nodes once", pw)
    kw = kwargs_of(gs_call[0])
    _expect(kw.get("max_workers") == "max_workers" and kw.get("retry") == "retry", "plan_with_value_stores hands max_workers and retry to _get_stale_nodes", gs_call[0])
    gs = _fn(ctree, "_get_stale_nodes")
    eng = [n for n in ast.walk(gs) if isinstance(n, ast.Call) and norm(n.func) == "run_function_on_graph"]
    _expect(len(eng) == 1, "_get_stale_nodes starts one engine pass", gs)
    ekw = kwargs_of(eng[0])
    _expect(ekw.get("worker_count") == "max_workers" and set(ekw) <= {"worker_count", "scheduler", "max_errors"}, "the stale check's engine pass gets worker_count=max_workers", eng[0])
    stale_sched = {"'cheap'": "SCheap", "'default'": "SDefault", "'random'": "SRandom", None: "SDefault"}.get(ekw.get("scheduler"))
    _expect(stale_sched is not None, "scheduler of the stale check", eng[0])
    stale_errors = ekw.get("max_errors", "0")        # run_function_on_graph's default is max_errors=0
    _expect(stale_errors == "0", "the stale check tolerates no error", eng[0])
    ptree = ast.parse(open(physical_path).read())
    rp = _fn(ptree, "run_physical")
    eng2 = [n for n in ast.walk(rp) if isinstance(n, ast.Call) and norm(n.func) == "run_function_on_graph"]
    _expect(len(eng2) == 1, "run_physical starts one engine pass", rp)
    rkw = kwargs_of(eng2[0])
    _expect(rkw.get("worker_count") == "max_workers" and rkw.get("max_errors") == "max_errors" and rkw.get("scheduler") == "scheduler", "run_physical hands max_workers / max_errors / scheduler to the engine", eng2[0])
    prep = [n for n in ast.walk(rp) if isinstance(n, ast.Call) and norm(n.func) == "prep_run_physical"]
    _expect(len(prep) == 1 and kwargs_of(prep[0]).get("retry") == "retry", "run_physical hands retry to prep_run_physical", rp)

    def zval(name):
        if name == "stale_check_max_workers":
            return "(match a_stale_workers a with Some w => Some w | None => a_max_workers a end)"      # after the defaulting statement
        if name == "max_workers":
            return "(a_max_workers a)"
        if name == "max_errors":
            return "(a_max_errors a)"
        raise TranslationError("engine limit taken from something the translator does not know: %r" % name)
    _, stale_src = steps[0]
    _, rw, re_, rs = steps[4]
    _expect(rs == "scheduler", "the run pass gets the caller's scheduler", None)
    valid = " && ".join("match %s with Some v => negb %s | None => true end" % (ZVAR[v], rejects[v]) for v in ("max_workers", "stale_check_max_workers", "max_errors"))
    return ("(* GENERATED by harness/translate_run.py from %s (and the engine calls in caching.py / run_physical.py) - do not edit *)\n"
            "From Coq Require Import List Arith ZArith Bool.\nImport ListNotations.\nFrom UJ Require Import Run.Api.\n\n"
            "Definition gen_valid (a : args) : bool :=\n  %s &&\n  match attempts_of (a_retry a) with Some _ => true | None => false end.   (* _coerce_retry / create_retry *)\n\n"
            "Definition gen_run_api (a : args) : outcome :=\n  if negb (gen_valid a) then Rejected else\n  match attempts_of (a_retry a) with\n  | None => Rejected\n  | Some att =>\n"
            "    Steps (StEnter ::                                                     (* with progress_observer: *)\n"
            "           (if a_registry a                                              (* if registry: plan_with_value_stores(...) else: prune_plan(...) *)\n"
            "            then [StStaleCheck {| p_workers := %s; p_max_errors := Some 0%%Z; p_sched := %s; p_attempts := att |}]\n            else [StPrune]) ++\n"
            "           (if a_transform a then [StTransform] else []) ++            (* if transform_physical: ... *)\n"
            "           [StTotals] ++                                                (* _update_run_totals *)\n"
            "           (if a_dry_run a then []                                      (* if dry_run: return plan, redirected_output_node *)\n"
            "            else [StRun {| p_workers := %s; p_max_errors := %s; p_sched := sched_of (a_scheduler a); p_attempts := att |}]) ++\n"
            "           [StExit]) (a_dry_run a)\n  end.\n"
            % (os.path.relpath(run_path, core.REPO), valid, zval(stale_src), stale_sched, zval(rw), zval(re_)))


def check(ctx):
    base = os.path.join(core.REPO_SRC, "uberjob")
    ctx.notes["translator_run"] = "harness/translate_run.py: _run.py run() plumbing (+ the engine calls of caching.py / run_physical.py) -> coq/gen/RunGen.v, link theorems coq/gen/RunLink.v"
    try:
        text = translate(os.path.join(base, "_run.py"), os.path.join(base, "_transformations", "caching.py"), os.path.join(base, "_execution", "run_physical.py"))
    except (TranslationError, SyntaxError, OSError) as e:
        ctx.broke("translator: the plumbing of run() in _run.py (or the engine calls behind it) no longer has the shape the translator reads (fail-closed)", str(e))
        return
    gen_dir = core.gen_dir()
    import shutil
    shutil.copy(os.path.join(GEN, "RunLink.v"), gen_dir)
    with open(os.path.join(gen_dir, "RunGen.v"), "w") as f:
        f.write(text)
    ctx.compared("translator: _run.py run() plumbing -> Gallina, linked to Run/Api.v by theorems")
    flags = ["-Q", os.path.join(core.COQ, "theories"), core.LOGICAL, "-Q", gen_dir, "UJGen", "-w", "none"]
    for f in ("RunGen.v", "RunLink.v"):
        p = subprocess.run(["timeout", "300", "coqc"] + flags + [os.path.join(gen_dir, f)], cwd=core.COQ, stdout=subprocess.PIPE, stderr=subprocess.STDOUT, text=True)
        if p.returncode != 0:
            break
    ok = p.returncode == 0 and (p.stdout or "").count("Closed under the global context") == 4
    ctx.notes["translator_run_link_theorems"] = ("UJGen.RunLink.{generated_run_is_model, C10_limits_reach_the_engine_on_source, C14_dry_run_on_source, C15_observer_brackets_on_source}: %s"
                                                 % ("proved, closed" if ok else "NOT proved"))
    if not ok:
        # api_corr.py (same check) observes the keyword arguments that reach both engine passes for random argument combinations and exhibits the combination
        ctx.broke("translator link theorems UJGen.RunLink no longer check: the plumbing of run() differs from Run/Api.v", (p.stdout or "")[-1500:])
